#!/usr/bin/env python3
"""setup_cmd: build the IR fact exporter from files on disk (offline, ~10 s)."""
import os
import sys
sys.path.insert(0, os.path.join(os.path.dirname(os.path.dirname(os.path.abspath(__file__))), "lib"))
import build
build.ensure_irfacts()
print("irfacts ready:", build.IRFACTS)
