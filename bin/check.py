#!/usr/bin/env python3
"""Entry point: python3 bin/check.py <ID> [<ID>...] [--tier quick|thorough]
                 python3 bin/check.py --replay <witness.json>
Exit 0: every obligation discharged.  Exit 1: VIOLATION lines printed.
Exit 2: analysis broken (cannot decide) - never a pass, never a violation."""
import argparse
import glob
import importlib
import json
import os
import sys
import traceback

HERE = os.path.dirname(os.path.abspath(__file__))
VERIF = os.path.dirname(HERE)
sys.path.insert(0, os.path.join(VERIF, "lib"))

import build  # noqa: E402
import ir  # noqa: E402
import effects  # noqa: E402
import report  # noqa: E402
import typestate  # noqa: E402


class Ctx:
    """lazily built, cached views of /repo's current source"""

    def __init__(self, tier, base_overrides=None):
        self.tier = tier
        self.base_overrides = dict(base_overrides or {})
        self._progs = {}
        self._eff = {}

    def controls(self):
        return sorted(glob.glob(os.path.join(VERIF, "controls", "*.c")))

    def prog(self, config="release", overrides=None, optlevel=0, with_controls=True):
        if self.base_overrides:
            overrides = dict(self.base_overrides, **(overrides or {}))
        key = (config, tuple(sorted((overrides or {}).items())), optlevel, with_controls)
        if key not in self._progs:
            f = build.facts(config, overrides, optlevel, self.controls() if with_controls else None)
            self._progs[key] = ir.Program(f)
        return self._progs[key]

    def typestate(self):
        """(harvested preconditions, predicate algebra, item-facts engine) for the release program"""
        if not hasattr(self, "_ts"):
            rp = self.prog()
            dp = self.prog("debug", with_controls=False)
            H, total = typestate.harvest(dp)
            PA = typestate.PredAlgebra(rp)
            self._ts = (H, PA, typestate.ItemFacts(rp, PA, H), total)
        return self._ts

    def effects(self, prog):
        if id(prog) not in self._eff:
            self._eff[id(prog)] = effects.Effects(prog)
        return self._eff[id(prog)]


ALT_CONFIGS_QUICK = [{"CBOR_BUFFER_GROWTH": 3, "CBOR_MAX_STACK_SIZE": 5, "CBOR_PRETTY_PRINTER": 0, "CHAR_UNSIGNED": 1}]
ALT_CONFIGS_THOROUGH = ALT_CONFIGS_QUICK + [{"CBOR_BUFFER_GROWTH": 4, "CBOR_MAX_STACK_SIZE": 1},
                                            {"CBOR_BUFFER_GROWTH": 7, "CBOR_MAX_STACK_SIZE": 64}]


def run_property(pid, tier, seed):
    mod = importlib.import_module("props." + pid.lower())
    ctx = Ctx(tier)
    chk = report.Check(pid, tier, seed)
    broken = []

    def guarded(c):
        # a violation already established takes precedence over a later "cannot decide": the remaining rules of this
        # configuration are skipped, the violation is reported (exit 1); without a violation the check is broken (exit 2)
        try:
            mod.run(c, chk)
        except build.AnalysisBroken as e:
            broken.append("%s%s" % (chk.scope, e))
    guarded(ctx)
    # the same rules again under alternative build configurations: a change that is right for the default
    # CBOR_BUFFER_GROWTH / CBOR_MAX_STACK_SIZE / CBOR_PRETTY_PRINTER only (a literal where the macro belongs, an #if arm
    # the default build never compiles) is judged in a configuration where it shows
    alts = ALT_CONFIGS_THOROUGH if tier == "thorough" else ALT_CONFIGS_QUICK
    if os.environ.get("VERIF_NO_ALT"):
        alts = []
    for ov in alts:
        chk.scope = "[%s] " % ",".join("%s=%s" % (k.replace("CBOR_", ""), v) for k, v in sorted(ov.items()))
        guarded(Ctx(tier, ov))
    chk.scope = ""
    if broken:
        if any(not o["ok"] for o in chk.obs):
            chk.floor_failures.extend(broken)
        else:
            raise build.AnalysisBroken("; ".join(broken))
    chk.extra["configurations"] = ["default"] + [dict(a) for a in alts]
    if tier == "thorough" and not os.environ.get("VERIF_SELFTEST"):
        import corpus
        corpus.run_for(chk, pid)
    return chk.finish()


def main():
    ap = argparse.ArgumentParser()
    ap.add_argument("ids", nargs="*")
    ap.add_argument("--tier", default=os.environ.get("VERIF_TIER", "quick"))
    ap.add_argument("--replay")
    a = ap.parse_args()
    seed = int(os.environ.get("VERIF_SEED", "0") or 0)
    if a.replay:
        w = json.load(open(a.replay))
        print("replaying %s rule %s instance %s (recorded at %s)" % (w["property"], w["rule"], w["instance"], w["where"]))
        if w.get("path"):
            for step in w["path"]:
                print("   ", step)
        a.ids = [w["property"]]
    if not a.ids:
        ap.error("no property id")
    rc = 0
    for pid in a.ids:
        try:
            r = run_property(pid, a.tier, seed)
        except build.AnalysisBroken as e:
            print("ANALYSIS-BROKEN property=%s: %s" % (pid, e))
            r = 2
        except Exception:
            traceback.print_exc()
            print("ANALYSIS-BROKEN property=%s: internal error" % pid)
            r = 2
        rc = max(rc, r)
    sys.exit(rc)


if __name__ == "__main__":
    main()
