#!/usr/bin/env python3
"""Composition test of the corpus (scratch copies only): realistic commits mix a refactoring with other edits.
   benign x benign : two behaviour-preserving patches applied together must leave all 20 checks silent;
   benign x seeded : a property-breaking patch applied on top of an unrelated refactoring must still be reported by its owning check.
Pairs are drawn with a fixed seed; a pair whose patches do not both apply is skipped.
usage: tools/combo.py [npairs_benign] [npairs_mixed] [seed]"""
import concurrent.futures, glob, json, os, random, re, shutil, subprocess, sys, tempfile

VERIF = os.path.dirname(os.path.dirname(os.path.abspath(__file__)))
sys.path.insert(0, os.path.join(VERIF, "lib"))
import corpus  # noqa: E402
REPO = "/repo"
nb = int(sys.argv[1]) if len(sys.argv) > 1 else 40
nm = int(sys.argv[2]) if len(sys.argv) > 2 else 40
rng = random.Random(int(sys.argv[3]) if len(sys.argv) > 3 else 1)
ALL = ["C%02d" % i for i in range(1, 21)]
benign = sorted(glob.glob(os.path.join(VERIF, "benign", "*")))
seeded = [d for d in sorted(glob.glob(os.path.join(VERIF, "seeded", "*"))) if json.load(open(os.path.join(d, "meta.json"))).get("expected_exit") is None]


def scratch(patches):
    d = tempfile.mkdtemp(prefix="combo-", dir="/tmp")
    shutil.copytree(os.path.join(REPO, "src"), os.path.join(d, "src"))
    shutil.copy(os.path.join(REPO, "CMakeLists.txt"), os.path.join(d, "CMakeLists.txt"))
    for k, p in enumerate(patches):
        sub = os.path.join(d, "p%d" % k)
        os.makedirs(sub)
        pp = corpus.library_part(p, sub)
        a = subprocess.run(["patch", "-p1", "-s", "-f", "--no-backup-if-mismatch", "-F", "0", "-d", d, "-i", pp], capture_output=True, text=True)
        if a.returncode != 0:
            shutil.rmtree(d, ignore_errors=True)
            return None
    return d


def run(d, ids):
    env = dict(os.environ, VERIF_REPO=d, VERIF_SELFTEST="1")
    r = subprocess.run([sys.executable, os.path.join(VERIF, "bin", "check.py")] + ids, capture_output=True, text=True, env=env)
    fired = sorted(set(re.findall(r"SELFTEST-VIOLATION property=(C\d+) rule=(\S+)", r.stdout)))
    broken = [l[:200] for l in r.stdout.splitlines() if l.startswith("ANALYSIS-BROKEN")]
    if "Traceback" in r.stderr:
        broken.append("internal error: " + r.stderr.strip().splitlines()[-1][:160])
    return fired, broken


def bb(pair):
    a, b = pair
    d = scratch([os.path.join(a, "patch.diff"), os.path.join(b, "patch.diff")])
    if d is None:
        return pair, "skip"
    try:
        fired, broken = run(d, ALL)
        return pair, (None if not fired and not broken else "ALARM %s %s" % (fired[:3], broken[:1]))
    finally:
        shutil.rmtree(d, ignore_errors=True)


def bs(pair):
    a, s = pair
    prop = json.load(open(os.path.join(s, "meta.json")))["property"]
    d = scratch([os.path.join(a, "patch.diff"), os.path.join(s, "patch.diff")])
    if d is None:
        return pair, "skip"
    try:
        fired, broken = run(d, [prop])
        return pair, (None if any(p == prop for p, _ in fired) else "MISSED by %s: fired %s broken %s" % (prop, fired[:3], broken[:1]))
    finally:
        shutil.rmtree(d, ignore_errors=True)


pairs_bb = [tuple(rng.sample(benign, 2)) for _ in range(nb * 2)]
pairs_bs = [(rng.choice(benign), rng.choice(seeded)) for _ in range(nm * 2)]
bad = 0
with concurrent.futures.ThreadPoolExecutor(max_workers=10) as ex:
    done = 0
    for pair, msg in ex.map(bb, pairs_bb):
        if msg == "skip":
            continue
        done += 1
        if msg:
            bad += 1
            print("benign+benign", os.path.basename(pair[0]), os.path.basename(pair[1]), msg)
        if done >= nb:
            break
    print("benign+benign: %d combinations applied, %d not silent" % (done, bad))
    sys.stdout.flush()
    done2, bad2 = 0, 0
    for pair, msg in ex.map(bs, pairs_bs):
        if msg == "skip":
            continue
        done2 += 1
        if msg:
            bad2 += 1
            print("benign+seeded", os.path.basename(pair[0]), os.path.basename(pair[1]), msg)
        if done2 >= nm:
            break
    print("benign+seeded: %d combinations applied, %d not reported by the owning check" % (done2, bad2))
sys.exit(1 if bad or bad2 else 0)
