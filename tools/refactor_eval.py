#!/usr/bin/env python3
"""Apply a behaviour-preserving patch to /repo, run all 20 quick checks (no evidence written), undo, report any alarm.
usage: tools/refactor_eval.py <dir containing k/patch.diff ...>"""
import os, re, subprocess, sys
root = sys.argv[1]
ALL = ["C%02d" % i for i in range(1, 21)]
res = {}
for k in sorted(os.listdir(root)):
    p = os.path.join(root, k, "patch.diff")
    if not os.path.exists(p):
        continue
    a = subprocess.run("git -C /repo apply %s" % p, shell=True, capture_output=True, text=True)
    if a.returncode != 0:
        print(k, "patch does not apply:", a.stderr[:200])
        continue
    try:
        r = subprocess.run("cd /verif && VERIF_SELFTEST=1 python3 bin/check.py %s" % " ".join(ALL), shell=True, capture_output=True, text=True)
    finally:
        subprocess.run("git -C /repo checkout -- .", shell=True)
    alarms = [l for l in r.stdout.splitlines() if ": rule " in l]
    broken = [l for l in r.stdout.splitlines() if l.startswith("ANALYSIS-BROKEN")]
    note = open(os.path.join(root, k, "notes.txt")).read().strip().replace("\n", " ")[:160] if os.path.exists(os.path.join(root, k, "notes.txt")) else ""
    print("== %s/%s: %d alarm(s), %d broken  -- %s" % (root, k, len(alarms), len(broken), note))
    seen = set()
    for l in alarms:
        key = l.split(" violated by ")[0]
        if key in seen:
            continue
        seen.add(key)
        print("     ", l[:330])
    for l in broken:
        print("     ", l[:330])
