#!/usr/bin/env python3
"""Evaluate every delivered seed of one round: tools/seed_batch.py <prefix> [PROP ...]
looks for /tmp/seed_<prefix>_<PROP>/<k>/patch.diff, runs tools/seed_eval.py on each and prints one line per seed."""
import glob, json, os, re, subprocess, sys
prefix = sys.argv[1]
only = set(sys.argv[2:])
for d in sorted(glob.glob("/tmp/seed_%s_C??/[0-9]" % prefix)):
    prop = re.search(r"_(C\d\d)/", d + "/").group(1)
    if only and prop not in only:
        continue
    k = os.path.basename(d)
    sid = "%s-%s-agent-%s" % (prefix, prop, k)
    if not os.path.exists(os.path.join(d, "patch.diff")):
        continue
    r = subprocess.run([sys.executable, "/verif/tools/seed_eval.py", d, sid, prop], capture_output=True, text=True)
    t = r.stdout
    try:
        m = json.loads(t[t.index("{"):])
        own = prop in m["checks_fired"]
        print("%s suite=%s demo=%s owning=%s fired=%s broken=%s" % (sid, m["pinned_suite_passes"], m["demo_discriminates"], own,
              {a: b for a, b in m["checks_fired"].items()}, [(a, b[:160]) for a, b in m["analysis_broken"]]))
    except Exception as e:
        print(sid, "EVAL FAILED", t[-300:], r.stderr[-300:])
    sys.stdout.flush()
