#!/usr/bin/env python3
"""Fast whole-corpus regression of the checkers (what the thorough tier does per property, in one go):
   every patch under benign/ must leave all 20 checks silent, every patch under seeded/ must make its owning check exit 1.
Each patch is applied to a scratch copy of /repo/src (never /repo itself).  usage: tools/regress.py [benign|seeded|all] [glob]"""
import concurrent.futures, fnmatch, glob, json, os, re, shutil, subprocess, sys, tempfile

VERIF = os.path.dirname(os.path.dirname(os.path.abspath(__file__)))
REPO = "/repo"
what = sys.argv[1] if len(sys.argv) > 1 else "all"
pat = sys.argv[2] if len(sys.argv) > 2 else "*"
ALL = ["C%02d" % i for i in range(1, 21)]


def scratch(patch):
    d = tempfile.mkdtemp(prefix="regr-", dir="/tmp")
    shutil.copytree(os.path.join(REPO, "src"), os.path.join(d, "src"))
    shutil.copy(os.path.join(REPO, "CMakeLists.txt"), os.path.join(d, "CMakeLists.txt"))
    sys.path.insert(0, os.path.join(VERIF, "lib"))
    import corpus
    patch = corpus.library_part(patch, d)
    a = subprocess.run(["patch", "-p1", "-s", "-f", "-d", d, "-i", patch], capture_output=True, text=True)
    return d, a.returncode == 0


def run(d, ids):
    env = dict(os.environ, VERIF_REPO=d, VERIF_SELFTEST="1")
    r = subprocess.run([sys.executable, os.path.join(VERIF, "bin", "check.py")] + ids, capture_output=True, text=True, env=env)
    fired = sorted(set(re.findall(r"SELFTEST-VIOLATION property=(C\d+) rule=(\S+)", r.stdout)))
    broken = [l[:300] for l in r.stdout.splitlines() if l.startswith("ANALYSIS-BROKEN")]
    if "Traceback" in r.stderr:
        broken.append("internal error: " + r.stderr.strip().splitlines()[-1][:200])
    first = next((l[:300] for l in r.stdout.splitlines() if ": rule " in l), "")
    return fired, broken, first


def benign(bd):
    d, ok = scratch(os.path.join(bd, "patch.diff"))
    try:
        if not ok:
            return os.path.basename(bd), "SKIP (patch does not apply)"
        fired, broken, first = run(d, ALL)
        if fired or broken:
            return os.path.basename(bd), "ALARM %s %s %s" % (fired[:4], broken[:2], first)
        return os.path.basename(bd), None
    finally:
        shutil.rmtree(d, ignore_errors=True)


def seeded(sd):
    prop = json.load(open(os.path.join(sd, "meta.json")))["property"]
    d, ok = scratch(os.path.join(sd, "patch.diff"))
    try:
        if not ok:
            return os.path.basename(sd), "SKIP (patch does not apply)"
        fired, broken, first = run(d, [prop])
        if json.load(open(os.path.join(sd, "meta.json"))).get("expected_exit") == 2:
            return os.path.basename(sd), None if (broken and not fired) else "expected analysis-broken by design, got fired %s broken %s" % (fired, broken[:1])
        if not any(p == prop for p, _ in fired):
            return os.path.basename(sd), "MISSED by %s: fired %s broken %s" % (prop, fired, broken[:1])
        return os.path.basename(sd), None
    finally:
        shutil.rmtree(d, ignore_errors=True)


bad = 0
with concurrent.futures.ThreadPoolExecutor(max_workers=12) as ex:
    if what in ("benign", "all"):
        dirs = sorted(d for d in glob.glob(os.path.join(VERIF, "benign", "*")) if fnmatch.fnmatch(os.path.basename(d), pat))
        res = list(ex.map(benign, dirs))
        for n, msg in res:
            if msg:
                bad += 1
                print("benign", n, msg)
        print("benign: %d patches, %d not silent" % (len(res), sum(1 for _, m in res if m)))
        sys.stdout.flush()
    if what in ("seeded", "all"):
        dirs = sorted(d for d in glob.glob(os.path.join(VERIF, "seeded", "*")) if fnmatch.fnmatch(os.path.basename(d), pat))
        res = list(ex.map(seeded, dirs))
        for n, msg in res:
            if msg:
                bad += 1
                print("seeded", n, msg)
        print("seeded: %d patches, %d not reported by the owning check" % (len(res), sum(1 for _, m in res if m)))
sys.exit(1 if bad else 0)
