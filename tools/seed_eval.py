#!/usr/bin/env python3
"""Confirm and evaluate a seeded change produced by an independent sub-agent.
usage: tools/seed_eval.py <seed dir with patch.diff demo.c notes.txt> <seed id> <property>
 1. confirm in a scratch worktree of /repo (outside /repo and /verif): patch applies, library builds, the pinned
    test suite still passes, the demo passes on the unmodified build and fails on the modified one;
 2. apply the patch to /repo, run all 20 quick checks, undo it straight afterwards;
 3. store everything under /verif/seeded/<id>/ (patch.diff, demo.c, notes.txt, meta.json)."""
import json, os, re, shutil, subprocess, sys

seed, sid, prop = sys.argv[1], sys.argv[2], sys.argv[3]
WT = os.environ.get("SEED_WT", "/tmp/wt_confirm")   # one scratch worktree per parallel worker
ALL = ["C%02d" % i for i in range(1, 21)]


def sh(cmd, **kw):
    return subprocess.run(cmd, shell=True, capture_output=True, text=True, errors="replace", **kw)


def demo_cmake_args():
    """a demonstration that needs a non-default library configuration says so in a comment line `CMAKE_ARGS: -D...`"""
    try:
        m_ = re.search(r"CMAKE_ARGS:\s*(.*)", open(os.path.join(seed, "demo.c")).read()[:1500])
        # only -D definitions count (the rest of such a line may be prose)
        return " ".join(w for w in m_.group(1).split() if re.fullmatch(r"-D\w+=[\w.+-]*", w)) if m_ else ""
    except OSError:
        return ""


def build(bdir, extra=""):
    r = sh("cmake -G Ninja -S %s -B %s -DWITH_TESTS=ON -DCMAKE_BUILD_TYPE=RelWithDebInfo -DSANITIZE=OFF %s >/dev/null && cmake --build %s 2>&1 | tail -3" % (WT, bdir, extra, bdir))
    return r.returncode == 0, r.stdout[-400:] + r.stderr[-400:]


def demo_cflags():
    """a demonstration that depends on how CLIENT code is compiled says so: a line `DEMO_CFLAGS: -O2`, or a `cc -O<n>` in the
    compile command quoted at its top"""
    try:
        t = open(os.path.join(seed, "demo.c")).read()[:3000]
    except OSError:
        return ""
    m_ = re.search(r"DEMO_CFLAGS:\s*(.*)", t)
    if m_:
        # only real compiler options count ("(none needed ...)" is prose)
        return " ".join(w for w in m_.group(1).strip().split() if re.fullmatch(r"-[A-Za-z][\w=,+-]*", w))
    m_ = re.search(r"\bcc\s+(-O[0-3s])\b", t)
    return m_.group(1) if m_ else ""


def compile_demo(bdir, tag):
    """compiled against the headers of the tree as it is right now (a seed may live in a header)"""
    exe = "/tmp/seed_demo_%s_%s" % (tag, sid)
    c = sh("cc -w %s -I %s/src -I %s -I %s/src %s/demo.c %s/src/libcbor.a -lm -o %s" % (demo_cflags(), WT, bdir, bdir, seed, bdir, exe))
    if c.returncode != 0:
        return None, "demo does not compile: " + c.stderr[-300:]
    return exe, ""


def run_demo(exe_err):
    exe, err = exe_err
    if exe is None:
        return None, err
    r = sh("timeout 120 %s" % exe)
    os.unlink(exe)
    return r.returncode, (r.stdout + r.stderr)[-600:]


meta = dict(id=sid, property=prop, source="independent sub-agent given only the property text and a scratch worktree")
if not os.path.isdir(WT):
    sh("git -C /repo worktree add -q --detach %s HEAD" % WT)
sh("git -C %s checkout -q -- . && git -C %s checkout -q --detach $(git -C /repo rev-parse HEAD)" % (WT, WT))
EXTRA = demo_cmake_args()
meta["demo_cmake_args"] = EXTRA
shutil.rmtree(WT + "/_b0", ignore_errors=True)
ok0, out0 = build(WT + "/_b0", EXTRA)
a = sh("git -C %s apply %s/patch.diff" % (WT, seed))
meta["patch_applies"] = a.returncode == 0
if a.returncode != 0:
    print("patch does not apply:", a.stderr)
    sys.exit(1)
ok1, out1 = build(WT + "/_b1")      # the pinned suite is run on the default configuration
t = sh("ctest --test-dir %s/_b1 -j8 --timeout 900 2>&1 | tail -4" % WT)
if EXTRA:
    shutil.rmtree(WT + "/_b1", ignore_errors=True)
    ok1, out1 = build(WT + "/_b1", EXTRA)      # the demonstration runs against the configuration it asks for
m = re.search(r"(\d+)% tests passed, (\d+) tests failed out of (\d+)", t.stdout)
meta["builds"] = ok1
meta["pinned_suite_with_change"] = t.stdout.strip().splitlines()[-3:] if t.stdout else []
meta["pinned_suite_passes"] = bool(m and m.group(2) == "0")
exe1 = compile_demo(WT + "/_b1", "mod")
sh("git -C %s checkout -q -- ." % WT)
exe0 = compile_demo(WT + "/_b0", "orig")
rc0, o0 = run_demo(exe0)
rc1, o1 = run_demo(exe1)
meta["demo_unmodified"] = dict(exit=rc0, tail=o0[-300:])
meta["demo_modified"] = dict(exit=rc1, tail=o1[-300:])
meta["demo_discriminates"] = rc0 == 0 and rc1 not in (0, None)
shutil.rmtree(WT + "/_b1", ignore_errors=True)
# evaluate the checks on /repo with the patch applied, then undo - or, when several seeds are evaluated in parallel (SEED_SCRATCH=1),
# on a scratch copy of /repo's sources with the patch applied (VERIF_REPO), which leaves /repo alone
SCR = None
if os.environ.get("SEED_SCRATCH"):
    import tempfile
    SCR = tempfile.mkdtemp(prefix="sev-", dir="/tmp")
    shutil.copytree("/repo/src", SCR + "/src")
    shutil.copy("/repo/CMakeLists.txt", SCR + "/CMakeLists.txt")
    sys.path.insert(0, "/verif/lib")
    import corpus as _corpus
    a = sh("cd / && git apply --unsafe-paths --directory=%s %s" % (SCR, _corpus.library_part(os.path.join(seed, "patch.diff"), SCR)))
    if a.returncode == 0 and not sh("diff -rq /repo/src %s/src" % SCR).stdout.strip():
        a.returncode = 1          # nothing was applied
else:
    a = sh("git -C /repo apply %s/patch.diff" % seed)
fired = {}
try:
    if a.returncode == 0:
        r = sh("cd /verif && %sVERIF_SELFTEST=1 python3 bin/check.py %s" % (("VERIF_REPO=%s " % SCR) if SCR else "", " ".join(ALL)))
        for line in r.stdout.splitlines():
            mm = re.match(r"SELFTEST-VIOLATION property=(C\d+) rule=(\S+)", line)
            if mm:
                fired.setdefault(mm.group(1), set()).add(mm.group(2))
        broken = re.findall(r"ANALYSIS-BROKEN property=(C\d+): (.*)", r.stdout)
        meta["analysis_broken"] = [list(b) for b in broken]
        first = [l for l in r.stdout.splitlines() if ": rule " in l][:6]
        meta["first_reports"] = [l[:400] for l in first]
finally:
    if SCR:
        shutil.rmtree(SCR, ignore_errors=True)
    else:
        sh("git -C /repo checkout -- .")
meta["checks_fired"] = {k: sorted(v) for k, v in sorted(fired.items())}
meta["caught_by_owning_check"] = prop in fired
meta["caught_by_any_check"] = bool(fired)
dst = "/verif/seeded/%s" % sid
os.makedirs(dst, exist_ok=True)
for fn in ("patch.diff", "demo.c", "notes.txt"):
    if os.path.exists(os.path.join(seed, fn)) and os.path.abspath(seed) != os.path.abspath(dst):
        shutil.copy(os.path.join(seed, fn), os.path.join(dst, fn))
notes = open(os.path.join(seed, "notes.txt")).read() if os.path.exists(os.path.join(seed, "notes.txt")) else ""
meta["needs_to_manifest"] = notes.strip()[:1500]
meta["what_was_run"] = ["cmake+ninja build of the change in scratch worktree /tmp/wt_confirm", "ctest (26 executables / 301 tests) with the change",
                        "demo.c against unmodified and modified libcbor.a", ("scratch copy of /repo/src with the patch applied (VERIF_REPO); python3 bin/check.py C01..C20 (VERIF_SELFTEST=1)" if SCR else "git -C /repo apply; python3 bin/check.py C01..C20 (VERIF_SELFTEST=1); git -C /repo checkout -- .")]
json.dump(meta, open(os.path.join(dst, "meta.json"), "w"), indent=1)
print(json.dumps({k: meta[k] for k in ("id", "property", "pinned_suite_passes", "demo_discriminates", "checks_fired", "analysis_broken")}, indent=1))
