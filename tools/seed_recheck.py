#!/usr/bin/env python3
"""Re-run the checks against stored seeds (no rebuild of the library, no demo): tools/seed_recheck.py <id-glob> [--all]
Each seed's patch is applied to a scratch copy of /repo/src (never /repo itself); prints which checks fire.
Without --all only the owning check is run."""
import concurrent.futures, fnmatch, glob, json, os, re, shutil, subprocess, sys, tempfile

VERIF = os.path.dirname(os.path.dirname(os.path.abspath(__file__)))
REPO = "/repo"
pat = sys.argv[1]
run_all = "--all" in sys.argv
ALL = ["C%02d" % i for i in range(1, 21)]


def one(sd):
    sid = os.path.basename(sd)
    meta = json.load(open(os.path.join(sd, "meta.json")))
    prop = meta["property"]
    d = tempfile.mkdtemp(prefix="rechk-", dir="/tmp")
    try:
        shutil.copytree(os.path.join(REPO, "src"), os.path.join(d, "src"))
        shutil.copy(os.path.join(REPO, "CMakeLists.txt"), os.path.join(d, "CMakeLists.txt"))
        a = subprocess.run(["patch", "-p1", "-s", "-d", d, "-i", os.path.join(sd, "patch.diff")], capture_output=True, text=True)
        if a.returncode != 0:
            return sid, prop, None, "patch does not apply"
        env = dict(os.environ, VERIF_REPO=d, VERIF_SELFTEST="1")
        r = subprocess.run([sys.executable, os.path.join(VERIF, "bin", "check.py")] + (ALL if run_all else [prop]), capture_output=True, text=True, env=env)
        fired = {}
        for line in r.stdout.splitlines():
            m = re.match(r"SELFTEST-VIOLATION property=(C\d+) rule=(\S+)", line)
            if m:
                fired.setdefault(m.group(1), set()).add(m.group(2))
        broken = [l[:260] for l in r.stdout.splitlines() if l.startswith("ANALYSIS-BROKEN")]
        if "Traceback" in r.stderr:
            broken.append(r.stderr[-400:])
        return sid, prop, {k: sorted(v) for k, v in fired.items()}, broken
    finally:
        shutil.rmtree(d, ignore_errors=True)


seeds = sorted(d for d in glob.glob(os.path.join(VERIF, "seeded", "*")) if fnmatch.fnmatch(os.path.basename(d), pat))
with concurrent.futures.ThreadPoolExecutor(max_workers=8) as ex:
    for sid, prop, fired, broken in ex.map(one, seeds):
        print("%s owning=%s fired=%s broken=%s" % (sid, fired is not None and prop in fired, fired, broken))
        sys.stdout.flush()
