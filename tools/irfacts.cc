// irfacts: dump an LLVM-14 module (bitcode or .ll) as JSON facts for the
// Python rule engines.  One JSON object per module on stdout.
//
// Build: clang++ $(llvm-config-14 --cxxflags) -fno-rtti irfacts.cc -o irfacts
//        /usr/lib/llvm-14/lib/libLLVM-14.so
#include "llvm/IR/Constants.h"
#include "llvm/IR/DataLayout.h"
#include "llvm/IR/DebugInfo.h"
#include "llvm/IR/DebugInfoMetadata.h"
#include "llvm/IR/Function.h"
#include "llvm/IR/GlobalVariable.h"
#include "llvm/IR/InstrTypes.h"
#include "llvm/IR/Instructions.h"
#include "llvm/IR/IntrinsicInst.h"
#include "llvm/IR/LLVMContext.h"
#include "llvm/IR/Module.h"
#include "llvm/IR/Operator.h"
#include "llvm/IRReader/IRReader.h"
#include "llvm/Support/SourceMgr.h"
#include "llvm/Support/raw_ostream.h"

#include <map>
#include <string>

using namespace llvm;

static std::string esc(StringRef s) {
  std::string o;
  for (unsigned char c : s) {
    switch (c) {
      case '"': o += "\\\""; break;
      case '\\': o += "\\\\"; break;
      case '\n': o += "\\n"; break;
      case '\t': o += "\\t"; break;
      case '\r': o += "\\r"; break;
      default:
        if (c < 0x20 || c >= 0x7f) {
          char b[8];
          snprintf(b, sizeof b, "\\u%04x", c);
          o += b;
        } else
          o += (char)c;
    }
  }
  return o;
}

static std::string tstr(Type *t) {
  std::string s;
  raw_string_ostream os(s);
  t->print(os, false, true);
  return os.str();
}


static std::string ditype(const DIType *t, int depth = 0) {
  if (!t) return "void";
  if (depth > 12) return "?";
  if (auto *b = dyn_cast<DIBasicType>(t)) return b->getName().str();
  if (auto *d = dyn_cast<DIDerivedType>(t)) {
    switch (d->getTag()) {
      case dwarf::DW_TAG_pointer_type: return ditype(d->getBaseType(), depth + 1) + "*";
      case dwarf::DW_TAG_const_type: return "const " + ditype(d->getBaseType(), depth + 1);
      case dwarf::DW_TAG_restrict_type: return ditype(d->getBaseType(), depth + 1);
      case dwarf::DW_TAG_volatile_type: return "volatile " + ditype(d->getBaseType(), depth + 1);
      case dwarf::DW_TAG_typedef: return d->getName().str();
      default: return ditype(d->getBaseType(), depth + 1);
    }
  }
  if (auto *c = dyn_cast<DICompositeType>(t)) {
    if (c->getTag() == dwarf::DW_TAG_array_type) return ditype(c->getBaseType(), depth + 1) + "[]";
    std::string pre = c->getTag() == dwarf::DW_TAG_structure_type ? "struct "
                      : c->getTag() == dwarf::DW_TAG_union_type   ? "union "
                      : c->getTag() == dwarf::DW_TAG_enumeration_type ? "enum " : "";
    return pre + c->getName().str();
  }
  if (isa<DISubroutineType>(t)) return "fn";
  return "?";
}

struct FnCtx {
  std::map<const Value *, int> instId;
  std::map<const BasicBlock *, int> blockId;
};

static void emitOperand(raw_ostream &o, const Value *v, FnCtx &cx, int depth = 0);

static void emitConst(raw_ostream &o, const Constant *c, FnCtx &cx, int depth) {
  if (auto *ci = dyn_cast<ConstantInt>(c)) {
    // value as decimal string when wider than 63 bits to stay JSON-safe
    o << "{\"k\":\"const\",\"t\":\"" << esc(tstr(c->getType())) << "\",\"v\":";
    if (ci->getBitWidth() <= 64) {
      o << "\"" << ci->getZExtValue() << "\",\"sv\":\"" << ci->getSExtValue() << "\"";
    } else {
      SmallString<40> s;
      ci->getValue().toStringUnsigned(s);
      o << "\"" << s << "\"";
    }
    o << "}";
  } else if (auto *cf = dyn_cast<ConstantFP>(c)) {
    SmallString<40> s;
    cf->getValueAPF().bitcastToAPInt().toStringUnsigned(s);
    o << "{\"k\":\"fconst\",\"t\":\"" << esc(tstr(c->getType())) << "\",\"bits\":\"" << s << "\"}";
  } else if (isa<ConstantPointerNull>(c)) {
    o << "{\"k\":\"null\",\"t\":\"" << esc(tstr(c->getType())) << "\"}";
  } else if (isa<UndefValue>(c)) {
    o << "{\"k\":\"undef\",\"t\":\"" << esc(tstr(c->getType())) << "\"}";
  } else if (auto *f = dyn_cast<Function>(c)) {
    o << "{\"k\":\"func\",\"name\":\"" << esc(f->getName()) << "\"}";
  } else if (auto *g = dyn_cast<GlobalVariable>(c)) {
    o << "{\"k\":\"global\",\"name\":\"" << esc(g->getName()) << "\"}";
  } else if (auto *ce = dyn_cast<ConstantExpr>(c)) {
    o << "{\"k\":\"cexpr\",\"op\":\"" << ce->getOpcodeName() << "\",\"t\":\""
      << esc(tstr(c->getType())) << "\",\"operands\":[";
    for (unsigned i = 0; i < ce->getNumOperands(); i++) {
      if (i) o << ",";
      emitOperand(o, ce->getOperand(i), cx, depth + 1);
    }
    o << "]";
    if (auto *gep = dyn_cast<GEPOperator>(ce))
      o << ",\"src_type\":\"" << esc(tstr(gep->getSourceElementType())) << "\"";
    o << "}";
  } else if (isa<ConstantAggregateZero>(c)) {
    o << "{\"k\":\"zeroinit\",\"t\":\"" << esc(tstr(c->getType())) << "\"}";
  } else if (auto *cds = dyn_cast<ConstantDataSequential>(c)) {
    o << "{\"k\":\"cdata\",\"t\":\"" << esc(tstr(c->getType())) << "\",\"elems\":[";
    for (unsigned i = 0; i < cds->getNumElements(); i++) {
      if (i) o << ",";
      if (cds->getElementType()->isIntegerTy())
        o << cds->getElementAsInteger(i);
      else
        o << "null";
    }
    o << "]}";
  } else if (auto *ca = dyn_cast<ConstantAggregate>(c)) {
    o << "{\"k\":\"cagg\",\"t\":\"" << esc(tstr(c->getType())) << "\",\"elems\":[";
    for (unsigned i = 0; i < ca->getNumOperands(); i++) {
      if (i) o << ",";
      emitOperand(o, ca->getOperand(i), cx, depth + 1);
    }
    o << "]}";
  } else {
    o << "{\"k\":\"otherconst\",\"t\":\"" << esc(tstr(c->getType())) << "\"}";
  }
}

static void emitOperand(raw_ostream &o, const Value *v, FnCtx &cx, int depth) {
  if (auto *a = dyn_cast<Argument>(v)) {
    o << "{\"k\":\"arg\",\"i\":" << a->getArgNo() << "}";
  } else if (auto *i = dyn_cast<Instruction>(v)) {
    o << "{\"k\":\"inst\",\"id\":" << cx.instId[i] << "}";
  } else if (auto *bb = dyn_cast<BasicBlock>(v)) {
    o << "{\"k\":\"block\",\"id\":" << cx.blockId[bb] << "}";
  } else if (auto *c = dyn_cast<Constant>(v)) {
    emitConst(o, c, cx, depth);
  } else if (isa<MetadataAsValue>(v)) {
    o << "{\"k\":\"meta\"}";
  } else if (isa<InlineAsm>(v)) {
    o << "{\"k\":\"asm\"}";
  } else {
    o << "{\"k\":\"other\"}";
  }
}

static void emitFunction(raw_ostream &o, const Function &F, const DataLayout &DL) {
  FnCtx cx;
  int n = 0, b = 0;
  for (auto &BB : F) {
    cx.blockId[&BB] = b++;
    for (auto &I : BB) cx.instId[&I] = n++;
  }
  o << "{\"name\":\"" << esc(F.getName()) << "\",\"internal\":"
    << (F.hasLocalLinkage() ? "true" : "false")
    << ",\"declaration\":" << (F.isDeclaration() ? "true" : "false")
    << ",\"vararg\":" << (F.isVarArg() ? "true" : "false")
    << ",\"ret_type\":\"" << esc(tstr(F.getReturnType())) << "\""
    << ",\"readonly\":" << (F.onlyReadsMemory() ? "true" : "false")
    << ",\"readnone\":" << (F.doesNotAccessMemory() ? "true" : "false");
  if (auto *sp = F.getSubprogram()) {
    o << ",\"file\":\"" << esc(sp->getFilename()) << "\",\"dir\":\"" << esc(sp->getDirectory())
      << "\",\"line\":" << sp->getLine();
    if (auto *st = sp->getType()) {
      auto arr = st->getTypeArray();
      o << ",\"di_types\":[";
      for (unsigned i = 0; i < arr.size(); i++) {
        if (i) o << ",";
        o << "\"" << esc(ditype(arr[i])) << "\"";
      }
      o << "]";
    }
  }
  o << ",\"params\":[";
  for (auto &A : F.args()) {
    if (A.getArgNo()) o << ",";
    o << "{\"name\":\"" << esc(A.getName()) << "\",\"type\":\"" << esc(tstr(A.getType())) << "\"";
    if (A.hasStructRetAttr()) o << ",\"sret\":true";
    if (A.hasByValAttr()) o << ",\"byval\":true";
    o << "}";
  }
  o << "],\"blocks\":[";
  bool firstB = true;
  for (auto &BB : F) {
    if (!firstB) o << ",";
    firstB = false;
    o << "{\"id\":" << cx.blockId[&BB] << ",\"name\":\"" << esc(BB.getName()) << "\",\"succs\":[";
    const Instruction *T = BB.getTerminator();
    if (T)
      for (unsigned i = 0; i < T->getNumSuccessors(); i++) {
        if (i) o << ",";
        o << cx.blockId[T->getSuccessor(i)];
      }
    o << "],\"insts\":[";
    bool firstI = true;
    for (auto &I : BB) {
      if (isa<DbgInfoIntrinsic>(&I)) {
        // keep dbg.value/dbg.declare as variable-name hints
        auto *dvi = dyn_cast<DbgVariableIntrinsic>(&I);
        if (!dvi) continue;
        const Value *v = dvi->getVariableLocationOp(0);
        if (!v || !(isa<Instruction>(v) || isa<Argument>(v))) continue;
        if (!firstI) o << ",";
        firstI = false;
        o << "{\"id\":" << cx.instId[&I] << ",\"op\":\"dbg\",\"var\":\""
          << esc(dvi->getVariable()->getName()) << "\",\"val\":";
        emitOperand(o, v, cx);
        o << "}";
        continue;
      }
      if (!firstI) o << ",";
      firstI = false;
      o << "{\"id\":" << cx.instId[&I] << ",\"op\":\"" << I.getOpcodeName() << "\",\"type\":\""
        << esc(tstr(I.getType())) << "\",\"name\":\"" << esc(I.getName()) << "\"";
      if (const DebugLoc &dl = I.getDebugLoc()) {
        o << ",\"line\":" << dl.getLine() << ",\"col\":" << dl.getCol();
        if (auto *sc = dyn_cast_or_null<DIScope>(dl.getScope()))
          o << ",\"file\":\"" << esc(sc->getFilename()) << "\"";
      }
      if (auto *ci = dyn_cast<CmpInst>(&I))
        o << ",\"pred\":\"" << CmpInst::getPredicateName(ci->getPredicate()) << "\"";
      if (auto *gep = dyn_cast<GetElementPtrInst>(&I)) {
        o << ",\"src_type\":\"" << esc(tstr(gep->getSourceElementType())) << "\"";
        APInt off(64, 0);
        if (gep->accumulateConstantOffset(DL, off)) o << ",\"const_offset\":" << off.getSExtValue();
        o << ",\"inbounds\":" << (gep->isInBounds() ? "true" : "false");
      }
      if (auto *al = dyn_cast<AllocaInst>(&I)) {
        o << ",\"alloc_type\":\"" << esc(tstr(al->getAllocatedType())) << "\"";
        o << ",\"alloc_size\":" << DL.getTypeAllocSize(al->getAllocatedType()).getFixedSize();
        o << ",\"static\":" << (al->isStaticAlloca() ? "true" : "false");
      }
      if (auto *ld = dyn_cast<LoadInst>(&I))
        o << ",\"volatile\":" << (ld->isVolatile() ? "true" : "false");
      if (auto *st = dyn_cast<StoreInst>(&I))
        o << ",\"val_type\":\"" << esc(tstr(st->getValueOperand()->getType())) << "\"";
      if (auto *cb = dyn_cast<CallBase>(&I)) {
        const Value *cv = cb->getCalledOperand()->stripPointerCasts();
        if (auto *cf = dyn_cast<Function>(cv)) {
          o << ",\"callee\":\"" << esc(cf->getName()) << "\"";
          if (cf->isIntrinsic()) o << ",\"intrinsic\":true";
        } else {
          o << ",\"callee\":null,\"callee_val\":";
          emitOperand(o, cb->getCalledOperand(), cx);
        }
        o << ",\"nargs\":" << cb->arg_size();
      }
      if (auto *sw = dyn_cast<SwitchInst>(&I)) {
        o << ",\"default\":" << cx.blockId[sw->getDefaultDest()] << ",\"cases\":[";
        bool f = true;
        for (auto &c : sw->cases()) {
          if (!f) o << ",";
          f = false;
          o << "[\"" << c.getCaseValue()->getZExtValue() << "\"," << cx.blockId[c.getCaseSuccessor()] << "]";
        }
        o << "]";
      }
      if (auto *phi = dyn_cast<PHINode>(&I)) {
        o << ",\"incoming\":[";
        for (unsigned i = 0; i < phi->getNumIncomingValues(); i++) {
          if (i) o << ",";
          o << "[";
          emitOperand(o, phi->getIncomingValue(i), cx);
          o << "," << cx.blockId[phi->getIncomingBlock(i)] << "]";
        }
        o << "]";
      }
      if (auto *ev = dyn_cast<ExtractValueInst>(&I)) {
        o << ",\"indices\":[";
        for (unsigned i = 0; i < ev->getNumIndices(); i++) {
          if (i) o << ",";
          o << ev->getIndices()[i];
        }
        o << "]";
      }
      if (auto *iv = dyn_cast<InsertValueInst>(&I)) {
        o << ",\"indices\":[";
        for (unsigned i = 0; i < iv->getNumIndices(); i++) {
          if (i) o << ",";
          o << iv->getIndices()[i];
        }
        o << "]";
      }
      if (auto *bo = dyn_cast<OverflowingBinaryOperator>(&I)) {
        o << ",\"nuw\":" << (bo->hasNoUnsignedWrap() ? "true" : "false") << ",\"nsw\":"
          << (bo->hasNoSignedWrap() ? "true" : "false");
      }
      o << ",\"operands\":[";
      unsigned nops = I.getNumOperands();
      if (auto *cb = dyn_cast<CallBase>(&I)) nops = cb->arg_size();
      if (isa<PHINode>(&I)) nops = 0;
      for (unsigned i = 0; i < nops; i++) {
        if (i) o << ",";
        emitOperand(o, I.getOperand(i), cx);
      }
      o << "]}";
    }
    o << "]}";
  }
  o << "]}";
}

int main(int argc, char **argv) {
  if (argc < 2) {
    errs() << "usage: irfacts module.{bc,ll}\n";
    return 2;
  }
  LLVMContext ctx;
  SMDiagnostic err;
  std::unique_ptr<Module> M = parseIRFile(argv[1], err, ctx);
  if (!M) {
    err.print("irfacts", errs());
    return 2;
  }
  const DataLayout &DL = M->getDataLayout();
  raw_ostream &o = outs();
  o << "{\"module\":\"" << esc(M->getSourceFileName()) << "\",\"datalayout\":\""
    << esc(DL.getStringRepresentation()) << "\",\"structs\":{";
  bool first = true;
  for (StructType *st : M->getIdentifiedStructTypes()) {
    if (!first) o << ",";
    first = false;
    o << "\"" << esc(st->getName()) << "\":{\"fields\":[";
    if (!st->isOpaque()) {
      for (unsigned i = 0; i < st->getNumElements(); i++) {
        if (i) o << ",";
        o << "\"" << esc(tstr(st->getElementType(i))) << "\"";
      }
      o << "],\"offsets\":[";
      const StructLayout *sl = DL.getStructLayout(st);
      for (unsigned i = 0; i < st->getNumElements(); i++) {
        if (i) o << ",";
        o << sl->getElementOffset(i);
      }
      o << "],\"size\":" << sl->getSizeInBytes();
    } else {
      o << "],\"opaque\":true";
    }
    o << "}";
  }
  o << "},\"ditypes\":[";
  {
    DebugInfoFinder finder;
    finder.processModule(*M);
    bool f1 = true;
    for (DIType *t : finder.types()) {
      if (auto *c = dyn_cast<DICompositeType>(t)) {
        unsigned tag = c->getTag();
        if (tag != dwarf::DW_TAG_structure_type && tag != dwarf::DW_TAG_union_type &&
            tag != dwarf::DW_TAG_enumeration_type)
          continue;
        if (c->isForwardDecl()) continue;
        if (!f1) o << ",";
        f1 = false;
        o << "{\"tag\":\"" << (tag == dwarf::DW_TAG_structure_type ? "struct" : tag == dwarf::DW_TAG_union_type ? "union" : "enum")
          << "\",\"name\":\"" << esc(c->getName()) << "\",\"size_bits\":" << c->getSizeInBits()
          << ",\"line\":" << c->getLine() << ",\"members\":[";
        bool f2 = true;
        for (auto *el : c->getElements()) {
          if (auto *m = dyn_cast<DIDerivedType>(el)) {
            if (!f2) o << ",";
            f2 = false;
            o << "{\"name\":\"" << esc(m->getName()) << "\",\"offset_bits\":" << m->getOffsetInBits()
              << ",\"type\":\"" << esc(ditype(m->getBaseType())) << "\"}";
          } else if (auto *e = dyn_cast<DIEnumerator>(el)) {
            if (!f2) o << ",";
            f2 = false;
            o << "{\"name\":\"" << esc(e->getName()) << "\",\"value\":" << e->getValue().getSExtValue() << "}";
          }
        }
        o << "]}";
      } else if (auto *d = dyn_cast<DIDerivedType>(t)) {
        if (d->getTag() != dwarf::DW_TAG_typedef) continue;
        if (!f1) o << ",";
        f1 = false;
        o << "{\"tag\":\"typedef\",\"name\":\"" << esc(d->getName()) << "\",\"base\":\""
          << esc(ditype(d->getBaseType())) << "\"";
        if (auto *bc = dyn_cast_or_null<DICompositeType>(d->getBaseType()))
          if (bc->getName().empty()) {
            // anonymous enum/struct behind a typedef: inline enumerators
            o << ",\"members\":[";
            bool f2 = true;
            for (auto *el : bc->getElements())
              if (auto *e = dyn_cast<DIEnumerator>(el)) {
                if (!f2) o << ",";
                f2 = false;
                o << "{\"name\":\"" << esc(e->getName()) << "\",\"value\":" << e->getValue().getSExtValue() << "}";
              }
            o << "]";
          }
        o << "}";
      }
    }
  }
  o << "],\"globals\":[";
  first = true;
  FnCtx empty;
  for (auto &G : M->globals()) {
    if (!first) o << ",";
    first = false;
    o << "{\"name\":\"" << esc(G.getName()) << "\",\"type\":\"" << esc(tstr(G.getValueType()))
      << "\",\"constant\":" << (G.isConstant() ? "true" : "false")
      << ",\"internal\":" << (G.hasLocalLinkage() ? "true" : "false")
      << ",\"declaration\":" << (G.isDeclaration() ? "true" : "false")
      << ",\"thread_local\":" << (G.isThreadLocal() ? "true" : "false");
    if (G.hasInitializer()) {
      o << ",\"init\":";
      emitOperand(o, G.getInitializer(), empty);
    }
    o << "}";
  }
  o << "],\"functions\":[";
  first = true;
  for (auto &F : *M) {
    if (!first) o << ",";
    first = false;
    emitFunction(o, F, DL);
  }
  o << "]}\n";
  return 0;
}
