#!/usr/bin/env python3
"""Regenerate DESIGN.md §10.8 (rule inventory) from the evidence files written by the last quick run."""
import json, os
V = os.path.dirname(os.path.dirname(os.path.abspath(__file__)))
p = os.path.join(V, "DESIGN.md")
s = open(p).read()
marker = "### 10.8 Rule inventory (generated from the evidence files)"
i = s.index(marker)
out = [marker, "", "Every rule below is decided on every run from `/repo`'s current sources, in the default configuration and again under the "
       "alternative configuration `{CBOR_BUFFER_GROWTH=3, CBOR_MAX_STACK_SIZE=5, CBOR_PRETTY_PRINTER=0}`; the numbers are the obligations "
       "discharged on the repaired tree (quick tier, both configurations together).", ""]
tot_rules = tot_ob = 0
for k in range(1, 21):
    pid = "C%02d" % k
    ev = json.load(open(os.path.join(V, "evidence", pid + ".json")))
    out += ["", "**%s**" % pid, ""]
    for name, r in ev["coverage"]["rules"].items():
        text = " ".join(r["text"].split())
        out.append("- `%s` (%d): %s" % (name, r["discharged"], text))
        tot_rules += 1
        tot_ob += r["discharged"]
out += ["", "Total: %d rules, %d obligations discharged." % (tot_rules, tot_ob), ""]
open(p, "w").write(s[:i] + "\n".join(out))
print(tot_rules, "rules", tot_ob, "obligations")
