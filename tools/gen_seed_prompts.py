#!/usr/bin/env python3
"""Writes the prompts for one round of independent seeding sub-agents: /tmp/agent_prompt_<round>_<id>.txt for every property.
Each prompt contains only the property text (from properties.jsonl), the agent's own scratch worktree, the build/test commands,
the round's theme, and one-line summaries of what earlier agents already did (taken from the agents' own notes.txt, not from
any check).   usage: tools/gen_seed_prompts.py <round> <theme-file>"""
import glob, json, os, sys

VERIF = os.path.dirname(os.path.dirname(os.path.abspath(__file__)))
rnd, theme_file = sys.argv[1], sys.argv[2]
theme = open(theme_file).read()

TEMPLATE = """You are helping to evaluate a verification framework for the C library libcbor (PJK/libcbor, a CBOR encoder/decoder).
You have your OWN scratch git worktree of the library at {wt} (work ONLY there and under /tmp; never touch /repo or /verif, do not read /verif).

Here is a semantic property the library is supposed to satisfy:

--- PROPERTY ---
{pid} - {title}

{statement}

Quantified over: {quant}

Relevant files: {files}

--- END PROPERTY ---

Your job: produce TWO independent, realistic source changes to the library (files under {wt}/src only), each of which
  (a) BREAKS the property above,
  (b) still compiles without new warnings-as-errors, and
  (c) still PASSES the library's existing test suite (all tests), i.e. the existing tests do not notice it.
Prefer changes that need something specific to manifest - an unusual input, a particular allocation-failure point, a multi-step sequence
of API calls, a boundary value, or two cooperating sites that each look fine alone - NOT ones that ordinary use would expose at once.
Make them look like plausible developer mistakes or "harmless" commits. The two changes should be of different kinds and in different places.

How to build and test in your worktree (cmocka and ninja are installed; no network):
  cmake -G Ninja -S {wt} -B {wt}/_b -DWITH_TESTS=ON -DCMAKE_BUILD_TYPE=RelWithDebInfo -DSANITIZE=OFF >/dev/null
  cmake --build {wt}/_b && ctest --test-dir {wt}/_b -j8
First build and run the tests on the unmodified worktree to see they pass (26 test executables).

For EACH change deliver, under {out}/1/ and {out}/2/ :
  - patch.diff : `git -C {wt} diff` of exactly that one change (relative to the unmodified HEAD; reset the worktree between the two changes with `git -C {wt} checkout -- .`)
  - demo.c     : a small standalone C program using the public API (#include "cbor.h"; it may install custom allocators with cbor_set_allocs,
                 use mprotect, count allocations, etc.) that exits 0 / prints PASS on the UNMODIFIED library and exits non-zero / prints FAIL
                 (or crashes, or is reported by valgrind/ASan - say which) on the MODIFIED library. Put the exact compile+run commands in a comment at the top, e.g.
                 cc -I {wt}/src -I {wt}/_b -I {wt}/_b/src demo.c {wt}/_b/src/libcbor.a -lm -o demo && ./demo
  - notes.txt  : one paragraph: what the change does, why it breaks the property, what specific circumstance is needed for it to manifest,
                 and the output you observed from the test suite (all passed) and from the demo with and without the change.
You MUST actually run everything: the full test suite with each change applied (all must pass), and the demo against both the unmodified and the modified build.
If a candidate change is caught by the existing tests, discard it and find another. When done, leave the worktree clean (git checkout -- .) but keep {wt}/_b.
Finish by printing a short summary of the two changes and the paths of the delivered files.


{theme}
Keep each change compiling without new warnings and passing all existing tests in the default configuration. The demonstration may use custom
allocators (cbor_set_allocs), fragmented input, API-built trees, and a line `DEMO_CFLAGS: ...` with real compiler options only if needed
(and a line `CMAKE_ARGS: -D...` only if the change shows in a non-default configuration).
Do not repeat these already-used ideas (if your file-reading tool truncates this file, read the rest with an offset):
{used}
"""

for line in open(os.path.join(VERIF, "properties.jsonl")):
    p = json.loads(line)
    pid = p["id"]
    used = []
    for d in sorted(glob.glob(os.path.join(VERIF, "seeded", "*-%s-*" % pid))):
        n = os.path.join(d, "notes.txt")
        if os.path.exists(n):
            t = " ".join(open(n).read().split())
            used.append(t[:260])
    wt = "/tmp/wt_%s_%s" % (rnd, pid)
    out = "/tmp/seed_%s_%s" % (rnd, pid)
    txt = TEMPLATE.format(wt=wt, out=out, pid=pid, title=p["title"], statement=p["statement"], quant=p["quantifier"]["text"],
                          files=", ".join(p["anchors"]["files"]), theme=theme, used="; ".join(used))
    open("/tmp/agent_prompt_%s_%s.txt" % (rnd, pid), "w").write(txt)
    print(pid, len(txt))
