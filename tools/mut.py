#!/usr/bin/env python3
"""Ad-hoc mutant runner (development aid): tools/mut.py FILE 'old' 'new' -- ID [ID..]
applies a single textual edit to /repo's working tree, runs the checks, restores the file."""
import os, subprocess, sys
args = sys.argv[1:]
sep = args.index("--")
path, old, new = args[:sep]
ids = args[sep + 1:]
full = "/repo/" + path
src = open(full).read()
if src.count(old) < 1:
    print("pattern not found"); sys.exit(3)
open(full, "w").write(src.replace(old, new, 1))
try:
    r = subprocess.run(["python3", "/verif/bin/check.py"] + ids, capture_output=True, text=True, env=dict(os.environ, VERIF_SELFTEST="1"))
    lines = [l for l in r.stdout.splitlines() if not l.startswith("VIOLATION") and not l.startswith("SELFTEST")]
    print("\n".join(lines[:12]))
    if len(lines) > 12: print("... (%d more lines)" % (len(lines) - 12))
    print("rc=%d" % r.returncode, r.stderr[-500:])
finally:
    open(full, "w").write(src)
