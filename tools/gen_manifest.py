#!/usr/bin/env python3
"""Regenerates /verif/MANIFEST.json from the table below (single source of truth
for which properties are claimed, at what level, and what is not decided)."""
import json
import os
import sys

VERIF = os.path.dirname(os.path.dirname(os.path.abspath(__file__)))

CLAIMED = {
    "C01": dict(
        technique="aggregate of path/table rules: claim-before-read over all decoder paths, bounded-copy rule at every memcpy, cbor_load window/drain/outcome path rules, loop recogniser + SCC descent, stack gate, discriminated-union typestate at all internal call sites, nullness",
        text="Decided through the mechanisms the property's anchors name, each for all inputs: every buffer byte the decoder "
             "reads is below what claim_bytes granted on that path; every memcpy targets a fresh block of exactly the copied "
             "length or the guarded serializer window; cbor_load passes a consistent remainder window, drains the decoding "
             "stack on every failure path and returns only the root of a clean run; all 27 loops are recognised counting "
             "loops or the two named loops, all recursive cycles descend the tree or pop a frame; the stack gate bounds "
             "nesting; all ~330 internal call-site x CBOR_ASSERT type/width/flavour preconditions are established on their "
             "paths; no possibly-NULL allocation result is dereferenced.",
        note="Not decided: value-dependent assertions (subitems > 0, codepoint_count <= length, ...), UB-freedom of value "
             "computations (half-float shifts), and behaviour of client code. Loops are generalised from 0/1/2 unrollings by "
             "their recognised uniform shape.",
        design="§4 C01"),
    "C02": dict(
        technique="decoder action table vs RFC reference for all 256 initial bytes; builder wiring / counter / typestate rules over every path of the 24 builder callbacks and _cbor_builder_append; predicate algebra for the break discipline",
        text="Necessary conditions of faithful decoding, each decided for every input: T-dispatch equals the RFC 8949 "
             "reference for all 256 initial bytes; every callback field is wired to a builder that constructs the kind and "
             "width the field denotes with the value unchanged (chunks: an exact copy of the payload); openers push size / "
             "2 x size / 1 / 0; chunks, members and tagged items are attached only where the parent's type and flavour are "
             "established on the path (typestate harvested from the library's own assertions); the default arm releases "
             "and raises the syntax flag; break closes only an open indefinite item at even map parity; no pointer into "
             "the input buffer is kept.",
        note="NOT claimed: acceptance if-and-only-if well-formed (the language of a push-down machine over runtime counters "
             "is not decidable by a structural rule) and 'every definite container completely filled'.",
        design="§4 C02"),
    "C03": dict(
        technique="typestate dispatch agreement (harvested preconditions + predicate algebra) over the serializer's enumerated paths, encoder tables vs RFC reference for all values, framing/member-order path rules, encoder->decoder mirror links",
        text="cbor_serialize's switch is exhaustive and each arm reaches the serializer whose own asserted precondition is that "
             "type; each width arm uses getter and encoder of that width and major type with the value unconverted; the "
             "encoder tables equal the RFC 8949 head encoding for all 2^64 values (offset, shortest form, big-endian, "
             "canonical NaN); every successful path of the composite serializers has the right framing (definite start "
             "with the item's own count / indefinite start ... break / tag head then child) and emits members in storage "
             "order (paths unrolled to two members); every emitted initial byte is decoded by the arm of the same kind "
             "and width consuming exactly the bytes written.",
        note="Round-trip tree equality and byte-identical re-serialization follow by structural induction from these "
             "agreements (an argument, not an executed fact). Half-precision arithmetic is declined under C15.",
        design="§4 C03"),
    "C04": dict(
        technique="contract-vs-implementation path check of every inserting operation and getter, per-type release table (T-release) extracted from cbor_decref's paths against the constructor table, ownership-balance typestate over every library function",
        text="Inductive argument with three machine-checked premises: (A) each API operation has exactly its documented "
             "refcount effect on every path (+1 and one slot on success, nothing on failure; getters +1 on the returned "
             "element; replace drops the displaced one); only incref/decref/move/constructors write the count; (B) "
             "cbor_decref, per type, releases every owned child slot once (loop bounded by the container's own count, "
             "NULL slots skipped only when NULL), frees data exactly where the constructors own it separately, never an "
             "interior pointer, frees the item last and once, and touches nothing afterwards; (C) every library function "
             "is a balanced client on every path. Holds for all histories by induction on A-C.",
        note="The induction itself is an argument in DESIGN.md. Aliasing hazards needing the same item on both sides of a "
             "call are not decided. Loops are analysed for 0 and 1 iterations and generalised by their counted-loop shape.",
        design="§4 C04"),
    "C05": dict(
        technique="path enumeration of cbor_load and of every builder callback: must-define of result fields, extracted cause->code table vs the property's table, position/read bookkeeping, no-silent-drop",
        text="Every path of cbor_load (decode loop unrolled once more) is classified by the facts that led to the error "
             "label (empty input, exhausted remainder, decoder NEDATA / ERROR, creation_failed, syntax_error) and must "
             "return NULL with all three result fields written, the code of the property's table, and position equal to "
             "read; read may only be advanced by a FINISHED result. Every path of all 24 builder callbacks and of "
             "_cbor_builder_append must hand the item off or raise one of the two flags. Reserved bytes consume nothing "
             "(T-dispatch).",
        note="Not decided: 'every proper prefix of an acceptable item gives NOTENOUGHDATA' (quantifies over the accepted "
             "language). 'Nothing left allocated' is decided by C01 rule 4 / C04 / C06.",
        design="§4 C05"),
    "C06": dict(
        technique="path-sensitive nullness and ownership typestate over every path of every library function, with interprocedural may-return-alloc-null / may-deref-unchecked summaries; never-before rule for container atomicity",
        text="Instead of refusing the k-th request per scenario, every allocation site x every path after it is enumerated: "
             "(1) a possibly-NULL allocation result is tested before any dereference, unchecked-dereferencing callee or "
             "being left in a returned structure (210 source x use sites); (2) every owned reference and raw block is "
             "released / handed off / returned exactly once on every path, failure arms included; (3) container operations "
             "perform no store and no incref on a path that returns false; (4) cbor_serialize_alloc and the builders report "
             "through the documented channel. Covers all k for all inputs because it quantifies over paths.",
        note="Paths are acyclic unrollings (each loop 0 and 1 times) - generalised by the loops being uniform counted loops; "
             "feasibility filtering is syntactic only, so an infeasible path can cost a false alarm but not a miss. Distinct "
             "parameters are assumed not to alias.",
        design="§4 C06"),
    "C07": dict(
        technique="path-enumerated guard intervals of every encoder (relational dominance of each buffer store by a buffer_size fact), window-passing typestate in the composite serializers, sibling agreement between cbor_serialized_size and the encoder tables",
        text="(1) For every public encoder path, each store to buffer[i] lies on a path whose facts give buffer_size >= i+1, "
             "the returned constant equals the bytes stored, and 0-returning paths store nothing and exist only for "
             "too-small buffers; (2) every nested call in the 5 composite serializers gets buffer + w / buffer_size - w "
             "for the same running total, zero results are propagated before use, memcpy is guarded by remaining >= "
             "length of the announced length; (3) cbor_serialized_size agrees case by case with the encoder tables "
             "(leaf constants, header-size partition = shortest-form partition, sums only via the signalling add); "
             "(4) serialize_alloc uses one SSA value for malloc, serialize and *buffer_size.",
        note="'serialize returns size(item) when n is large enough and 0 otherwise' follows from (1)-(3) by induction on the "
             "tree (an argument). Byte-exact output is C03/C10.",
        design="§4 C07"),
    "C08": dict(
        technique="exhaustive path enumeration of the loop-free decoder (claim_bytes inlined) + comparison of every path outcome with an RFC 8949 reference action table for all 256 initial bytes",
        text="All paths of cbor_stream_decode are enumerated symbolically-by-construction (terms, no solver) and, for each "
             "of the 256 initial bytes, status / read / required / the single callback with its argument terms / the claim "
             "sequence / every read of the buffer are compared with a reference table written from the RFC. Includes the "
             "wrap obligation on 'required' for decoded 64-bit lengths and the allocates-nothing / stateless effect check. "
             "Holds for every buffer because the decoder has no loops and the comparison is per path, not per input.",
        note="Decides the per-call contract exactly up to the numeric value of loader results (byte order: C10; half "
             "floats: C15). Client callbacks are outside the program.",
        design="§4 C08"),
    "C09": dict(
        technique="per-call contract of the loop-free decoder by exhaustive path enumeration: effect summaries (stateless), data-dependence of source_size, claim-before-read, NEDATA/required rules with wrap obligation",
        text="The library's share of the fragment-delivery property is a per-call contract, decided on all paths for all 256 "
             "initial bytes: the decoder is stateless (no allocation, global or static), the buffer length influences the "
             "outcome only through claim_bytes' comparison and every read lies below the claimed total (so FINISHED on a "
             "buffer = identical FINISHED on any extension of it), and every NEDATA asks for claimed + failing amount "
             "under 'amount > provided - claimed', proved not to wrap - strictly more than buffered, never more than the "
             "pending item.",
        note="Equality of event sequences over all fragmentations follows by induction on cut points from these clauses: "
             "an argument, not machine-checked. The client loop itself is outside the library.",
        design="§4 C09"),
    "C10": dict(
        technique="table extraction by path enumeration of every public encoder (interval partition of the value domain, stored-byte terms) and of the integer loaders, compared with the RFC 8949 head reference and with T-dispatch",
        text="For every public cbor_encode_* all paths are enumerated with the primitives inlined; each path gives a value "
             "interval, the buffer_size guard and the stored bytes as terms. These are compared, for all 2^64 values at "
             "once, with the RFC head encoding (offset, additional info, big-endian byte map, shortest-form classes, "
             "canonical NaN), and each emitted initial byte is linked to the decoder arm that must invert it (same width, "
             "mirror-image loader byte map, matching callback kind, consumed = written).",
        note="Exact for integer heads; for floats only the framing, NaN constants and the single/double bit-identity are "
             "decided (half-precision arithmetic is declined under C15). If an encoder or loader is rewritten as a loop "
             "or memcpy+bswap the extractor reports analysis-broken rather than pass.",
        design="§4 C10"),
    "C14": dict(
        technique="claim-before-read and source_size data-dependence on all decoder paths; window / loop-continuation / read-accumulation rules over cbor_load's paths unrolled to three decoder calls",
        text="No look-ahead: every byte the decoder reads lies below the read count it reports and the buffer length only "
             "feeds claim comparisons; cbor_load passes source + r / size - r for the same r = result->read, continues "
             "on the decoding stack's size alone, returns the root immediately when it empties, and read accumulates "
             "exactly the FINISHED results. Hence decoding x followed by y performs the identical decoder calls with "
             "identical outcomes as decoding x alone.",
        note="The n-item split of a concatenation follows by induction (argument).",
        design="§4 C14"),
    "C15": dict(
        technique="SSA/memory trace of the float bit pattern through encoder and loader (reinterpretation only), instruction-set scan of every float-moving function, NaN constants and width wiring from the extracted tables",
        text="Deliberately narrow. Decided: single and double are bit-identity paths (the integer handed to the big-endian "
             "primitive is the reinterpretation of the parameter, the loaders return the reinterpretation of the big-endian "
             "integer; with C10's byte maps: bit-exact round trip of every non-NaN single/double pattern); no function "
             "between decoder, item and encoder converts or computes on the value; NaN -> canonical quiet NaN of the width; "
             "0xF9/FA/FB <-> float2/4/8 wiring; the half encoder is loop-free, total and framed correctly.",
        note="NOT decided (honest decline): the numeric formulas of _cbor_decode_half / cbor_encode_half (scaling constants, rounding, "
             "subnormals, shift ranges); the decoder's CLASS dispatch (infinity/NaN vs scaled, sign) is decided for all 65536 patterns. These are facts about arithmetic on runtime values; no sound "
             "static argument in reach bounds them (goto-analyzer: UNKNOWN / internal abort).",
        design="§4 C15"),
    "C16": dict(
        technique="DFA extraction from the constant table + exhaustive product construction against an RFC 3629 reference automaton (language equivalence); path enumeration of the counting loop and of the attachment",
        text="The step function's terms are extracted from _cbor_unicode_decode's IR and tabulated over (state, byte) using "
             "the utf8d initialiser; the product with a reference DFA written from the RFC 3629 ABNF is explored "
             "exhaustively: REJECT iff reference dead, ACCEPT iff scalar boundary - language equivalence over all byte "
             "strings of all lengths (overlongs, surrogates, > U+10FFFF, truncation are edges of the product). Table "
             "indices are proved in range; every path of the counting loop (0-3 iterations) and of "
             "cbor_string_set_handle is checked for 'count = number of ACCEPT results, 0 and non-OK on error, data and "
             "length stored unchanged'.",
        note="Decided essentially as a whole. Loop paths are enumerated up to 3 iterations and generalised by the loop's "
             "uniform shape (counted loop; C01 rule 5 checks the shape).",
        design="§4 C16"),
    "C19": dict(
        technique="path-enumerated interval partition of the stack gate under several generated configurations, field who-may-write, must-pass-through over opener callbacks, SCC structural-descent analysis",
        text="The refusal set of _cbor_stack_push (as facts on stack->size along its enumerated paths) must contain L and "
             "nothing below L, for the default L and for re-generated configurations (quick: 2048 and 3; thorough: "
             "1,2,3,8,64,2048) so a hard-coded constant is caught; size is written only by the stack module; each of the 7 "
             "opener callbacks wired in cbor_load pushes its item on every successful path and on a failed push releases "
             "it and raises creation_failed; every recursive SCC descends one tree level per cycle (or pops a frame), "
             "with no variable-size frames.",
        note="Does not decide that a depth-L input is accepted (language clause). Native stack use is bounded by argument "
             "from the descent rule (depth of recursion <= tree depth <= L), frame sizes being static.",
        design="§4 C19"),
    "C11": dict(
        technique="provenance analysis (source-derived values) and ownership typestate over every path of cbor_copy and its helpers; per-type shape rules against the harvested getters/constructors",
        text="On every path of cbor_copy, _cbor_copy_int and _cbor_copy_float_ctrl: no value derived from the source is "
             "inserted, attached, stored into heap memory or returned - only fresh copies are; callees receiving a source "
             "pointer neither capture nor return it; references taken on source children are given back and every child "
             "copy is released after insertion (so the result holds exactly one reference per node and source counts are "
             "restored); each type arm rebuilds the same type / flavour / width from the source's own count, with members "
             "copied in storage order; the switch is exhaustive.",
        note="Byte-equality of the two serializations follows from shape + C03 by induction (argument). Failure arms: C06.",
        design="§4 C11"),
    "C12": dict(
        technique="guarded-access and capacity typestate on every path of the container operations; classification of the new-capacity expression at the four growth sites under generated CBOR_BUFFER_GROWTH values",
        text="Structural necessary conditions, decided on all paths: indexed get/set/replace touch data[index] only where "
             "the path facts give index < size and the out-of-range path is a clean refusal; insertion writes slot [count] "
             "and stores count+1, only where count < capacity is known or after a successful reallocation whose element "
             "count becomes the capacity; the new capacity is 1 from 0, else GROWTH x old (guarded, same value reallocated "
             "and stored, never additive) at all four sites, tracking the configured growth factor (thorough: 2, 3, 4).",
        note="Equivalence with an abstract list over all histories and the amortised reallocation count are runtime/history "
             "properties and are not claimed; the invariant count <= capacity is inductive over these rules (argument).",
        design="§4 C12"),
    "C20": dict(
        technique="complete arithmetic audit: every 64-bit add/sub/mul/shl instruction of the library classified by an enumerated no-wrap idiom (IR dominance + path facts), with a taint refinement for decoded lengths; allocation-size provenance",
        text="Every one of the library's 64-bit add/sub/mul/shl instructions must match one enumerated idiom on every path on "
             "which it executes (guard call, subtractive guard, post-check/saturation, small constant under a successful "
             "allocation, counted induction, slot post-increment, window arithmetic, byte assembly, non-size counter, guard "
             "helper internals); operands carrying a decoded 32/64-bit length may only use the first five. A new unguarded "
             "n*size, len+hdr or cap+1 anywhere is reported, not only at known sites. Serialized size accumulates only "
             "through the signalling add; allocator requests are constants, untruncated lengths or guarded products.",
        note="NOT decided: the correctness of _cbor_safe_to_multiply / _cbor_safe_to_add themselves for all 2^128 operand "
             "pairs (an arithmetic theorem: SMT or hand proof, a different technique family). LP64 only: the 32-bit "
             "narrowing that CHECK_LENGTH guards does not exist on the analysed platform.",
        design="§4 C20"),
    "C13": dict(
        technique="whole-library who-may-call + effect summaries (allocator call graph), block-provenance rule against the extracted constructor table",
        text="Decided as a whole by static who-may-call/effect analysis over all 20 units: external-symbol inventory "
             "(no libc allocation function is referenced except as the three default initialisers), single writer of the "
             "allocator pointers, provenance of every block passed to free/realloc (allocator result, owning field, never "
             "an interior pointer: per-type table extracted from the constructors), and transitive allocates/frees = false "
             "for the decoder/encoder/serializer/size surface. Covers every input, history and allocator configuration "
             "because it quantifies over call sites, not runs.",
        note="Trusted: clang-14 front end, -O0+mem2reg IR, the enumerated libc classification table. Double free / "
             "use-after-free are decided under C04, not here. Client callbacks are outside the program.",
        design="§4 C13"),
    "C17": dict(
        technique="inventory of static-storage objects + interprocedural mod-set (writes_global) analysis + reentrant-libc allow-list",
        text="Every object of static storage duration in the library is IR-constant, never written by any function "
             "(deep provenance mod-set), or an allocator pointer written only by cbor_set_allocs; no library function "
             "stores through a global-rooted pointer; external callees are reentrant. With thread-private items those "
             "are the only shareable locations, so the absence of races holds for every schedule.",
        note="Assumes the release configuration and 'allocator configured before threads start' (the property's own "
             "proviso). Same-results-as-alone follows by argument, not separately checked.",
        design="§4 C17"),
    "C18": dict(
        technique="deep interprocedural effect analysis: writes_through(f, const item param) over transitive callees",
        text="For every exported function with a const cbor_item_t* parameter (qualifier read from debug info), no store "
             "in it or any transitive callee targets memory derived from that parameter - including transient "
             "increment/decrement pairs that no before/after comparison can see. Decided for all items and schedules.",
        note="Flow-insensitive over-approximation of writes (sound for never-writes). cbor_array_get / cbor_tag_item are "
             "documented reference-returning exceptions, restricted to their single cbor_incref.",
        design="§4 C18"),
}

PENDING_REASON = "not claimed yet: static check under construction (DESIGN.md §4); no other technique is substituted"

ALL = ["C%02d" % i for i in range(1, 21)]


def main():
    props = {}
    for line in open(os.path.join(VERIF, "properties.jsonl")):
        p = json.loads(line)
        props[p["id"]] = p
    checks = []
    for pid in ALL:
        if pid not in CLAIMED:
            continue
        c = CLAIMED[pid]
        checks.append(dict(
            property_id=pid,
            quick_cmd="python3 bin/check.py %s --tier quick" % pid,
            thorough_cmd="python3 bin/check.py %s --tier thorough" % pid,
            evidence_file="evidence/%s.json" % pid,
            replay_cmd_template="python3 bin/check.py --replay {path}",
            engine="static-ir",
            level_claimed=dict(category="other", text=c["text"], design_ref=c["design"]),
            level_note=c["note"],
            technique=c["technique"],
        ))
    na = [dict(property_id=pid, reason=NOT_APPLICABLE.get(pid, PENDING_REASON)) for pid in ALL if pid not in CLAIMED]
    man = dict(
        version=1,
        setup_cmd="python3 bin/setup.py",
        hooks=dict(guard="PJK_LIBCBOR_VERIF",
                   enable="none needed: static analysis reads the sources as they are (no hook commits)",
                   baseline_off_cmd="cmake --build /repo/_build && ctest --test-dir /repo/_build -j8 --timeout 900",
                   source_commits=[], add_only=True),
        engines=[dict(name="static-ir", path="bin/check.py", serves_properties=sorted(CLAIMED),
                      kind_free_text="custom static analysis: clang-14 -> LLVM IR (+debug info) -> tools/irfacts.cc JSON "
                                     "facts -> Python rule engines (call graph/effects, path typestate, table extraction, "
                                     "arithmetic audit, discriminated-union typestate, window dataflow over (pointer, length) pairs)")],
        checks=checks,
        not_applicable=na,
        notes="Technique family: static analysis only. Exit 0 = all obligations discharged; 1 = VIOLATION lines; "
              "2 = analysis broken (anchor vanished / shape not recognised) - never a pass. Genuine defects repaired in "
              "/repo by 'fix:' commits are listed in known_findings.json. Every check decides its rules twice per run: for the "
              "default build configuration and for {CBOR_BUFFER_GROWTH=3, CBOR_MAX_STACK_SIZE=5, CBOR_PRETTY_PRINTER=0, -funsigned-char} (thorough: two "
              "more), so that code the default build does not compile or that is right for the default constants only is judged too. "
              "Rules shared between properties (capacity-field, narrowing, no-access-after-free, record-items, insertion refusals, "
              "guard semantics, ...) are listed per property in DESIGN.md 10.8. tools/regress.py re-runs all %d behaviour-preserving "
              "patches (must stay silent) and all %d independently seeded property-breaking patches (owning check must fire; one, a "
              "UTF-8 validator of a different construction, is answered analysis-broken by design)." % (
                  len(os.listdir(os.path.join(VERIF, "benign"))), len(os.listdir(os.path.join(VERIF, "seeded")))),
    )
    json.dump(man, open(os.path.join(VERIF, "MANIFEST.json"), "w"), indent=1)
    print("MANIFEST.json: %d checks, %d not_applicable" % (len(checks), len(na)))


NOT_APPLICABLE = {}


if __name__ == "__main__":
    main()
