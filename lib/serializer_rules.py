"""Totality of the serializers: a 0 is returned only because the buffer is too small.

Every function of the serialization unit with the (buffer, buffer_size) calling convention - exported serializers and
whatever unit-internal helpers they are split into - signals failure by returning 0.  The rule is co-inductive over that
set F:  on every path of f in F
   * a constant 0 is returned only when (i) a nested call of a failure-signalling function (a public encoder, whose
     "0 iff the buffer is too small" is C07.guard, or a member of F) is known to have returned 0 on this path, or
     (ii) a comparison involving buffer_size was decided on the path, or (iii) the path is outside the item domain
     (type/width outside the enumeration);
   * a non-constant result is either the unmodified result of one failure-signalling call (tail call) or a sum with
     at least one summand known to be positive.
Hence, by induction on the tree, with a large enough buffer no serializer returns 0 - for every tree, including the
ones no test builds (empty chunk lists, empty containers)."""
import paths as P
import decoder_rules as DR
import ownership as O


def _leaves(t):
    if isinstance(t, tuple) and t[0] == "op" and t[1] == "add":
        return _leaves(t[3]) + _leaves(t[4])
    if isinstance(t, tuple) and t[0] == "op" and t[1] == "sub":
        # a total kept as a pointer difference (cursor - buffer): the summands are what remains after the bases cancel
        lin = P.linear(t)
        if lin and all(c == 1 for c in lin.values()):
            return [("c", k) if a == 1 else a for a, k in ((a, c) for a, c in lin.items())] if 1 not in lin else [t]
    return [t]


LENGTH_GETTERS = ("cbor_bytestring_length", "cbor_string_length", "cbor_array_size", "cbor_map_size", "cbor_bytestring_chunk_count",
                  "cbor_string_chunk_count")


def _atoms(t):
    """the run-time quantities a comparison is made of (through arithmetic and casts)"""
    if not isinstance(t, tuple):
        return []
    if t[0] in ("icmp",):
        return _atoms(t[2]) + _atoms(t[3])
    if t[0] == "op":
        return _atoms(t[3]) + _atoms(t[4])
    if t[0] == "cast":
        return _atoms(t[3])
    if t[0] == "not":
        return _atoms(t[1])
    return [t]


def _mentions(t, x):
    if t == x:
        return True
    if isinstance(t, tuple):
        return any(_mentions(u, x) for u in t if isinstance(u, tuple))
    return False


def _positive(st, r):
    return st.lo.get(r, 0) >= 1 or 0 in st.nec.get(r, ()) or st.truth.get(("icmp", "eq", r, ("c", 0))) is False or st.truth.get(r) is True


def _zero(st, r):
    return st.truth.get(("icmp", "eq", r, ("c", 0))) is True or st.hi.get(r, 1) == 0 or r == ("c", 0)


def size_core(prog, eff, cache, name="cbor_serialized_size"):
    """The routine that holds the sizing cases: cbor_serialized_size itself, or - when that is a wrapper whose every
    path returns the unmodified result of one call of a recursive unit-internal routine on its item - that routine
    (the item must stay its first parameter).  Returns (function, set of names a recursive sizing call may use)."""
    f = prog.fn(name)
    tgt = set()
    for pa in cache.get(f.name, inline_static=True):
        r = pa.ret
        ev = [e for e in pa.events if e.kind == "call" and e.res == r] if isinstance(r, tuple) and r[0] == "call" else []
        if not (ev and ev[0].callee in prog.funcs and prog.funcs[ev[0].callee].internal and ev[0].args and ev[0].args[0] == ("arg", 0)
                and ev[0].callee in eff.transitive_callees(ev[0].callee)):
            return f, {name}
        tgt.add(ev[0].callee)
    if len(tgt) == 1:
        g = prog.funcs[tgt.pop()]
        return g, {name, g.name}
    return f, {name}


def subjects(prog):
    """the serializers: functions of the serializer's unit that take (buffer, buffer_size) and return a byte count.  A unit-internal
    helper that only serves them (a shared body of two siblings, taking a table of accessors) is judged where it is inlined."""
    unit = prog.fn("cbor_serialize").unit
    out = []
    for f in prog.lib_funcs():
        if f.unit != unit or f.ret_type != "i64":
            continue
        names = {p["name"]: p["type"] for p in f.params}
        if names.get("buffer") == "i8*" and names.get("buffer_size") == "i64":
            out.append(f)
    cand = {f.name for f in out}
    keep = []
    for f in out:
        if f.internal and f.name not in _self_recursive(prog, f):
            callers = {g.name for g in prog.lib_funcs() if any(c.callee == f.name for c in g.calls())}
            if callers and callers <= (cand - {f.name}):
                continue
        keep.append(f)
    return keep


def _self_recursive(prog, f):
    return {f.name} if any(c.callee == f.name for c in f.calls()) else set()


def zero_only_on_short_buffer(chk, rule, prog, eff, CS, encoders):
    F = subjects(prog)
    failsig = set(encoders) | {f.name for f in F}
    n = 0
    for f in F:
        where = "%s:%d" % (f.file, f.line)
        SIZE = ("arg", f.param_index("buffer_size"))
        item = ("arg", 0) if f.params and f.params[0]["type"].endswith("cbor_item_t*") else None
        for k, pa in enumerate(P.Executor(prog, eff, loop_bound=2, inline=O.static_callees(prog, eff, f.name)).run(f.name)):
            st = pa.st
            calls = [e for e in pa.events if e.kind == "call" and e.ckind == "lib" and e.callee in failsig]
            r = pa.ret
            n += 1
            # "the running total came out as 0" asked of a sum with a positive byte count in it: the total stays within the window
            # (C07.window), so the sum did not wrap and the path does not exist
            if any(t[0] == "icmp" and t[1] in ("eq", "ne") and t[3] == ("c", 0) and truth == (t[1] == "eq") and isinstance(t[2], tuple) and
                   t[2][0] == "op" and t[2][1] == "add" and any(_positive(st, x) or (P.is_const(x) and x[1] > 0) for x in t[2][3:5])
                   for t, truth, _ in pa.facts):
                continue
            if _zero(st, r) and not (r[0] == "call" and any(e.res == r for e in calls)):
                why = None
                if any(_zero(st, e.res) for e in calls):
                    why = "a nested failure-signalling call returned 0"
                elif any(t[0] == "icmp" and _mentions(t, SIZE) for t, _truth, _ in pa.facts):
                    why = "a comparison against buffer_size was decided"
                    # ... with what this call writes: constants, what nested encoders / serializers returned, and the payload length
                    # read from the item now (accessor or field).  A quantity kept elsewhere (a cached total in a side structure) is
                    # not what will be written if it has gone stale - a refusal decided by it alone is not "too small"
                    for t, _truth, _ in pa.facts:
                        if not (t[0] == "icmp" and _mentions(t, SIZE)):
                            continue
                        for x in _atoms(t):
                            if x == SIZE or P.is_const(x):
                                continue
                            if isinstance(x, tuple) and x[0] == "call" and (x[1] in failsig or x[1] in LENGTH_GETTERS):
                                continue
                            if isinstance(x, tuple) and x[0] == "ld" and item is not None and x[1] == item:
                                continue        # a field of the item itself
                            if isinstance(x, tuple) and x[0] == "arg":
                                continue
                            why = None
                            bad_atom = x
                    if why is None:
                        chk.ob(rule, "%s path %d: returns 0 only because the buffer is too small" % (f.name, k), False, where, fn=f.name,
                               key="%s:zero:%d" % (f.name, k), nontrivial=True,
                               detail="refuses by comparing buffer_size with %s - neither a result of a nested encoder nor the payload length read "
                                      "from the item: a remembered total that no longer matches the item refuses buffers that are large enough"
                                      % DR.fmt_term(bad_atom), path=pa.block_lines())
                        continue
                elif item is not None and not CS.summary(f, pa, item)[0]:
                    why = "outside the item domain"
                chk.ob(rule, "%s path %d: returns 0 only because the buffer is too small" % (f.name, k), why is not None, where, fn=f.name,
                       key="%s:zero:%d" % (f.name, k), nontrivial=True,
                       detail=why or "returns 0 although no nested encoder/serializer failed and the buffer size was not consulted: "
                                     "the item (e.g. an empty chunk list / container) cannot be serialized at any buffer size",
                       path=pa.block_lines() if why is None else None)
            else:
                tail = r[0] == "call" and any(e.res == r for e in calls)
                pos = any(_positive(st, x) or (P.is_const(x) and x[1] > 0) for x in _leaves(r))
                ok = tail or pos
                chk.ob(rule, "%s path %d: a successful result is positive" % (f.name, k), ok, where, fn=f.name, key="%s:pos:%d" % (f.name, k),
                       detail="" if ok else "returns %s, which may be 0 without any failure" % DR.fmt_term(r), path=pa.block_lines() if not ok else None)
    return n
