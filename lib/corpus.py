"""Thorough tier: run the owning check against every scripted edit of mutants/corpus.py that
names it, on a scratch copy of /repo (VERIF_REPO), never on /repo itself."""
import concurrent.futures
import importlib.util
import os
import shutil
import subprocess
import sys
import tempfile

from build import VERIF, REPO, scratch


def load_corpus():
    spec = importlib.util.spec_from_file_location("corpus_data", os.path.join(VERIF, "mutants", "corpus.py"))
    mod = importlib.util.module_from_spec(spec)
    spec.loader.exec_module(mod)
    return mod.M


def _run_one(args):
    pid, m, base = args
    src_path = os.path.join(REPO, m["file"])
    try:
        text = open(src_path).read()
    except OSError:
        return (m, "skipped", "file missing")
    if text.count(m["old"]) < 1:
        return (m, "skipped", "anchor text not present in the current tree")
    d = tempfile.mkdtemp(prefix="mut-", dir=base)
    try:
        shutil.copytree(os.path.join(REPO, "src"), os.path.join(d, "src"))
        shutil.copy(os.path.join(REPO, "CMakeLists.txt"), os.path.join(d, "CMakeLists.txt"))
        open(os.path.join(d, m["file"]), "w").write(text.replace(m["old"], m["new"], 1))
        # the edit must still be valid C
        env = dict(os.environ, VERIF_REPO=d, VERIF_SELFTEST="1", VERIF_TIER="quick")
        r = subprocess.run([sys.executable, os.path.join(VERIF, "bin", "check.py"), pid, "--tier", "quick"], capture_output=True, text=True, env=env)
        rules = sorted({l.split("rule=")[1].strip() for l in r.stdout.splitlines() if l.startswith("SELFTEST-VIOLATION")})
        first = next((l for l in r.stdout.splitlines() if ": rule " in l), "")
        return (m, r.returncode, dict(rules=rules, first=first[:300], tail=r.stdout[-300:] if r.returncode == 2 else ""))
    finally:
        shutil.rmtree(d, ignore_errors=True)


def library_part(patch_path, out_dir):
    """a copy of the patch restricted to the files the checks read (src/..., the top-level CMakeLists.txt): a refactoring may also touch
    docs, examples or tests, which the scratch copy does not contain"""
    import os, re
    txt = open(patch_path, errors="replace").read()
    parts = re.split(r"(?m)^(?=diff --git )", txt)
    keep = [p for p in parts if not p.startswith("diff --git ") or re.match(r"diff --git a/(src/|CMakeLists\.txt)", p)]
    if len(keep) == len(parts):
        return patch_path
    out = os.path.join(out_dir, "library-part.diff")
    open(out, "w").write("".join(keep))
    return out


def _run_patch(args):
    pid, name, patch, base = args
    d = tempfile.mkdtemp(prefix="ben-", dir=base)
    try:
        shutil.copytree(os.path.join(REPO, "src"), os.path.join(d, "src"))
        shutil.copy(os.path.join(REPO, "CMakeLists.txt"), os.path.join(d, "CMakeLists.txt"))
        patch = library_part(patch, d)
        a = subprocess.run(["git", "apply", "--unsafe-paths", "--directory=" + d, patch], capture_output=True, text=True, cwd="/")
        if a.returncode != 0:
            a = subprocess.run(["patch", "-p1", "-s", "-d", d, "-i", patch], capture_output=True, text=True)
            if a.returncode != 0:
                return (name, "skipped", "patch does not apply to the current tree")
        env = dict(os.environ, VERIF_REPO=d, VERIF_SELFTEST="1", VERIF_TIER="quick")
        r = subprocess.run([sys.executable, os.path.join(VERIF, "bin", "check.py"), pid, "--tier", "quick"], capture_output=True, text=True, env=env)
        first = next((l for l in r.stdout.splitlines() if ": rule " in l or l.startswith("ANALYSIS-BROKEN")), "")
        return (name, r.returncode, first[:300])
    finally:
        shutil.rmtree(d, ignore_errors=True)


def run_for(chk, pid):
    """adds one obligation per applicable corpus entry to chk"""
    corpus = load_corpus()
    base = scratch()
    jobs = [(pid, m, base) for m in corpus if pid in m["fires"]]
    chk.rule(pid + ".selftest-mutant", "thorough tier: a scripted single-site edit that breaks the property (applied to a scratch "
                                       "copy, never to /repo) makes this check report a violation of the expected rule")
    chk.rule(pid + ".selftest-benign", "thorough tier: a scripted behaviour-preserving edit leaves this check silent")
    results = []
    with concurrent.futures.ThreadPoolExecutor(max_workers=8) as ex:
        for m, rc, info in ex.map(_run_one, jobs):
            if rc == "skipped":
                results.append(dict(id=m["id"], verdict="skipped", why=info))
                continue
            if m["kind"] == "mutant":
                want = m["rule"] if isinstance(m["rule"], str) else m["rule"].get(pid)
                ok = rc == 1 and (want is None or any(want in r for r in info["rules"]))
                chk.ob(pid + ".selftest-mutant", "edit %s (%s)" % (m["id"], m["file"]), ok, m["file"], key="mut:" + m["id"],
                       detail="" if ok else "expected a violation of *%s*, got exit %s rules %s %s" % (want, rc, info["rules"], info["tail"]))
                results.append(dict(id=m["id"], verdict="caught" if ok else "MISSED", exit=rc, rules=info["rules"], first_report=info["first"],
                                    survives_pinned_tests=m["tests"]))
            else:
                ok = rc == 0
                chk.ob(pid + ".selftest-benign", "edit %s (%s)" % (m["id"], m["file"]), ok, m["file"], key="benign:" + m["id"],
                       detail="" if ok else "behaviour-preserving edit raised an alarm: exit %s %s %s" % (rc, info["rules"], info["first"]))
                results.append(dict(id=m["id"], verdict="silent" if ok else "FALSE-ALARM", exit=rc, rules=info["rules"]))
    # behaviour-preserving refactorings written by independent sub-agents (benign/<id>/patch.diff)
    bdir = os.path.join(VERIF, "benign")
    if os.path.isdir(bdir):
        chk.rule(pid + ".selftest-refactoring", "thorough tier: an independently written behaviour-preserving refactoring leaves this check silent")
        jobs = [(pid, n, os.path.join(bdir, n, "patch.diff"), base) for n in sorted(os.listdir(bdir)) if os.path.exists(os.path.join(bdir, n, "patch.diff"))]
        with concurrent.futures.ThreadPoolExecutor(max_workers=8) as ex:
            for name, rc, info in ex.map(_run_patch, jobs):
                if rc == "skipped":
                    results.append(dict(id="refactoring:" + name, verdict="skipped", why=info))
                    continue
                ok = rc == 0
                chk.ob(pid + ".selftest-refactoring", "refactoring %s" % name, ok, "benign/%s/patch.diff" % name, key="refactoring:" + name,
                       detail="" if ok else "alarm on a behaviour-preserving refactoring: exit %s %s" % (rc, info))
                results.append(dict(id="refactoring:" + name, verdict="silent" if ok else "FALSE-ALARM", exit=rc))
    # property-breaking changes written by independent sub-agents (seeded/<id>/patch.diff, confirmed by hand: still
    # compile, pass the pinned suite, fail their demonstration): the owning check must report each of them
    sdir = os.path.join(VERIF, "seeded")
    if os.path.isdir(sdir):
        import json
        chk.rule(pid + ".selftest-seeded", "thorough tier: an independently written change that breaks this property while passing the "
                                           "pinned test suite makes this check report a violation")
        jobs = []
        expected = {}       # seeds the owning check answers "cannot decide" by design (recorded in their meta.json, with the reason)
        for n in sorted(os.listdir(sdir)):
            mp, pp = os.path.join(sdir, n, "meta.json"), os.path.join(sdir, n, "patch.diff")
            if os.path.exists(mp) and os.path.exists(pp) and json.load(open(mp)).get("property") == pid:
                jobs.append((pid, n, pp, base))
                if json.load(open(mp)).get("expected_exit") is not None:
                    expected[n] = json.load(open(mp))["expected_exit"]
        with concurrent.futures.ThreadPoolExecutor(max_workers=8) as ex:
            for name, rc, info in ex.map(_run_patch, jobs):
                if rc == "skipped":
                    results.append(dict(id="seeded:" + name, verdict="skipped", why=info))
                    continue
                ok = rc == expected.get(name, 1)
                chk.ob(pid + ".selftest-seeded", "seeded change %s%s" % (name, " (answered analysis-broken by design)" if name in expected else ""), ok, "seeded/%s/patch.diff" % name, key="seeded:" + name,
                       detail=("reported: " + info) if ok else "expected a violation, got exit %s %s" % (rc, info))
                results.append(dict(id="seeded:" + name, verdict="caught" if ok else "MISSED", exit=rc, first_report=info))
    chk.extra["corpus"] = results
    return results
