"""Rules over T-dispatch shared by C01, C02, C05, C08, C09, C10, C14."""
from build import AnalysisBroken
import tables
import paths as P

SIZE_MAX = (1 << 64) - 1


def status_names(prog):
    e = prog.enum("cbor_decoder_status")
    return {v: k for k, v in e.items()}, e


def fmt_term(t, depth=0):
    if not isinstance(t, tuple):
        return str(t)
    if t[0] == "c":
        return hex(t[1]) if t[1] > 255 else str(t[1])
    if t[0] == "arg":
        return "arg%d" % t[1]
    if t[0] == "call":
        return "%s()" % t[1]
    if t[0] == "p":
        return "%s+%d" % (fmt_term(t[1]), t[2])
    if t[0] == "op":
        return "(%s %s %s)" % (fmt_term(t[3]), t[1], fmt_term(t[4]))
    if t[0] == "cast":
        return fmt_term(t[3])
    if t[0] == "ld":
        return "*(%s+%d)" % (fmt_term(t[1]), t[2])
    if depth > 3:
        return "..."
    return "%s(%s)" % (t[0], ",".join(fmt_term(x, depth + 1) for x in t[1:]))


def strip_int_casts(t):
    while isinstance(t, tuple) and t[0] == "cast" and t[1] in ("zext", "sext", "trunc"):
        t = t[3]
    return t


def is_sum(t, c, x):
    """t is (x + c) in either operand order"""
    if c == 0:
        return t == x
    if P.is_const(t) and P.is_const(x):
        return t[1] == (x[1] + c) % (1 << 64)       # both already folded for this initial byte
    return isinstance(t, tuple) and t[0] == "op" and t[1] == "add" and {t[3], t[4]} == {("c", c), x} and t[3] != t[4]


def eval_for_byte(o, term, b, loader_ext):
    """value of a callback-argument term when the initial byte is b: the dispatch load and any 1-byte loader applied to
    source+0 both denote b.  None if the term depends on anything else."""
    import termeval
    env = {}
    for r in o["reads"]:
        if r["off"] == 0 and r["width"] == 1:
            ev = r["ev"]
            if ev.kind == "load":
                env[ev.res] = b
            elif ev.kind == "call" and loader_ext(ev.callee) == 1:
                env[ev.res] = b

    def sub(t):
        if t in env:
            return ("c", env[t])
        if isinstance(t, tuple) and t and t[0] == "cast" and t[1] == "sext":
            inner = sub(t[3])
            if inner[0] == "c":
                bits = 32
                v = inner[1]
                if v >> (bits - 1):
                    v = (v - (1 << bits)) & ((1 << 64) - 1)
                return ("c", v)
            return t[:3] + (inner,)
        if isinstance(t, tuple):
            return tuple(sub(x) if isinstance(x, tuple) else x for x in t)
        return t
    try:
        return termeval.evaluate(sub(term), {}, {})
    except Exception:
        return None


def check_byte(prog, b, ref, o, enumv, loader_ext):
    """compare one path outcome for initial byte b with the reference; returns list of (rule, ok, detail)"""
    res = []
    FIN, NED, ERR = enumv["CBOR_DECODER_FINISHED"], enumv["CBOR_DECODER_NEDATA"], enumv["CBOR_DECODER_ERROR"]
    st = o["status"]
    if not P.is_const(st):
        return [("status", False, "status is not a constant on this path: %s" % fmt_term(st))]
    st = st[1]
    claims = o["claims"]
    if not claims or claims[0]["amount"] != ("c", 1) or not claims[0]["ok"]:
        res.append(("claim", False, "path reaches the dispatch without a successful claim of the initial byte"))
    if st == ERR:
        if ref != ("error",):
            res.append(("action", False, "byte 0x%02X must decode as %s but the decoder reports ERROR" % (b, ref["field"])))
            return res
        ok = not o["callbacks"] and o["read"] == ("c", 0) and o["required"] == ("c", 0)
        res.append(("error-arm", ok, "" if ok else "ERROR result is not a fresh zeroed result: read=%s required=%s callbacks=%d"
                    % (fmt_term(o["read"]), fmt_term(o["required"]), len(o["callbacks"]))))
        if len(claims) != 1:
            res.append(("error-arm", False, "ERROR arm claims bytes beyond the initial byte"))
        return res
    if ref == ("error",):
        res.append(("action", False, "reserved/unsupported byte 0x%02X must be rejected with ERROR, but the decoder %s"
                    % (b, ("invokes callback %s" % o["callbacks"][0]["field"]) if o["callbacks"] else "returns status %d" % st)))
        return res
    N = ref["argbytes"]
    payload = ref.get("payload", False)
    # expected claim sequence
    exp_amounts = [1] + ([N] if N else []) + (["len"] if payload else [])
    if st == FIN:
        cbs = o["callbacks"]
        if len(cbs) != 1:
            res.append(("action", False, "FINISHED with %d callbacks (must be exactly one)" % len(cbs)))
            return res
        cb = cbs[0]
        if cb["field"] != ref["field"]:
            res.append(("action", False, "byte 0x%02X invokes callback '%s', RFC 8949 head is '%s'" % (b, cb["field"], ref["field"])))
            return res
        if not cb["ctx_ok"]:
            res.append(("action", False, "callback does not receive the caller's context pointer"))
        if not all(c["ok"] for c in claims):
            res.append(("claim", False, "FINISHED although a claim failed"))
        if len(claims) != len(exp_amounts):
            res.append(("claim", False, "claims %s, expected %s" % ([fmt_term(c["amount"]) for c in claims], exp_amounts)))
            return res
        desc = cb["desc"]
        length_term = None
        argdesc = desc
        if payload:
            if len(desc) != 2 or desc[0][0] != "ptr":
                res.append(("action", False, "string callback arguments are not (pointer, length)"))
                return res
            want_off = 1 + N
            okp = desc[0][1] == ("arg", o["src_i"]) and desc[0][2] == want_off
            res.append(("payload", okp, "" if okp else "payload pointer is source+%s, must be source+%d (just past the head)"
                        % (desc[0][2], want_off)))
            length_term = cb["args"][2]
            oklen = claims[-1]["amount"] == length_term
            res.append(("payload", oklen, "" if oklen else "length passed to the callback (%s) is not the value that was claimed (%s)"
                        % (fmt_term(length_term), fmt_term(claims[-1]["amount"]))))
            argdesc = [desc[1]]
        # the head argument
        if ref.get("noarg"):
            ok = len(argdesc) == 0
            res.append(("action", ok, "" if ok else "callback %s takes no value but receives %d" % (ref["field"], len(argdesc))))
        elif "const" in ref:
            ok = len(argdesc) == 1 and argdesc[0] == ("const", ref["const"])
            if not ok and len(cb["args"]) == 2:
                v = eval_for_byte(o, cb["args"][1], b, loader_ext)
                ok = v is not None and (v != 0) == bool(ref["const"])
            res.append(("action", ok, "" if ok else "boolean callback receives %s, expected constant %d" % (argdesc, ref["const"])))
        elif ref.get("imm"):
            d = argdesc[0] if argdesc else None
            bias = ref["bias"]
            ok = d is not None and ((d[0] == "loader-bias" and d[3] == bias) or (d[0] == "loader" and bias == 0))
            if ok:
                ev_off = _loader_offset(o, d[2])
                ok = loader_ext(d[1]) == 1 and ev_off == 0
            if not ok:
                # any other spelling (mask, subtraction from the dispatch byte, ...): decide on the value it yields for this byte
                argterm = cb["args"][2] if payload else (cb["args"][1] if len(cb["args"]) > 1 else None)
                v = eval_for_byte(o, argterm, b, loader_ext) if argterm is not None else None
                ok = v is not None and v == (b & 31)
            res.append(("action", bool(ok), "" if ok else "immediate value for 0x%02X must be (initial byte - 0x%02X); got %s"
                        % (b, bias, _fmt_desc(d))))
        else:
            d = argdesc[0] if argdesc else None
            ok = d is not None and d[0] == "loader"
            if ok:
                w = loader_ext(d[1])
                ev_off = _loader_offset(o, d[2])
                ok = (w == N and ev_off == 1)
                if not ok:
                    res.append(("action", False, "argument of 0x%02X must be the %d bytes at source+1; loader %s reads %d bytes at source+%s"
                                % (b, N, d[1], w, ev_off)))
                else:
                    # ... handed over as it is: on its way to the callback the value is at most widened as the unsigned number it is
                    # (a detour through a signed or narrower type changes every value with that type's top bit set)
                    argterm = cb["args"][2] if payload else (cb["args"][1] if len(cb["args"]) > 1 else None)
                    badcast = None
                    t_ = argterm
                    while isinstance(t_, tuple) and t_[0] == "cast":
                        if t_[1] in ("sext", "trunc", "fptoui", "fptosi", "uitofp", "sitofp"):
                            badcast = t_[1]
                        t_ = t_[3]
                    res.append(("action", badcast is None, "" if badcast is None else
                                "the %d-byte argument of 0x%02X reaches the callback through a %s conversion: values with the top bit of "
                                "the narrower type set arrive changed" % (N, b, badcast)))
            else:
                res.append(("action", False, "argument of 0x%02X is not a loader result: %s" % (b, _fmt_desc(d))))
        # read / required
        total = 1 + N
        if payload:
            okr = is_sum(o["read"], total, claims[-1]["amount"])
        else:
            okr = o["read"] == ("c", total)
        res.append(("read", okr, "" if okr else "read=%s, the head%s occupies %d%s bytes" %
                    (fmt_term(o["read"]), " and payload" if payload else "", total, " + length" if payload else "")))
        okq = o["required"] == ("c", 0)
        res.append(("read", okq, "" if okq else "required=%s on FINISHED (must be 0)" % fmt_term(o["required"])))
        # claim amounts
        for c, e in zip(claims, exp_amounts):
            if e != "len" and c["amount"] != ("c", e):
                res.append(("claim", False, "claims %s bytes where the head needs %d" % (fmt_term(c["amount"]), e)))
        return res
    if st == NED:
        if o["callbacks"]:
            res.append(("nedata", False, "NEDATA path invokes callback %s" % o["callbacks"][0]["field"]))
        okr = o["read"] == ("c", 0)
        res.append(("nedata", okr, "" if okr else "NEDATA with read=%s (must be 0)" % fmt_term(o["read"])))
        failing = [c for c in claims if not c["ok"]]
        if len(failing) != 1 or claims[-1]["ok"]:
            res.append(("nedata", False, "NEDATA path without exactly one failing final claim"))
            return res
        fc = claims[-1]
        k = len(claims) - 1
        if k >= len(exp_amounts):
            res.append(("claim", False, "more claims than the head needs"))
            return res
        before = fc["before"]
        if not isinstance(before, int):
            res.append(("nedata", False, "bytes claimed before the failing claim are not a constant"))
            return res
        if exp_amounts[k] != "len":
            ok = fc["amount"] == ("c", exp_amounts[k]) and before == sum(exp_amounts[:k])
            res.append(("claim", ok, "" if ok else "failing claim of %s after %d bytes; head needs %s" % (fmt_term(fc["amount"]), before, exp_amounts)))
            okq = o["required"] == ("c", before + exp_amounts[k])
            res.append(("nedata", okq, "" if okq else "required=%s, pending head needs %d" % (fmt_term(o["required"]), before + exp_amounts[k])))
        else:
            amount = fc["amount"]
            req = o["required"]
            # the failing amount must be the decoded length of this head; its magnitude bound follows
            d = tables.describe_arg(amount)
            if ref.get("imm"):
                okd = (d[0] == "loader-bias" and d[3] == ref["bias"]) and loader_ext(d[1]) == 1 and _loader_offset(o, d[2]) == 0
                if not okd:
                    v = eval_for_byte(o, amount, b, loader_ext)
                    okd = v is not None and v == (b & 31)
                bound = 23
            else:
                okd = d[0] == "loader" and loader_ext(d[1]) == N and _loader_offset(o, d[2]) == 1
                bound = (1 << (8 * N)) - 1
            if not okd:
                res.append(("claim", False, "payload claim of %s is not the decoded length of head 0x%02X" % (_fmt_desc(d), b)))
                return res
            if P.is_const(amount) and P.is_const(req) and req[1] == before + amount[1] and before + amount[1] <= SIZE_MAX:
                # both folded for this initial byte (an immediate length): the sum is the plain number
                res.append(("nedata-wrap", True, "immediate length: claimed + length is a small constant"))
                req = None
            elif bound + before <= SIZE_MAX and req in (("op", "add", "i64", ("c", before), amount), ("op", "add", "i64", amount, ("c", before))):
                res.append(("nedata-wrap", True, "length < 2^%d: claimed + length cannot wrap" % (8 * N if N else 5)))
                req = None
            facts = o["path"].st.truth
            summ = None
            if req is None:
                summ = "done"
            else:
                for t in (("op", "add", "i64", ("c", before), amount), ("op", "add", "i64", amount, ("c", before))):
                    if req == t:
                        summ = t
            wrap_t = lambda s: ("icmp", "ult", s, amount)  # noqa: E731
            if summ == "done":
                pass
            elif summ is not None:
                # the sum must be known not to have wrapped on this path
                ok = facts.get(wrap_t(summ)) is False
                res.append(("nedata-wrap", ok, "" if ok else
                            "required = %s + %d may wrap: the length is attacker-chosen (loader result) and no overflow test "
                            "dominates the store" % (fmt_term(amount), before)))
            elif req == ("c", SIZE_MAX):
                ok = any(facts.get(wrap_t(s)) is True for s in (("op", "add", "i64", ("c", before), amount), ("op", "add", "i64", amount, ("c", before))))
                res.append(("nedata-wrap", ok, "" if ok else "required saturated to SIZE_MAX on a path where the sum did not wrap"))
            else:
                res.append(("nedata", False, "required=%s is neither claimed(%d)+length nor the saturated maximum" % (fmt_term(req), before)))
        # strictness: the failing comparison is amount > provided - before
        prov = ("arg", o["size_i"])
        want = [("icmp", "ugt", fc["amount"], ("op", "sub", "i64", prov, ("c", before)) if before else prov)]
        facts = o["path"].st.truth
        okc = o["path"].st.rel_gt(fc["amount"], want[0][3]) or o["path"].st.rel_gt(fc.get("amount_raw", fc["amount"]), want[0][3])
        if not okc and P.is_const(fc["amount"]):
            # constant amount: recorded as an interval on (provided - before)
            t = want[0][3]
            hi = o["path"].st.hi.get(t)
            okc = hi is not None and hi < fc["amount"][1]
        res.append(("nedata", okc, "" if okc else "NEDATA is not guarded by 'needed > provided - already claimed'"))
        return res
    res.append(("status", False, "unknown status constant %d" % st))
    return res


def _loader_offset(o, call_term):
    for r in o["reads"]:
        if r["ev"].res == call_term:
            return r["off"]
    return None


def _fmt_desc(d):
    if d is None:
        return "nothing"
    if d[0] == "loader":
        return "%s(..)" % d[1]
    if d[0] == "loader-bias":
        return "%s(..) - 0x%02X" % (d[1], d[3])
    if d[0] == "const":
        return "constant %d" % d[1]
    return fmt_term(d[1]) if len(d) > 1 else str(d)


def claim_before_read(o):
    """every byte of source that is read lies below what has been claimed at that point; returns [(ok, detail, ev)]"""
    out = []
    for r in o["reads"]:
        cl = r["claimed"]
        if isinstance(cl, int):
            ok = r["off"] is not None and r["off"] + r["width"] <= cl
        else:
            # symbolic total (after the payload claim): constant part suffices for head reads
            base = cl
            while isinstance(base, tuple) and base[0] == "sum":
                base = base[1]
            ok = isinstance(base, int) and r["off"] + r["width"] <= base
        out.append((ok, "%s reads source[%s..%s) with only %s bytes claimed" % (r["via"], r["off"], (r["off"] or 0) + r["width"], cl), r["ev"]))
    return out


# ---------------------------------------------------------------------------
# shared rule groups

def stateless(chk, rule, prog, eff):
    """cbor_stream_decode allocates nothing, writes no global, owns no static (C08 r4, C09 r1)"""
    f = prog.fn("cbor_stream_decode")
    where_fn = "%s:%d" % (f.file, f.line)
    S = eff.summ["cbor_stream_decode"]
    chk.ob(rule, "no allocator call reachable", not S["allocates"] and not S["frees"], where_fn, fn=f.name, key="alloc")
    gw = sorted(r[1] for r in S["writes"] if r[0] == "global")
    chk.ob(rule, "no store to a global", not gw, where_fn, fn=f.name, detail=str(gw) if gw else "", key="globals")
    callees = eff.transitive_callees("cbor_stream_decode") | {"cbor_stream_decode"}
    statics = [g for g in prog.globals.values() if g["unit"].startswith("src/") and not g["constant"]
               and any(g["name"].startswith(c + ".") for c in callees)]
    chk.ob(rule, "no function-static in the decoder or its callees", not statics, where_fn, fn=f.name,
           detail=str([g["name"] for g in statics]) if statics else "", key="statics")
    unk = [r for r in S["writes"] if r[0] == "unknown"]
    chk.ob(rule, "no store through a pointer of unknown provenance", not unk, where_fn, fn=f.name, key="unknown")
    return len(callees)


def _int_bits_of(ty):
    return int(ty[1:]) if isinstance(ty, str) and ty.startswith("i") and ty[1:].isdigit() else None


def claim_helper(prog):
    """name of the input-bookkeeping routine of the streaming decoder: the one library function that cbor_stream_decode
    hands its source_size to (wherever it is defined: the decoder's unit or, as `static inline`, a shared header)"""
    cached = getattr(prog, "_claim_helper", None)
    if cached:
        return cached
    from ir import Arg
    f = prog.fn("cbor_stream_decode")
    si = f.param_index("source_size")
    names = set()
    seen = set()
    work = [(f, si)]
    while work:
        g, j = work.pop()
        if (g.name, j) in seen:
            continue
        seen.add((g.name, j))
        passed_on = False
        for u in g.users(Arg(g, j)):
            if u.op == "call" and u.callee in prog.funcs:
                for k, o in enumerate(u.operands):
                    if isinstance(o, Arg) and o.i == j:
                        work.append((prog.funcs[u.callee], k))
                        passed_on = True
        if not passed_on and g is not f:
            names.add(g.name)     # the routine that finally consumes the buffer length (unit-internal forwarders are looked through)
    if len(names) > 1:
        # several consumers: the bookkeeping routine is the one the decoder's claims overwhelmingly go through; the others are
        # left to the rule "source_size is used only as the claim routine's `provided` argument" (C09.prefix)
        def sites(n):
            return sum(1 for g in prog.funcs.values() if g.name in {x for x, _ in seen} for i in g.all_insts() if i.op == "call" and i.callee == n)
        ranked = sorted(names, key=sites, reverse=True)
        if sites(ranked[0]) >= 4 * max(1, sites(ranked[1])):
            names = {ranked[0]}
        else:
            # ... or the one every decoding step starts with: a call of it dominates every call of the others
            calls = {n_: [i for i in f.all_insts() if i.op == "call" and i.callee == n_] for n_ in names}
            first = [n_ for n_ in names if any(all(f.dominates(c0, c1) for m_ in names if m_ != n_ for c1 in calls[m_]) for c0 in calls[n_])]
            if len(first) == 1:
                names = {first[0]}
    if len(names) != 1:
        raise AnalysisBroken("cbor_stream_decode hands source_size to %s: no single input-bookkeeping routine" % (sorted(names) or "no library function"))
    prog._claim_helper = names.pop()
    return prog._claim_helper


def size_only_feeds_claims(chk, rule, prog):
    """the buffer length influences the outcome only through claim_bytes' comparison (prefix monotonicity)"""
    from ir import Arg, Inst
    f = prog.fn("cbor_stream_decode")
    si = f.param_index("source_size")
    users = f.users(Arg(f, si))
    n = 0
    try:
        CL = claim_helper(prog)
    except AnalysisBroken:
        CL = None       # no routine receives the buffer length: every use of it is then a use outside the claim comparison

    def only_provided(g, pi_, depth=0):
        """parameter pi_ of the unit-internal helper g is used for nothing but being handed on as the claim routine's `provided`"""
        if depth > 3:
            return False
        us = g.users(Arg(g, pi_))
        return bool(us) and all(passes_on(g, x, lambda o: isinstance(o, Arg) and o.i == pi_, depth) for x in us)

    def passes_on(g, u, is_it, depth):
        if u.op != "call" or not u.callee:
            return False
        pos = [k for k, o in enumerate(u.operands) if is_it(o)]
        if u.callee == CL:
            return pos == [1]
        h = prog.funcs.get(u.callee)
        return h is not None and h.internal and len(pos) == 1 and only_provided(h, pos[0], depth + 1)
    for u in users:
        n += 1
        ok = passes_on(f, u, lambda o: isinstance(o, Arg) and o.i == si, 0)
        chk.ob(rule, "use of source_size at %s" % u.loc(), ok, u.loc(), fn=f.name, key="ssz:%d" % u.line,
               detail="" if ok else "source_size is used by %r, not only as the 'provided' argument of claim_bytes" % u)
    c = prog.fn(claim_helper(prog))
    # which parameter of the claim routine is "what the caller's buffer holds": the one the decoder's source_size arrives at
    pi = None
    work_, seen2_ = [(f, si)], set()
    while work_ and pi is None:
        g_, j_ = work_.pop()
        if (g_.name, j_) in seen2_:
            continue
        seen2_.add((g_.name, j_))
        for u_ in g_.users(Arg(g_, j_)):
            if u_.op == "call" and u_.callee in prog.funcs:
                for k_, o_ in enumerate(u_.operands):
                    if isinstance(o_, Arg) and o_.i == j_:
                        if u_.callee == c.name:
                            pi = k_
                        else:
                            work_.append((prog.funcs[u_.callee], k_))
    if pi is None:
        raise AnalysisBroken("%s: cannot tell which parameter receives the buffer length" % c.name)
    chain = c.users(Arg(c, pi))
    ok = len(chain) == 1 and chain[0].op == "sub"
    if ok:
        # ... whose result only feeds comparisons, and their outcomes only decisions (a branch, or a truth value that is
        # negated / widened / selected / returned): the buffer length never becomes data
        u2 = c.users(chain[0])
        ok = bool(u2) and all(x.op == "icmp" for x in u2)
        seen_, work_ = set(), list(u2)
        while ok and work_:
            x = work_.pop()
            if x.id in seen_:
                continue
            seen_.add(x.id)
            for y in c.users(x):
                if y.op in ("br", "ret"):
                    continue
                if y.op in ("xor", "zext", "trunc", "select", "phi", "and", "or", "icmp", "store", "load") and \
                        (_int_bits_of(y.type) or 64) <= 8 or y.op in ("br", "select", "phi", "icmp"):
                    work_.append(y)
                    continue
                ok = False
    chk.ob(rule, "claim_bytes uses 'provided' only in its comparison", ok, "%s:%d" % (c.file, c.line), fn=c.name, key="provided")
    return n


def per_byte(chk, prefix, prog, eff, rules_wanted, by_byte=None):
    """re-evaluate selected per-byte rules of T-dispatch under another property's name"""
    import tables as TB
    if by_byte is None:
        by_byte, pre, outs = TB.dispatch(prog, eff)
    names, enumv = status_names(prog)
    ext_cache = {}

    def loader_ext(name):
        if name not in ext_cache:
            ext_cache[name] = TB.read_extent(prog, name, 0)
        return ext_cache[name]
    f = prog.fn("cbor_stream_decode")
    n = 0
    for b in range(256):
        ref = TB.ref_dispatch(b)
        for k, o in enumerate(by_byte[b]):
            where = "%s:%d" % (f.file, f.line)
            for rule, ok, detail in check_byte(prog, b, ref, o, enumv, loader_ext):
                if rule in rules_wanted:
                    n += 1
                    chk.ob(prefix + "." + rule, "byte 0x%02X path %d" % (b, k), ok, where, fn=f.name,
                           key="%02X:%s:%d" % (b, rule, k), detail=detail)
            if "claim-before-read" in rules_wanted:
                for ok, detail, ev in claim_before_read(o):
                    n += 1
                    chk.ob(prefix + ".claim-before-read", "byte 0x%02X path %d %s" % (b, k, ev.callee or "load"), ok, ev.ins.loc(), fn=f.name,
                           key="%02X:cbr:%s:%d" % (b, ev.callee or "load", k), detail="" if ok else detail)
    return n


def payload_reads(chk, rule, prog, eff, cache):
    """the builders read exactly the claimed payload: every read through the payload pointer of the string callbacks
    wired in cbor_load is a copy of at most `length` bytes (the amount the decoder claimed)"""
    import paths as P
    import tables as TB
    load = prog.fn("cbor_load")
    g = __import__("tables").load_callbacks_global(prog)
    fields = TB.callback_fields(prog)
    n = 0
    for name, el in zip(fields, g["init_val"].elems):
        if name not in ("byte_string", "string"):
            continue
        fn = getattr(el, "name", None)
        f = prog.fn(fn)
        names = [p["name"] for p in f.params]
        di, li = names.index("data"), names.index("length")
        DATA, LEN = ("arg", di), ("arg", li)
        # library callees that receive the payload pointer are inlined (a builder that delegates the copy to
        # cbor_build_stringn and the like is still followed down to the bytes it reads)
        import ownership as O
        inline = set(O.static_callees(prog, eff, fn))
        for _round in range(3):
            more = set()
            for pa in cache.get(fn, inline=inline):
                for e in pa.events:
                    if e.kind == "call" and e.ckind == "lib" and any(isinstance(a, tuple) and P.derives(a, DATA) for a in e.args):
                        if e.callee not in eff.transitive_callees(e.callee):
                            more.add(e.callee)
            if not more - inline:
                break
            inline |= more | set().union(*[O.static_callees(prog, eff, m_) for m_ in more])
        for k, pa in enumerate(cache.get(fn, inline=inline)):
            for e in pa.events:
                reads = None
                if e.kind == "call" and e.callee in ("memcpy", "memmove") and isinstance(e.args[1], tuple) and P.derives(e.args[1], DATA):
                    reads = (P.ptr_key(e.args[1])[1], e.args[2])
                elif e.kind == "memcpy" and isinstance(e.args[1], tuple) and P.derives(e.args[1], DATA):
                    reads = (P.ptr_key(e.args[1])[1], e.args[2])
                elif e.kind == "load" and P.derives(e.args[0], DATA):
                    reads = (P.ptr_key(e.args[0])[1], ("c", 1))
                elif e.kind == "call" and e.ckind in ("lib", "ext") and e.callee not in ("memcpy", "memmove") and \
                        any(isinstance(a, tuple) and P.derives(a, DATA) for a in e.args):
                    reads = (None, None)
                if reads is None:
                    continue
                n += 1
                off, cnt = reads
                ok = off == 0 and cnt == LEN
                if not ok and e.kind == "load":
                    # a single byte read at payload[i] on a path that knows i < length
                    b_ = P.ptr_key(e.args[0])[0]
                    i_ = b_[3][-1] if (isinstance(b_, tuple) and b_[0] == "idx" and b_[1] == DATA and b_[3]) else (("c", off) if b_ == DATA and off is not None else None)
                    if i_ is not None:
                        ok = pa.st.rel_gt(LEN, i_, upto=e.nfacts)
                chk.ob(rule, "%s path %d: reads exactly `length` bytes of the payload" % (fn, k), ok, e.ins.loc(), fn=fn,
                       key="%s:payload:%d" % (fn, e.ins.id),
                       detail="" if ok else "reads %s byte(s) at payload+%s although the decoder claimed only `length` bytes" % (fmt_term(cnt) if cnt else "?", off))
    return n


def running_read(prog, pa, RES, read_off):
    """The running 'bytes read so far' of cbor_load on one path, wherever it lives (in result->read or in a local that is
    stored back at the exits).  Returns (valid, problems):
      valid(r)  - is term r a running total: 0, the stored total, or a sum whose other summands are read counts of decoder
                  results that were added while the result's status was known to be FINISHED;
      problems  - [(event, text)] for additions of a decoder result under another status and for stores of something that
                  is not a running total into result->read.
    Needs a path produced with arith_events=True."""
    import paths as P
    st_read = prog.field_offset("cbor_decoder_result", "read")
    st_status = prog.field_offset("cbor_decoder_result", "status")
    FIN = prog.enum("cbor_decoder_status")["CBOR_DECODER_FINISHED"]

    def is_dres_read(x):
        return isinstance(x, tuple) and x[0] == "ld" and x[2] == st_read and isinstance(x[1], tuple) and x[1][0] == "alloca"
    audited = set()
    problems = []
    cur_status = None
    fi = 0
    for e in pa.events:
        while fi < e.nfacts:
            t, truth, _ = pa.facts[fi]
            if t[0] == "in" and t[1][0] == "ld" and t[1][2] == st_status and len(t[2]) == 1:
                cur_status = t[2][0]
            elif t[0] == "icmp" and t[1] == "eq" and isinstance(t[2], tuple) and t[2][0] == "ld" and t[2][2] == st_status and P.is_const(t[3]) and truth:
                cur_status = t[3][1]
            fi += 1
        if e.kind == "call" and e.callee == "cbor_stream_decode":
            cur_status = None
        if e.kind == "arith" and e.callee == "add" and any(is_dres_read(x) for x in e.args):
            new = [x for x in e.args if is_dres_read(x) and x not in audited]
            if cur_status == FIN:
                audited.update(new)
            elif new:
                problems.append((e, "a decoder result's read count is added under status %s" % cur_status))

    def valid(r):
        if r == ("c", 0):
            return True
        if isinstance(r, tuple) and r[0] == "ld" and r[1] == RES and r[2] == read_off:
            return True
        if is_dres_read(r):
            return r in audited          # 0 + read, folded
        if isinstance(r, tuple) and r[0] == "op" and r[1] == "add":
            return valid(r[3]) and valid(r[4])
        return False
    for e in pa.events:
        if e.kind == "store" and P.ptr_key(e.args[0]) == (RES, read_off) and not valid(e.args[1]):
            problems.append((e, "read := %s, which is not 0 plus FINISHED read counts" % fmt_term(e.args[1])))
    return valid, problems
