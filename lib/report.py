"""Obligation bookkeeping, evidence files, VIOLATION / KNOWN-FINDING output."""
import json
import os
import sys
import time

from build import VERIF, AnalysisBroken

EVIDENCE_DIR = os.path.join(VERIF, "evidence")
WITNESS_DIR = os.path.join(EVIDENCE_DIR, "witness")
KNOWN_FINDINGS = os.path.join(VERIF, "known_findings.json")

COMMON_ASSUMPTIONS = [
    "LP64, little-endian target (x86_64-linux); IS_BIG_ENDIAN arms are not compiled, as in the pinned build",
    "release configuration flags: -std=c2x -DEIGHT_BYTE_SIZE_T -D_CBOR_HAS_BUILTIN_UNREACHABLE -D_CBOR_HAS_NODISCARD_ATTRIBUTE -DNDEBUG",
    "clang-14 -O0 + mem2reg LLVM IR is a faithful rendering of the C source (front end trusted)",
    "allocator pointers honour the malloc/realloc/free contract; client callbacks are outside the analysed program",
    "verdicts are static: no library code is executed, concretely or symbolically",
]


def load_known():
    if not os.path.exists(KNOWN_FINDINGS):
        return {"known": [], "fixed": []}
    return json.load(open(KNOWN_FINDINGS))


class Check:
    def __init__(self, pid, tier, seed=0):
        self.pid = pid
        self.tier = tier
        self.seed = seed
        self.t0 = time.time()
        self.obs = []
        self.rules = {}
        self.notes = []
        self.analysed = {}
        self.assumptions = list(COMMON_ASSUMPTIONS)
        self.not_decided = []
        self.explanation = ""
        self.exhaustive = False
        self.extra = {}
        self.floor_failures = []
        self.scope = ""        # "[CONFIG=..] " while the rules are re-run under an alternative build configuration
        self._index = {}
        self.known = [k for k in load_known().get("known", []) if k.get("property") == pid]

    # rule registry: name -> description; evidence reports the rule applied
    def rule(self, name, text):
        self.rules[name] = text

    def ob(self, rule, instance, ok, where="", detail="", nontrivial=True, fn="", key=None, path=None):
        """record one obligation.  key: line-number-free identity used to match known findings"""
        if rule not in self.rules:
            raise AnalysisBroken("internal: obligation for unregistered rule %s" % rule)
        if self.scope:
            key = self.scope + (key or instance)
            instance = self.scope + instance
        k = (rule, key or instance)
        prev = self._index.get(k)
        if prev is not None:
            # same obligation reached again (e.g. the same instruction on another path): keep the worst verdict
            if prev["ok"] and not ok:
                prev.update(ok=False, where=where, detail=detail, path=path, instance=instance)
            return ok
        rec = dict(rule=rule, instance=instance, ok=bool(ok), where=where, detail=detail,
                   nontrivial=nontrivial, fn=fn, key=key or instance, path=path)
        self._index[k] = rec
        self.obs.append(rec)
        return ok

    def floor(self, rule, what, count, minimum):
        """instance floor: a rule that matches fewer sites than confirmed by hand is broken, not passed"""
        if self.scope and minimum > 1:
            # an alternative configuration compiles fewer functions (no pretty printer): floors are hand-confirmed for the
            # default configuration and relaxed by a quarter elsewhere
            minimum = max(1, minimum * 3 // 4)
        what = self.scope + what
        self.analysed["%s:%s" % (rule, what)] = count
        if count < minimum:
            # a violation found elsewhere takes precedence; otherwise the check is broken, not passed
            self.floor_failures.append("%s: rule %s matched %d %s, floor is %d (anchor vanished or extractor lost the shape)"
                                       % (self.pid, rule, count, what, minimum))

    def count(self, what, n):
        self.analysed[self.scope + what] = n

    def finish(self):
        selftest = bool(os.environ.get("VERIF_SELFTEST"))
        if not selftest:
            os.makedirs(WITNESS_DIR, exist_ok=True)
        viol = [o for o in self.obs if not o["ok"]]
        known_hits = []
        real = []
        for o in viol:
            hit = None
            for k in self.known:
                if k.get("rule") == o["rule"] and k.get("key") == o["key"]:
                    hit = k
                    break
            if hit:
                known_hits.append((o, hit))
            else:
                real.append(o)
        for o, k in known_hits:
            print("KNOWN-FINDING: property=%s %s" % (self.pid, k.get("what", o["instance"])))
        nviol = 0
        for o in real:
            nviol += 1
            wpath = os.path.join(WITNESS_DIR, "%s-%d.json" % (self.pid, nviol))
            if selftest:
                print("%s: rule %s violated by %s at %s%s" % (self.pid, o["rule"], o["instance"], o["where"],
                                                              (": " + o["detail"]) if o["detail"] else ""))
                print("SELFTEST-VIOLATION property=%s rule=%s" % (self.pid, o["rule"]))
                continue
            json.dump(dict(property=self.pid, rule=o["rule"], rule_text=self.rules[o["rule"]], instance=o["instance"],
                           key=o["key"], where=o["where"], function=o["fn"], detail=o["detail"], path=o["path"]),
                      open(wpath, "w"), indent=1)
            print("%s: rule %s violated by %s at %s%s" % (self.pid, o["rule"], o["instance"], o["where"],
                                                          (": " + o["detail"]) if o["detail"] else ""))
            print("VIOLATION property=%s replay=%s" % (self.pid, wpath))
        discharged = [o for o in self.obs if o["ok"]]
        nontriv = set((o["rule"], o["key"]) for o in self.obs if o["nontrivial"])
        samples = []
        seen_rules = set()
        for o in self.obs:
            if o["rule"] in seen_rules:
                continue
            seen_rules.add(o["rule"])
            samples.append(dict(rule=o["rule"], instance=o["instance"], where=o["where"],
                                verdict="discharged" if o["ok"] else "violated", detail=o["detail"][:300]))
        per_rule = {}
        for o in self.obs:
            d = per_rule.setdefault(o["rule"], dict(obligations=0, discharged=0))
            d["obligations"] += 1
            d["discharged"] += 1 if o["ok"] else 0
        ev = dict(
            property_id=self.pid, tier=self.tier, seed=self.seed, level="other",
            coverage=dict(
                explanation=self.explanation or "static analysis over LLVM IR facts of /repo's current working tree",
                obligations=len(self.obs), discharged=len(discharged),
                evaluations=len(self.obs), distinct_nontrivial=len(nontriv),
                rule="one obligation per (rule, program construct); non-trivial = decided by a dominance query, path "
                     "enumeration, effect-summary lookup or table cell comparison (floor/anchor checks are not counted); "
                     "distinct = distinct (rule, instance key)",
                samples=samples, exhaustive=self.exhaustive,
                rules={k: dict(text=v, **per_rule.get(k, dict(obligations=0, discharged=0))) for k, v in self.rules.items()},
                analysed=self.analysed, not_decided=self.not_decided,
                known_findings_printed=[k.get("what") for _, k in known_hits],
                checker_cmd="python3 bin/check.py %s --tier %s" % (self.pid, self.tier),
                trusted_base=["clang-14 front end (IR and, for the signed-shift rule, its JSON AST dump)", "opt-14 mem2reg", "tools/irfacts.cc", "lib/*.py rule engines"],
                **self.extra),
            assumptions=self.assumptions,
            wall_s=round(time.time() - self.t0, 3),
            violations=len(real),
        )
        if not selftest:
            os.makedirs(EVIDENCE_DIR, exist_ok=True)
            json.dump(ev, open(os.path.join(EVIDENCE_DIR, "%s.json" % self.pid), "w"), indent=1)
        if not real and self.floor_failures:
            raise AnalysisBroken("; ".join(dict.fromkeys(self.floor_failures)))
        print("%s [%s]: %d obligations, %d discharged, %d violated (%d known), %d distinct non-trivial, %.1fs"
              % (self.pid, self.tier, len(self.obs), len(discharged), len(real), len(known_hits), len(nontriv),
                 time.time() - self.t0))
        return 1 if real else 0
