"""In-memory model of the IR facts: Program / Function / Block / Inst / values,
dominators, post-dominators, natural loops, access paths."""
from build import AnalysisBroken


def _rel(path):
    from build import REPO
    if path.startswith(REPO + "/"):
        return path[len(REPO) + 1:]
    return path


class Value:
    kind = "?"

    def is_const_int(self):
        return False


class Arg(Value):
    kind = "arg"

    def __init__(self, fn, i):
        self.fn, self.i = fn, i

    @property
    def type(self):
        return self.fn.params[self.i]["type"]

    @property
    def name(self):
        return self.fn.params[self.i]["name"]

    def __repr__(self):
        return "%%%s(arg%d)" % (self.name, self.i)


class Const(Value):
    kind = "const"

    def __init__(self, v, sv, t):
        self.v, self.sv, self.type = v, sv, t

    def is_const_int(self):
        return True

    def __repr__(self):
        return "%s %d" % (self.type, self.v)


class FConst(Value):
    kind = "fconst"

    def __init__(self, bits, t):
        self.bits, self.type = bits, t

    def __repr__(self):
        return "%s fbits(0x%x)" % (self.type, self.bits)


class Null(Value):
    kind = "null"

    def __init__(self, t):
        self.type = t

    def __repr__(self):
        return "null"


class Undef(Value):
    kind = "undef"

    def __init__(self, t):
        self.type = t

    def __repr__(self):
        return "undef"


class GlobalRef(Value):
    kind = "global"
    type = "ptr"

    def __init__(self, name):
        self.name = name

    def __repr__(self):
        return "@" + self.name


class FuncRef(Value):
    kind = "func"
    type = "ptr"

    def __init__(self, name):
        self.name = name

    def __repr__(self):
        return "@" + self.name


class BlockRef(Value):
    kind = "block"

    def __init__(self, id):
        self.id = id


class CExpr(Value):
    kind = "cexpr"

    def __init__(self, op, t, operands, src_type=None):
        self.op, self.type, self.operands, self.src_type = op, t, operands, src_type

    def __repr__(self):
        return "cexpr(%s %r)" % (self.op, self.operands)


class Agg(Value):
    """constant aggregate / data array / zeroinitializer"""
    kind = "agg"

    def __init__(self, t, elems, zero=False):
        self.type, self.elems, self.zero = t, elems, zero

    def __repr__(self):
        return "agg(%s)" % self.type


class Other(Value):
    kind = "other"
    type = "?"

    def __init__(self, k):
        self.k = k

    def __repr__(self):
        return "other(%s)" % self.k


class Inst(Value):
    kind = "inst"

    def __init__(self, fn, block, d):
        self.fn, self.block = fn, block
        self.id = d["id"]
        self.op = d["op"]
        self.type = d.get("type", "void")
        self.name = d.get("name", "")
        self.line = d.get("line", 0)
        self.file = _rel(d.get("file", ""))
        self.d = d
        self.operands = []
        self.pos = 0  # index within the block

    @property
    def callee(self):
        return self.d.get("callee")

    @property
    def pred(self):
        return self.d.get("pred")

    def loc(self):
        f = self.file or self.fn.file
        return "%s:%d" % (f, self.line) if self.line else "%s:?" % f

    def __repr__(self):
        nm = ("%" + self.name) if self.name else "%%t%d" % self.id
        extra = ""
        if self.op == "call":
            extra = " " + (self.callee or "<indirect>")
        if self.op in ("icmp", "fcmp"):
            extra = " " + self.pred
        return "%s=%s%s@%d" % (nm, self.op, extra, self.line)


def _mkval(fn, o):
    k = o["k"]
    if k == "inst":
        return ("inst", o["id"])
    if k == "arg":
        return Arg(fn, o["i"])
    if k == "const":
        v = int(o["v"])
        return Const(v, int(o.get("sv", o["v"])), o["t"])
    if k == "fconst":
        return FConst(int(o["bits"]), o["t"])
    if k == "null":
        return Null(o["t"])
    if k == "undef":
        return Undef(o["t"])
    if k == "global":
        return GlobalRef(o["name"])
    if k == "func":
        return FuncRef(o["name"])
    if k == "block":
        return BlockRef(o["id"])
    if k == "cexpr":
        return CExpr(o["op"], o["t"], [_mkval(fn, x) for x in o["operands"]], o.get("src_type"))
    if k == "zeroinit":
        return Agg(o["t"], [], zero=True)
    if k == "cdata":
        return Agg(o["t"], [Const(e, e, "i?") if e is not None else Other("fp") for e in o["elems"]])
    if k == "cagg":
        return Agg(o["t"], [_mkval(fn, x) for x in o["elems"]])
    return Other(k)


class Block:
    def __init__(self, fn, d):
        self.fn = fn
        self.id = d["id"]
        self.name = d["name"]
        self.succ_ids = d["succs"]
        self.succs = []
        self.preds = []
        self.insts = []

    @property
    def term(self):
        return self.insts[-1]

    def __repr__(self):
        return "bb%d(%s)" % (self.id, self.name)


class Function:
    def d_attr(self, name):
        """memory-effect attribute the front end attached from a source-level __attribute__ (pure -> readonly, const -> readnone)"""
        return self._attrs.get(name, False)

    def __init__(self, mod, d):
        self.mod = mod
        self.unit = mod["unit"]
        self.name = d["name"]
        self.internal = d["internal"]
        self.declaration = d["declaration"]
        self.vararg = d.get("vararg", False)
        self.ret_type = d["ret_type"]
        self.params = d["params"]
        self.file = _rel(d.get("file", self.unit))
        self.line = d.get("line", 0)
        self.di_types = d.get("di_types")  # [ret, p0, p1, ...] source-level types
        self._attrs = {"readonly": d.get("readonly", False), "readnone": d.get("readnone", False)}
        self.blocks = []
        self.insts = {}
        self.dbgvars = {}  # inst id / ('arg', i) -> source variable name
        for bd in d["blocks"]:
            b = Block(self, bd)
            self.blocks.append(b)
            for idd in bd["insts"]:
                if idd["op"] == "dbg":
                    v = idd["val"]
                    key = v["id"] if v["k"] == "inst" else ("arg", v["i"])
                    self.dbgvars.setdefault(key, idd["var"])
                    continue
                ins = Inst(self, b, idd)
                ins.pos = len(b.insts)
                b.insts.append(ins)
                self.insts[ins.id] = ins
        bmap = {b.id: b for b in self.blocks}
        self.bmap = bmap
        for b in self.blocks:
            b.succs = [bmap[i] for i in b.succ_ids]
            for s in b.succs:
                if b not in s.preds:
                    s.preds.append(b)
        # resolve operands
        for b in self.blocks:
            for ins in b.insts:
                ins.operands = [self._res(_mkval(self, o)) for o in ins.d["operands"]]
                if ins.op == "phi":
                    ins.incoming = [(self._res(_mkval(self, o)), bmap[bid]) for o, bid in ins.d["incoming"]]
                    ins.operands = [v for v, _ in ins.incoming]
                if ins.op == "switch":
                    ins.cases = [(int(v), bmap[bid]) for v, bid in ins.d["cases"]]
                    ins.default = bmap[ins.d["default"]]
                if ins.op == "call" and ins.callee is None:
                    ins.callee_val = self._res(_mkval(self, ins.d["callee_val"]))
        self._dom = None
        self._pdom = None
        self._users = None

    def _res(self, v):
        if isinstance(v, tuple):
            return self.insts[v[1]]
        if isinstance(v, CExpr):
            v.operands = [self._res(x) for x in v.operands]
        return v

    @property
    def entry(self):
        return self.blocks[0]

    def all_insts(self):
        for b in self.blocks:
            for i in b.insts:
                yield i

    def calls(self, name=None):
        for i in self.all_insts():
            if i.op == "call" and (name is None or i.callee == name):
                yield i

    def returns(self):
        return [b.term for b in self.blocks if b.insts and b.term.op == "ret"]

    def users(self, v):
        if self._users is None:
            u = {}
            for i in self.all_insts():
                for o in _flat_operands(i):
                    key = o.id if isinstance(o, Inst) else (("arg", o.i) if isinstance(o, Arg) else None)
                    if key is not None:
                        u.setdefault(key, []).append(i)
            self._users = u
        key = v.id if isinstance(v, Inst) else ("arg", v.i)
        return self._users.get(key, [])

    def param_index(self, name):
        for i, p in enumerate(self.params):
            if p["name"] == name:
                return i
        raise AnalysisBroken("%s: no parameter named %s" % (self.name, name))

    # ---- dominators (Cooper-Harvey-Kennedy) ----
    def dom(self):
        if self._dom is None:
            self._dom = _dominators(self.blocks, self.entry, lambda b: b.preds, lambda b: b.succs)
        return self._dom

    def pdom(self):
        """post-dominators w.r.t. a virtual exit joining all ret/unreachable blocks"""
        if self._pdom is None:
            exits = [b for b in self.blocks if not b.succs]
            vexit = Block(self, {"id": -1, "name": "<exit>", "succs": []})
            preds = {b.id: list(b.succs) for b in self.blocks}
            for e in exits:
                preds[e.id] = [vexit]
            succs = {b.id: list(b.preds) for b in self.blocks}
            succs[-1] = exits
            preds[-1] = []
            self._pdom = _dominators(self.blocks + [vexit], vexit, lambda b: preds[b.id], lambda b: succs[b.id])
            self._vexit = vexit
        return self._pdom

    def dominates_block(self, a, b):
        idom = self.dom()
        while b is not None:
            if b is a:
                return True
            b = idom.get(b.id)
        return False

    def dominates(self, i1, i2):
        """instruction i1 dominates i2 (strictly before, or same block earlier)"""
        if i1.block is i2.block:
            return i1.pos < i2.pos
        return self.dominates_block(i1.block, i2.block)

    def edge_dominates(self, src, dst, target_block):
        """Does the CFG edge src->dst dominate target_block?  True iff every path
        from entry to target_block uses that edge: dst dominates target and every
        predecessor of dst other than src is dominated by dst (back edges)."""
        if not self.dominates_block(dst, target_block):
            return False
        for p in dst.preds:
            if p is src:
                continue
            if not self.dominates_block(dst, p):
                return False
        # also src must have exactly that edge counted once; a switch with two
        # cases to dst is still the same edge set
        return True

    def back_edges(self):
        res = []
        for b in self.blocks:
            for s in b.succs:
                if self.dominates_block(s, b):
                    res.append((b, s))
        return res

    def loops(self):
        """natural loops: header -> set of block ids"""
        loops = {}
        for tail, head in self.back_edges():
            body = loops.setdefault(head.id, {head.id})
            stack = [tail]
            while stack:
                x = stack.pop()
                if x.id in body:
                    continue
                body.add(x.id)
                stack.extend(x.preds)
        return loops

    def reachable_from(self, b, avoid=None):
        seen = set()
        stack = [b]
        while stack:
            x = stack.pop()
            if x.id in seen or (avoid is not None and x.id in avoid):
                continue
            seen.add(x.id)
            stack.extend(x.succs)
        return seen

    def __repr__(self):
        return "fn(%s)" % self.name


def _flat_operands(ins):
    out = []

    def rec(v):
        if isinstance(v, CExpr):
            for x in v.operands:
                rec(x)
        else:
            out.append(v)
    for o in ins.operands:
        rec(o)
    if ins.op == "call" and ins.callee is None:
        rec(ins.callee_val)
    return out


def _dominators(blocks, entry, preds_of, succs_of):
    # reverse postorder
    order = []
    seen = set()

    def dfs(b):
        stack = [(b, iter(succs_of(b)))]
        seen.add(b.id)
        while stack:
            node, it = stack[-1]
            adv = False
            for s in it:
                if s.id not in seen:
                    seen.add(s.id)
                    stack.append((s, iter(succs_of(s))))
                    adv = True
                    break
            if not adv:
                order.append(node)
                stack.pop()
    dfs(entry)
    order.reverse()
    rpo = {b.id: i for i, b in enumerate(order)}
    idom = {entry.id: entry}
    changed = True

    def intersect(a, b):
        while a is not b:
            while rpo[a.id] > rpo[b.id]:
                a = idom[a.id]
            while rpo[b.id] > rpo[a.id]:
                b = idom[b.id]
        return a
    while changed:
        changed = False
        for b in order[1:]:
            ps = [p for p in preds_of(b) if p.id in idom]
            if not ps:
                continue
            new = ps[0]
            for p in ps[1:]:
                new = intersect(p, new)
            if idom.get(b.id) is not new:
                idom[b.id] = new
                changed = True
    res = {}
    for b in order:
        res[b.id] = None if b is entry else idom.get(b.id)
    return res


class Program:
    def __init__(self, facts):
        self.facts = facts
        self.values = facts["values"]
        self.config = facts["config"]
        self.modules = facts["modules"]
        self.funcs = {}
        self.header_inlines = {}
        self.decls = {}
        self.globals = {}
        self.globals_by_unit = {}
        self.structs = {}
        self.ditypes = {}
        self.typedefs = {}
        for m in self.modules:
            for name, s in m["structs"].items():
                if not s.get("opaque"):
                    self.structs.setdefault(name, s)
            for t in m.get("ditypes", []):
                if t["tag"] == "typedef":
                    self.typedefs.setdefault(t["name"], t)
                else:
                    self.ditypes.setdefault((t["tag"], t["name"]), t)
            for g in m["globals"]:
                g = dict(g)
                g["unit"] = m["unit"]
                if "init" in g:
                    g["init_val"] = _mkval(None, g["init"])
                key = g["name"]
                if g["declaration"]:
                    continue
                self.globals_by_unit[(m["unit"], g["name"])] = g
                if key in self.globals and not g["internal"]:
                    raise AnalysisBroken("global %s defined twice" % key)
                if g["internal"] and key in self.globals:
                    key = m["unit"] + ":" + key
                self.globals[key] = g
            for fd in m["functions"]:
                if fd["declaration"]:
                    self.decls.setdefault(fd["name"], fd)
                    continue
                f = Function(m, fd)
                f.is_extra = m.get("is_extra", False)
                if f.name in self.funcs:
                    g0 = self.funcs[f.name]
                    if f.internal and g0.internal and (f.file, f.line) == (g0.file, g0.line) and f.file != _rel(f.unit):
                        # `static inline` in a header: one definition, one copy per including unit; the first stands for all
                        self.header_inlines.setdefault(f.name, [g0.unit]).append(f.unit)
                        continue
                    raise AnalysisBroken("function %s defined in two units (%s, %s)" % (f.name, self.funcs[f.name].unit, f.unit))
                self.funcs[f.name] = f
        self.externals = {n: d for n, d in self.decls.items() if n not in self.funcs}

    def fn(self, name):
        f = self.funcs.get(name)
        if f is None:
            raise AnalysisBroken("anchor function %s not found in the library" % name)
        return f

    def global_for(self, fn, name):
        """resolve a global referenced from function fn (unit-local first)"""
        g = self.globals_by_unit.get((fn.unit, name))
        if g is None:
            g = self.globals.get(name)
        return g

    def cstring(self, fn, v):
        """C string behind a constant GEP on a global char array, or None"""
        v = strip_casts(v)
        if isinstance(v, CExpr) and v.op == "getelementptr":
            v = v.operands[0]
        if isinstance(v, GlobalRef):
            g = self.global_for(fn, v.name)
            iv = g and g.get("init_val")
            if isinstance(iv, Agg) and iv.elems:
                bs = bytes(e.v for e in iv.elems if isinstance(e, Const))
                return bs.split(b"\0")[0].decode("latin1")
        return None

    def lib_funcs(self):
        return [f for f in self.funcs.values() if not f.is_extra]

    def enum(self, name):
        t = self.ditypes.get(("enum", name))
        if t is None:
            td = self.typedefs.get(name)
            if td is not None:
                if td.get("members"):
                    return {m["name"]: m["value"] for m in td["members"]}
                base = td["base"]
                if base.startswith("enum "):
                    t = self.ditypes.get(("enum", base[5:]))
        if t is None:
            raise AnalysisBroken("enum %s not found in debug info" % name)
        return {m["name"]: m["value"] for m in t["members"]}

    def struct_members(self, name):
        t = self.ditypes.get(("struct", name)) or self.ditypes.get(("union", name))
        if t is None:
            raise AnalysisBroken("struct %s not found in debug info" % name)
        return t["members"]

    def field_offset(self, struct, field):
        for m in self.struct_members(struct):
            if m["name"] == field:
                return m["offset_bits"] // 8
        raise AnalysisBroken("struct %s has no field %s" % (struct, field))


# ---------------------------------------------------------------------------
# value helpers

CASTS = ("bitcast", "zext", "sext", "trunc", "ptrtoint", "inttoptr", "addrspacecast")


def strip_casts(v, ops=("bitcast",)):
    while True:
        if isinstance(v, Inst) and v.op in ops:
            v = v.operands[0]
        elif isinstance(v, CExpr) and v.op in ops:
            v = v.operands[0]
        else:
            return v


def const_int(v):
    v = strip_casts(v, ("bitcast", "zext", "sext", "trunc"))
    if isinstance(v, Const):
        return v.v
    if isinstance(v, Null):
        return 0
    return None


def is_null(v):
    v = strip_casts(v)
    return isinstance(v, Null)


def gep_offset(v):
    """constant byte offset of a GEP inst/cexpr or None"""
    if isinstance(v, Inst) and v.op == "getelementptr":
        return v.d.get("const_offset")
    return None


def access_path(v, depth=0):
    """Canonical access path of a pointer/loaded value:
    (root, (step, step, ...)) with steps ('off', n) and ('load',).
    root: ('arg', i) | ('global', name) | ('inst', id) | ('const', v) | ('null',)"""
    steps = []
    while depth < 64:
        depth += 1
        if isinstance(v, Inst):
            if v.op == "bitcast":
                v = v.operands[0]
                continue
            if v.op == "getelementptr":
                off = v.d.get("const_offset")
                if off is None:
                    return (("inst", v.id), tuple(reversed(steps)))
                if off != 0:
                    steps.append(("off", off))
                v = v.operands[0]
                continue
            if v.op == "load":
                steps.append(("load",))
                v = v.operands[0]
                continue
            return (("inst", v.id), tuple(reversed(steps)))
        if isinstance(v, CExpr):
            if v.op == "bitcast":
                v = v.operands[0]
                continue
            if v.op == "getelementptr":
                # constant GEP on a global: fold as unknown offset marker using indices
                idx = tuple(const_int(x) for x in v.operands[1:])
                steps.append(("cgep", idx))
                v = v.operands[0]
                continue
            return (("cexpr", repr(v)), tuple(reversed(steps)))
        if isinstance(v, Arg):
            return (("arg", v.i), tuple(reversed(steps)))
        if isinstance(v, GlobalRef):
            return (("global", v.name), tuple(reversed(steps)))
        if isinstance(v, Null):
            return (("null",), tuple(reversed(steps)))
        if isinstance(v, Const):
            return (("const", v.v), tuple(reversed(steps)))
        return (("other", repr(v)), tuple(reversed(steps)))
    return (("deep",), tuple(reversed(steps)))


def merge_offsets(path):
    """normalise consecutive ('off',a),('off',b) into one"""
    root, steps = path
    out = []
    for s in steps:
        if s[0] == "off" and out and out[-1][0] == "off":
            out[-1] = ("off", out[-1][1] + s[1])
            if out[-1][1] == 0:
                out.pop()
        else:
            out.append(s)
    return (root, tuple(out))


def apath(v):
    return merge_offsets(access_path(v))
