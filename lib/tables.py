"""E3 - tables extracted from the program (constructors, dispatch, encoders ...)."""
from build import AnalysisBroken
from ir import Inst, Arg, Const, Null, GlobalRef, FuncRef, CExpr, Agg, strip_casts, apath, const_int
from rules import item_offsets, alloc_calls
from effects import indirect_kind


def constructors(prog, eff):
    """T-release, constructor half.  For every library function that initialises a
    freshly allocated cbor_item_t: the type constant it stores, the refcount it
    stores and how `data` is obtained.
       data kind: 'null' | 'interior' (pointer into the item block) |
                  'separate' (its own allocator block) | 'param'
    Returns {fn name: dict(type=int, refcount=int, data=kind, line=..)}"""
    off = item_offsets(prog)
    out = {}
    for f in prog.lib_funcs():
        mallocs = [i for i, g in alloc_calls(f, "_cbor_malloc")]
        if not mallocs:
            continue
        # locate aggregate initialisation of an item: stores into an alloca of
        # %struct.cbor_item_t that is then memcpy'd into a malloc result, or
        # direct field stores into the malloc result
        for al in [i for i in f.all_insts() if i.op == "alloca" and i.d.get("alloc_type") == "%struct.cbor_item_t"]:
            dest = None
            for c in f.calls():
                if c.callee and c.callee.startswith("llvm.memcpy") and strip_casts(c.operands[1]) is al:
                    d = strip_casts(c.operands[0])
                    if isinstance(d, Inst) and d in mallocs:
                        dest = d
            if dest is None:
                continue
            rec = dict(line=al.line, fn=f.name, block=dest)
            for st in f.all_insts():
                if st.op != "store":
                    continue
                root, steps = apath(st.operands[1])
                if root != ("inst", al.id):
                    continue
                o = steps[0][1] if steps and steps[0][0] == "off" else 0
                if len(steps) > 1:
                    continue
                val = st.operands[0]
                if o == off["type"]:
                    rec["type"] = const_int(val)
                elif o == off["refcount"]:
                    rec["refcount"] = const_int(val)
                elif o == off["data"]:
                    v = strip_casts(val)
                    if isinstance(v, Null):
                        rec["data"] = "null"
                    elif isinstance(v, Inst) and v.op == "getelementptr" and strip_casts(v.operands[0]) is dest:
                        rec["data"] = "interior"
                        rec["data_offset"] = v.d.get("const_offset")
                    elif isinstance(v, Inst) and v.op == "call":
                        rs = eff._vroots(f.name, v)
                        if rs and all(r[0] == "fresh" for r in rs):
                            rec["data"] = "separate"
                        else:
                            rec["data"] = "unknown"
                    elif isinstance(v, Arg):
                        rec["data"] = "param"
                    else:
                        rec["data"] = "unknown"
            if "data" not in rec:
                # field not mentioned in the initialiser: the compound literal is zero-filled
                rec["data"] = "null"
                rec["data_implicit"] = True
            out[f.name] = rec
    return out


def data_kind_by_type(ctors):
    """type constant -> set of data kinds over all constructors of that type"""
    m = {}
    for name, r in ctors.items():
        if r.get("type") is None:
            raise AnalysisBroken("constructor %s: stored type is not a constant" % name)
        m.setdefault(r["type"], set()).add(r["data"])
    return m
