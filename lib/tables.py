"""E3 - tables extracted from the program (constructors, dispatch, encoders ...)."""
from build import AnalysisBroken
from ir import Inst, Arg, Const, Null, GlobalRef, FuncRef, CExpr, Agg, strip_casts, apath, const_int
from rules import item_offsets, alloc_calls
from effects import indirect_kind


def constructors(prog, eff):
    """T-release, constructor half.  For every library function that allocates a cbor_item_t itself and returns it: the
    type constant and the refcount the returned item carries and how its `data` field is obtained, read off the STATE of
    the item on the function's successful paths (however the fields were written: compound literal + block copy, member
    by member, memset + members).
       data kind: 'null' | 'interior' (pointer into the item block) | 'separate' (its own allocator block) | 'param' |
                  'undefined' (never written)
    Returns {fn name: dict(type=int, refcount=int, data=kind, line=..)}"""
    import paths as P
    out = {}
    for f in prog.lib_funcs():
        if f.ret_type != "%struct.cbor_item_t*" or not [i for i, g in alloc_calls(f, "_cbor_malloc")]:
            continue
        try:
            ps = P.Executor(prog, eff, max_paths=400).run(f.name)
        except P.PathCapExceeded:
            continue
        rec = None
        for pa in ps:
            r = pa.ret
            if not (isinstance(r, tuple) and r[0] == "call" and r[1] == "_cbor_malloc"):
                continue
            d = describe_item(prog, pa.st, r)
            kind = d["data_kind"]
            data = d["data"]
            cur = dict(line=f.line, fn=f.name)
            if d["type"] is not None and d["type"][0] == "c":
                cur["type"] = d["type"][1]
            if d["refcount"] is not None and d["refcount"][0] == "c":
                cur["refcount"] = d["refcount"][1]
            if data is None:
                cur["data"] = "undefined"
            elif kind == "null":
                cur["data"] = "null"
            elif kind == "interior":
                cur["data"] = "interior"
                cur["data_offset"] = P.ptr_key(data)[1]
            else:
                b_ = P.ptr_key(data)[0]
                if isinstance(b_, tuple) and b_[0] == "call" and any(e.kind == "call" and e.res == b_ and
                                                                      (e.ckind == "alloc" or e.callee in ("_cbor_alloc_multiple",)) for e in pa.events):
                    cur["data"] = "separate"
                elif isinstance(b_, tuple) and b_[0] == "arg":
                    cur["data"] = "param"
                else:
                    cur["data"] = "unknown"
            if rec is None:
                rec = cur
            else:
                # several successful paths: they must agree on the layout; the stronger obligation wins otherwise
                order = ["separate", "interior", "param", "unknown", "undefined", "null"]
                if order.index(cur["data"]) < order.index(rec["data"]):
                    rec["data"] = cur["data"]
                for k_ in ("type", "refcount"):
                    if rec.get(k_) != cur.get(k_):
                        rec.pop(k_, None)
        if rec is not None:
            out[f.name] = rec
    return out


def data_kind_by_type(ctors):
    """type constant -> set of data kinds over all constructors of that type"""
    m = {}
    for name, r in ctors.items():
        if r.get("type") is None:
            raise AnalysisBroken("constructor %s: stored type is not a constant" % name)
        m.setdefault(r["type"], set()).add(r["data"])
    return m


# ---------------------------------------------------------------------------
# loaders

_EFF = {}


def _path_extent(prog, fname, param):
    """extent of the reads through `param` when the offsets are constants on every path although not in the IR (a
    fixed-count loop): the function is unrolled by the path executor; None if it does not unroll into complete paths
    with constant offsets"""
    import paths as P
    from effects import Effects
    if id(prog) not in _EFF:
        _EFF[id(prog)] = Effects(prog)
    eff = _EFF[id(prog)]
    f = prog.fn(fname)
    if any(c.callee in prog.funcs for c in f.calls() if c.callee):
        return None
    runs = []
    for lb in (16, 17):
        ps = P.Executor(prog, eff, loop_bound=lb).run(fname)
        ext = 0
        for pa in ps:
            for e in pa.events:
                if e.kind == "load":
                    b, o = P.const_index_key(e.args[0])
                    if b == ("arg", param):
                        bits = P.type_bits(e.ins.type) or 8
                        ext = max(ext, o + max(1, bits // 8))
                    elif isinstance(b, tuple) and P.derives(b, ("arg", param)) and b[0] == "idx":
                        return None
        runs.append((len(ps), ext))
    if runs[0] != runs[1] or runs[0][0] == 0:
        return None
    return runs[0][1]


def read_extent(prog, fname, param=0, _depth=0):
    """number of bytes a function may read through pointer parameter `param`
    (max constant offset dereferenced + access size), following callees.
    AnalysisBroken if the access is not at constant offsets."""
    f = prog.fn(fname)
    if _depth > 6:
        raise AnalysisBroken("read_extent: recursion too deep at %s" % fname)
    ext = 0
    for i in f.all_insts():
        if i.op in ("load", "store"):
            ptr = i.operands[0] if i.op == "load" else i.operands[1]
            root, steps = apath(ptr)
            if root == ("arg", param):
                if any(s[0] not in ("off",) for s in steps):
                    continue  # load through a loaded pointer: not the parameter's own bytes
                off = steps[0][1] if steps else 0
                ty = i.type if i.op == "load" else i.d.get("val_type", "i8")
                size = max(1, (int(ty[1:]) if ty.startswith("i") and ty[1:].isdigit() else 64) // 8)
                ext = max(ext, off + size)
            elif root[0] == "inst" and _derived_from_arg(f, ptr, param):
                pe = _path_extent(prog, fname, param)
                if pe is None:
                    raise AnalysisBroken("%s reads its pointer parameter at a non-constant offset (%s)" % (fname, i.loc()))
                return max(ext, pe)
        elif i.op == "call" and i.callee and not i.callee.startswith("llvm."):
            for k, a in enumerate(i.operands):
                root, steps = apath(a)
                if root == ("arg", param) and all(s[0] == "off" for s in steps):
                    off = steps[0][1] if steps else 0
                    if i.callee in prog.funcs:
                        ext = max(ext, off + read_extent(prog, i.callee, k, _depth + 1))
                    else:
                        raise AnalysisBroken("%s passes its buffer to external %s" % (fname, i.callee))
    return ext


def _derived_from_arg(f, v, param):
    seen = set()
    stack = [v]
    while stack:
        x = stack.pop()
        x = strip_casts(x)
        if isinstance(x, Arg):
            if x.i == param:
                return True
            continue
        if isinstance(x, Inst) and x.id not in seen:
            seen.add(x.id)
            if x.op in ("getelementptr", "phi", "select", "bitcast"):
                stack.extend(x.operands[:1] if x.op == "getelementptr" else x.operands)
    return False


# ---------------------------------------------------------------------------
# T-dispatch: the decoder action table

def load_callbacks_global(prog):
    """the callback table cbor_load decodes with: the constant `struct cbor_callbacks` whose address it (or a unit-internal
    routine it calls) passes to the streaming decoder - found by that use, wherever the table is defined and whatever its name"""
    from ir import GlobalRef, strip_casts
    seen, work = set(), ["cbor_load"]
    while work:
        fn = work.pop()
        if fn in seen or fn not in prog.funcs:
            continue
        seen.add(fn)
        f = prog.funcs[fn]
        for b in f.blocks:
            for ins in b.insts:
                if ins.op != "call":
                    continue
                if ins.callee == "cbor_stream_decode":
                    for a in ins.operands:          # (the result may come first, as a hidden pointer)
                        a = strip_casts(a, ("bitcast", "getelementptr"))
                        if isinstance(a, GlobalRef):
                            g = prog.global_for(f, a.name)
                            if g is not None and "cbor_callbacks" in (g.get("type") or "") and hasattr(g.get("init_val"), "elems"):
                                return g
                elif ins.callee in prog.funcs and prog.funcs[ins.callee].internal:
                    work.append(ins.callee)
    return prog.global_for(prog.fn("cbor_load"), "cbor_load.callbacks")


def callback_fields(prog):
    """LLVM field index -> declared field name of struct cbor_callbacks"""
    return [m["name"] for m in prog.struct_members("cbor_callbacks")]


def describe_arg(t):
    """abstract description of a callback argument term"""
    width = None
    while isinstance(t, tuple) and t[0] == "cast":
        t = t[3]
    if isinstance(t, tuple) and t[0] == "c":
        return ("const", t[1])
    if isinstance(t, tuple) and t[0] == "op" and t[1] in ("sub", "add"):
        a, b = t[3], t[4]
        ca = a if a[0] == "c" else None
        x = b if ca is not None else a
        c = ca if ca is not None else (b if b[0] == "c" else None)
        while isinstance(x, tuple) and x[0] == "cast":
            x = x[3]
        if c is not None and isinstance(x, tuple) and x[0] == "call":
            bits = 64 if t[2] == "i64" else 32
            cv = c[1]
            if t[1] == "add":
                cv = (-cv) & ((1 << bits) - 1)
            if t[1] == "sub" and ca is not None:
                return ("other", t)
            return ("loader-bias", x[1], x, cv)
    if isinstance(t, tuple) and t[0] == "call":
        return ("loader", t[1], t)
    if isinstance(t, tuple) and t[0] in ("p", "arg"):
        from paths import ptr_key
        b, o = ptr_key(t)
        return ("ptr", b, o)
    if isinstance(t, tuple) and t[0] == "idx":
        # base + constant, however the sum was associated (`source + 1 + extra` with `extra` a constant of the call)
        from paths import linear
        lin = linear(t)
        atoms = [a for a in lin if a != 1]
        if len(atoms) == 1 and lin[atoms[0]] == 1 and isinstance(atoms[0], tuple) and atoms[0][0] == "arg":
            return ("ptr", atoms[0], lin.get(1, 0))
    return ("other", t)


def dispatch(prog, eff):
    """Enumerate every path of cbor_stream_decode (claim_bytes inlined) and
    summarise it.  Returns (outcomes_by_byte, all_outcomes, npaths)."""
    import paths as P
    f = prog.fn("cbor_stream_decode")
    src_i = f.param_index("source")
    size_i = f.param_index("source_size")
    ctx_i = f.param_index("context")
    res_i = 0 if f.params[0].get("sret") else None
    if res_i is None:
        raise AnalysisBroken("cbor_stream_decode: result is not returned through an sret slot")
    import ownership as _O
    import decoder_rules as _DR
    CLAIM = _DR.claim_helper(prog)
    X = P.Executor(prog, eff, inline={CLAIM} | _O.static_callees(prog, eff, "cbor_stream_decode"))
    ps = X.run("cbor_stream_decode")
    fields = callback_fields(prog)
    # field offsets of struct cbor_decoder_result
    ro = {m["name"]: m["offset_bits"] // 8 for m in prog.struct_members("cbor_decoder_result")}
    SRC = ("arg", src_i)
    RES = ("arg", res_i)
    outs = []
    for pa in ps:
        st = pa.st
        o = dict(path=pa, src_i=src_i, size_i=size_i, ctx_i=ctx_i)
        o["status"] = st.load(P.mkptr(RES, ro["status"]), "i32", None)
        o["read"] = st.load(P.mkptr(RES, ro["read"]), "i64", None)
        o["required"] = st.load(P.mkptr(RES, ro["required"]), "i64", None)
        # which initial bytes take this path
        byte_sets = [v for k, v in st.inset.items() if _is_first_byte(k, SRC)]
        excl = [v for k, v in st.nec.items() if _is_first_byte(k, SRC)]
        if byte_sets:
            o["bytes"] = sorted(byte_sets[0])
        elif excl:
            o["bytes"] = sorted(set(range(256)) - set(excl[0]))
        else:
            o["bytes"] = None  # path taken before the switch (first claim failed)
        claims = []
        claimed = 0
        cbs = []
        reads = []
        open_claim = None
        for e in pa.events:
            if e.kind == "enter" and e.callee == CLAIM:
                open_claim = e
            elif e.kind == "leave" and e.callee == CLAIM:
                ok = e.res == ("c", 1)
                amount = e.args[0]
                claims.append(dict(amount=amount, ok=ok, before=claimed, provided=e.args[1], ev=e, nfacts=e.nfacts))
                if ok:
                    claimed = ("sum", claimed, amount) if not (isinstance(claimed, int) and amount[0] == "c") else claimed + amount[1]
                open_claim = None
            elif e.kind == "load" and open_claim is None:
                b, off = P.ptr_key(e.args[0])
                if b == SRC:
                    reads.append(dict(off=off, width=1, claimed=claimed, ev=e, via="load"))
            elif e.kind == "call" and e.ckind == "lib" and open_claim is None:
                # (also inside a unit-internal helper that has been inlined: a loader chosen by a width switch in a helper is still
                # the decoder reading the buffer)
                for k, a in enumerate(e.args):
                    b, off = P.ptr_key(a) if isinstance(a, tuple) else (a, 0)
                    if b == SRC:
                        w = read_extent(prog, e.callee, k)
                        reads.append(dict(off=off, width=w, claimed=claimed, ev=e, via=e.callee))
            elif e.kind == "call" and e.ckind == "callback":
                idx = int(e.callee.split("#")[1])
                cbs.append(dict(field=fields[idx], index=idx, args=e.args, desc=[describe_arg(a) for a in e.args[1:]],
                                ctx_ok=(e.args[0] == ("arg", ctx_i)), claimed=claimed, ev=e))
            elif e.kind == "call" and e.depth == 0 and e.ckind not in ("lib",):
                o.setdefault("other_calls", []).append(e)
        o["claims"], o["callbacks"], o["reads"], o["claimed"] = claims, cbs, reads, claimed
        outs.append(o)
    by_byte = {b: [] for b in range(256)}
    pre = []
    tabs = _const_tables(prog)
    for o in outs:
        if o["bytes"] is None:
            pre.append(o)
        else:
            for b in o["bytes"]:
                ob = _specialise(prog, o, b, tabs)
                if ob is not None:
                    by_byte[b].append(ob)
    return by_byte, pre, outs


def _const_tables(prog):
    """constant integer arrays of the library (lookup tables): name -> list of ints"""
    from ir import Agg, Const
    out = {}
    for name, g in prog.globals.items():
        iv = g.get("init_val")
        if g.get("constant") and isinstance(iv, Agg) and iv.elems and all(isinstance(e, Const) for e in iv.elems):
            out[g["name"]] = [e.v for e in iv.elems]
    return out


def _specialise(prog, o, b, tabs):
    """The outcome of one decoder path for ONE initial byte b of the set that takes it: every term that depends only on the
    initial byte (the dispatch load, a 1-byte loader applied to source+0, a lookup in a constant table indexed by it) is
    folded to its value, and the path is dropped for this byte if one of its conditions is false for b.  A decoder that
    handles a range of heads in one arm (width from a table, value from `head - base`) thereby yields, per byte, the same
    concrete claims, callback arguments and results as one written with an arm per head."""
    import paths as P
    import termeval
    env = {}
    for r in o["reads"]:
        if r["off"] == 0 and r["width"] == 1:
            ev = r["ev"]
            if ev.kind == "load" or (ev.kind == "call" and r["width"] == 1):
                env[ev.res] = ("c", b)
    if not env:
        return o
    memo = {}

    def subst(t):
        if not isinstance(t, tuple):
            return t
        if t in env:
            return env[t]
        return tuple(subst(x) if isinstance(x, tuple) else x for x in t)

    def simp(t):
        """evaluate top-down: a node is folded as a whole while its operand types are still visible (a signed compare needs
        the width its zero-extended operand has), its operands only if the whole cannot be evaluated"""
        if not isinstance(t, tuple) or not t or t[0] == "c":
            return t
        if t in memo:
            return memo[t]
        r = t
        if t[0] in ("op", "cast", "icmp", "sel", "ld", "not", "in", "notin"):
            try:
                r = ("c", int(termeval.evaluate(t, {}, tabs)))
            except Exception:
                r = tuple(simp(x) if isinstance(x, tuple) else x for x in t)
        elif t[0] not in ("call",):
            r = tuple(simp(x) if isinstance(x, tuple) else x for x in t)
        else:
            r = tuple(simp(x) if isinstance(x, tuple) else x for x in t)
        memo[t] = r
        return r

    def fold(t):
        return simp(subst(t))
    changed = False
    for t, truth, _ins in o["path"].facts:
        ft = fold(t)
        if P.is_const(ft):
            if bool(ft[1]) != truth:
                return None          # this byte never takes this path
        elif isinstance(ft, tuple) and ft[0] in ("in", "notin"):
            x = fold(ft[1])
            if P.is_const(x):
                if (x[1] in ft[2]) != (ft[0] == "in") or not truth and False:
                    if truth:
                        return None
    ob = dict(o)
    ob["claims"] = [dict(c, amount=fold(c["amount"]), amount_raw=c["amount"]) for c in o["claims"]]
    ob["callbacks"] = [dict(cb, args=tuple(fold(a) for a in cb["args"]), desc=[describe_arg(fold(a)) for a in cb["args"][1:]]) for cb in o["callbacks"]]
    for k in ("status", "read", "required"):
        if isinstance(o.get(k), tuple):
            ob[k] = fold(o[k])
    def claimed_total(t):
        """the running claim total: an int while every amount is a constant, ('sum', total, amount) otherwise"""
        if isinstance(t, tuple) and t and t[0] == "sum":
            a_, b_ = claimed_total(t[1]), fold(t[2])
            if isinstance(a_, int) and P.is_const(b_):
                return a_ + b_[1]
            return ("sum", a_, b_)
        return t
    if isinstance(o.get("claimed"), tuple):
        ob["claimed"] = claimed_total(o["claimed"])
    ob["reads"] = [dict(r, claimed=claimed_total(r["claimed"])) for r in o["reads"]]
    ob["claims"] = [dict(c, before=claimed_total(c["before"])) for c in ob["claims"]]
    ob["byte"] = b
    return ob


def _is_first_byte(term, SRC):
    t = term
    while isinstance(t, tuple) and t[0] == "cast":
        t = t[3]
    return isinstance(t, tuple) and t[0] == "ld" and t[1] == SRC and t[2] == 0


# Reference action table, written from RFC 8949 §3 / Appendix B and libcbor's
# documented profile - independently of the implementation.
MT_NAMES = {0: "uint", 1: "negint", 2: "byte_string", 3: "string", 4: "array_start", 5: "map_start", 6: "tag"}
ARG_BYTES = {24: 1, 25: 2, 26: 4, 27: 8}


def ref_dispatch(b):
    """returns ('error',) or dict(kind=callback field name, argbytes=N, imm=bool, bias=int, payload=bool, const=...)"""
    mt, ai = b >> 5, b & 31
    if mt in (0, 1):
        if ai < 24:
            return dict(field="%s8" % MT_NAMES[mt], argbytes=0, imm=True, bias=mt << 5)
        if ai in ARG_BYTES:
            n = ARG_BYTES[ai]
            return dict(field="%s%d" % (MT_NAMES[mt], 8 * n), argbytes=n, imm=False)
        return ("error",)
    if mt in (2, 3):
        if ai < 24:
            return dict(field=MT_NAMES[mt], argbytes=0, imm=True, bias=mt << 5, payload=True)
        if ai in ARG_BYTES:
            return dict(field=MT_NAMES[mt], argbytes=ARG_BYTES[ai], imm=False, payload=True)
        if ai == 31:
            return dict(field=MT_NAMES[mt] + "_start", argbytes=0, noarg=True)
        return ("error",)
    if mt in (4, 5):
        if ai < 24:
            return dict(field=MT_NAMES[mt], argbytes=0, imm=True, bias=mt << 5)
        if ai in ARG_BYTES:
            return dict(field=MT_NAMES[mt], argbytes=ARG_BYTES[ai], imm=False)
        if ai == 31:
            return dict(field="indef_" + MT_NAMES[mt], argbytes=0, noarg=True)
        return ("error",)
    if mt == 6:
        if ai < 24:
            return dict(field="tag", argbytes=0, imm=True, bias=mt << 5)
        if ai in ARG_BYTES:
            return dict(field="tag", argbytes=ARG_BYTES[ai], imm=False)
        return ("error",)
    # major type 7
    if ai < 20:
        return ("error",)       # unassigned simple values: not in libcbor's profile
    if ai in (20, 21):
        return dict(field="boolean", argbytes=0, const=ai - 20)
    if ai == 22:
        return dict(field="null", argbytes=0, noarg=True)
    if ai == 23:
        return dict(field="undefined", argbytes=0, noarg=True)
    if ai == 24:
        return ("error",)       # one-byte simple value: unsupported
    if ai == 25:
        return dict(field="float2", argbytes=2, imm=False, float=True)
    if ai == 26:
        return dict(field="float4", argbytes=4, imm=False, float=True)
    if ai == 27:
        return dict(field="float8", argbytes=8, imm=False, float=True)
    if ai == 31:
        return dict(field="indef_break", argbytes=0, noarg=True)
    return ("error",)


# ---------------------------------------------------------------------------
# T-encoders

ENC_INLINE = {"_cbor_encode_uint", "_cbor_encode_uint8", "_cbor_encode_uint16", "_cbor_encode_uint32",
              "_cbor_encode_uint64", "_cbor_encode_byte"}


def byte_of(t):
    """t is the byte (X >> s) & 0xff of some value X: returns (X stripped of casts, s, min width seen) or None"""
    if not (isinstance(t, tuple) and t[0] == "cast" and t[1] == "trunc" and t[2] == "i8"):
        if isinstance(t, tuple) and t[0] == "c":
            return ("const", t[1], 8)
        return None
    x = t[3]
    s = 0
    if isinstance(x, tuple) and x[0] == "op" and x[1] in ("lshr", "ashr") and x[4][0] == "c":
        if x[1] == "ashr":
            inner = x[3]
            if not (isinstance(inner, tuple) and inner[0] == "cast" and inner[1] == "zext"):
                return None  # arithmetic shift of a possibly negative value smears the sign
        s = x[4][1]
        width = int(x[2][1:])
        x = x[3]
    else:
        width = 64
    minw = width
    while isinstance(x, tuple) and x[0] == "cast" and x[1] in ("trunc", "zext"):
        tb = int(x[2][1:]) if x[2].startswith("i") and x[2][1:].isdigit() else 64
        if x[1] == "trunc":
            minw = min(minw, tb)
        x = x[3]
    if s + 8 > minw and not (isinstance(x, tuple) and x[0] == "c"):
        # bits above minw were cut before the shift: the byte is zero/garbage unless the shift stays inside
        return ("cut", x, s, minw)
    return (x, s, minw)


def encoder_paths(prog, eff, fname):
    """all paths of a public encoder with the primitives inlined.
    Each: dict(vlo, vhi, slo, shi, ret, stores={off: term}, path)"""
    import paths as P
    f = prog.fn(fname)
    names = [p["name"] for p in f.params]
    if "buffer" not in names or "buffer_size" not in names:
        raise AnalysisBroken("%s: no buffer/buffer_size parameters" % fname)
    bi, si = names.index("buffer"), names.index("buffer_size")
    vi = 0 if bi != 0 else None
    # everything the encoder delegates to inside the library is followed (whatever the helpers are called)
    inl = set(ENC_INLINE) | {c for c in eff.transitive_callees(fname)
                             if c in prog.funcs and not prog.funcs[c].is_extra and c not in eff.transitive_callees(c)}
    X = P.Executor(prog, eff, inline=inl, loop_bound=16)       # a fixed-count byte loop unrolls into one path
    out = []
    for pa in X.run(fname):
        st = pa.st
        d = dict(path=pa, ret=pa.ret, bi=bi, si=si, vi=vi)
        if vi is not None:
            V = ("arg", vi)
            d["vlo"], d["vhi"] = st.lo.get(V, 0), st.hi.get(V)
        S = ("arg", si)
        d["slo"], d["shi"] = st.lo.get(S, 0), st.hi.get(S, (1 << 64) - 1)
        stores = {}
        bad = []
        for e in pa.events:
            if e.kind == "store":
                b, off = P.ptr_key(e.args[0])
                if b == ("arg", bi):
                    stores[off] = e.args[1]
                elif isinstance(b, tuple) and b[0] == "idx" and P.ptr_key(b[1])[0] == ("arg", bi):
                    # buffer[i] with i known on this path (an unrolled fixed-count loop) is buffer + i
                    lin = P.linear(e.args[0])
                    if set(lin) <= {("arg", bi), 1} and lin.get(("arg", bi)) == 1:
                        stores[lin.get(1, 0)] = e.args[1]
                    else:
                        bad.append(e)
            elif e.kind == "call" and e.callee in ("memcpy", "memset", "memmove") or e.kind in ("memcpy", "memset"):
                db = P.ptr_key(e.args[0])[0]
                if db == ("arg", bi) or (isinstance(db, tuple) and db[0] == "idx"):
                    bad.append(e)
        d["stores"], d["irregular"] = stores, bad
        out.append(d)
    return out


def loader_bytemaps(prog, eff, fname):
    """[{byte offset j: left shift}] - one map per path of an integer loader, from the path's return term.  Understands
    byte assembly by shifts and adds / ors (also in an unrolled fixed-count loop) and, on a little-endian target, a wide
    load followed by a byte swap (or not)."""
    import paths as P
    little = all(m.get("datalayout", "e").startswith("e") for m in prog.facts.get("modules", [])) if prog.facts.get("modules") else True
    X = P.Executor(prog, eff, loop_bound=16)     # a fixed-count assembly loop unrolls into one path
    ps = X.run(fname)
    if not ps:
        raise AnalysisBroken("loader %s has no complete path" % fname)
    maps = []
    for pa in ps:
        widths = {e.res: (P.type_bits(e.ins.type) or 8) // 8 for e in pa.events if e.kind == "load"}
        calls = {e.res: e for e in pa.events if e.kind == "call"}

        def value(t):
            """{byte offset: shift} of integer term t, plus the value's width in bytes (None = unknown)"""
            if t == ("c", 0):
                return {}, None
            if isinstance(t, tuple) and t[0] == "cast":
                m_, w_ = value(t[3])
                if t[1] == "sext" and not (isinstance(t[3], tuple) and t[3][0] == "cast" and t[3][1] == "zext") and \
                        isinstance(t[3], tuple) and t[3][0] == "ld":
                    raise AnalysisBroken("loader %s sign-extends a raw byte" % fname)
                if t[1] == "trunc":
                    nb = (P.type_bits(t[2]) or 64) // 8
                    return {j: sh for j, sh in m_.items() if sh < 8 * nb}, nb
                return m_, (P.type_bits(t[2]) or 64) // 8 if t[1] in ("zext", "sext") else w_
            if isinstance(t, tuple) and t[0] == "op" and t[1] in ("add", "or"):
                a_, wa = value(t[3])
                b_, wb = value(t[4])
                if set(a_) & set(b_):
                    raise AnalysisBroken("loader %s uses byte %d twice" % (fname, sorted(set(a_) & set(b_))[0]))
                a_.update(b_)
                return a_, (P.type_bits(t[2]) or 64) // 8
            if isinstance(t, tuple) and t[0] == "op" and t[1] == "shl" and t[4][0] == "c":
                m_, w_ = value(t[3])
                nb = (P.type_bits(t[2]) or 64) // 8
                return {j: sh + t[4][1] for j, sh in m_.items() if sh + t[4][1] < 8 * nb}, nb
            if isinstance(t, tuple) and t[0] == "ld":
                b_, o_ = P.const_index_key(P.mkptr(t[1], t[2]) if t[2] else t[1])
                if b_ == ("arg", 0):
                    n_ = widths.get(t, 1)
                    if n_ > 1 and not little:
                        return {o_ + j: 8 * (n_ - 1 - j) for j in range(n_)}, n_
                    return {o_ + j: 8 * j for j in range(n_)}, n_
            if isinstance(t, tuple) and t[0] == "call" and t[1].startswith("llvm.bswap.") and t in calls:
                m_, w_ = value(calls[t].args[0])
                nb = int(t[1].split(".i")[-1]) // 8
                return {j: 8 * (nb - 1) - sh for j, sh in m_.items() if sh < 8 * nb}, nb
            raise AnalysisBroken("loader %s: unrecognised term %r" % (fname, t))
        maps.append(value(pa.ret)[0])
    return maps


def loader_bytemap(prog, eff, fname):
    """{byte offset j: left shift} of an integer loader whose paths all agree (see loader_bytemaps)"""
    maps = loader_bytemaps(prog, eff, fname)
    if any(m != maps[0] for m in maps[1:]):
        raise AnalysisBroken("loader %s: its paths assemble different byte maps %s" % (fname, maps))
    return maps[0]


# ---------------------------------------------------------------------------
# what a function establishes about the item it builds (semantic, not name-based)

ITEM_INLINE_PREFIX = ("cbor_new_", "cbor_build_", "cbor_mark_", "cbor_set_")
ITEM_INLINE_EXTRA = ("cbor_bytestring_set_handle",)


def item_inline_set(prog, exclude=()):
    return {n for n in prog.funcs if (n.startswith(ITEM_INLINE_PREFIX) or n in ITEM_INLINE_EXTRA) and n not in exclude}


def describe_item(prog, st, r):
    """fields of the item at term r in state st: type, refcount, int/float width, flavour, data kind, payload"""
    import paths as P
    off = item_offsets(prog)
    d = {}

    def rd(o, ty):
        ptr = P.mkptr(r, o)
        return st.load(ptr, ty, None) if st.is_defined(ptr, 1) else None
    d["type"] = rd(off["type"], "i32")
    d["refcount"] = rd(off["refcount"], "i64")
    d["meta0"] = rd(off["metadata"], "i32")       # int / float width
    d["ctrl"] = rd(off["metadata"] + prog.field_offset("_cbor_float_ctrl_metadata", "ctrl"), "i8")
    d["data"] = rd(off["data"], "i8*")
    data = d["data"]
    d["data_kind"] = None
    if data is not None:
        if data == ("c", 0):
            d["data_kind"] = "null"
        else:
            b, o = P.ptr_key(data)
            if b == P.ptr_key(r)[0]:
                d["data_kind"] = "interior"
                d["payload"] = {}
                for ty in ("i8", "i16", "i32", "i64", "float", "double"):
                    k = (b, o)
                    if k in st.store and st.stype.get(k) == ty:
                        d["payload"][ty] = st.store[k]
            else:
                d["data_kind"] = "other"
    return d


def result_states(prog, eff, fname, at_call=None, loop_bound=1, extra_inline=()):
    """Per path of fname (constructors/setters inlined): the described item that is returned, or - when at_call is
    given - the item passed as argument 0 to that callee, as the callee receives it."""
    import paths as P
    inl = item_inline_set(prog, exclude=(fname,)) | set(extra_inline)
    X = P.Executor(prog, eff, inline=inl, max_paths=2000, loop_bound=loop_bound, snapshot_calls=(at_call,) if at_call else ())
    out = []
    for pa in X.run(fname):
        if at_call:
            for e in pa.events:
                if e.kind == "call" and e.callee == at_call and e.extra and "state" in e.extra:   # (also inside an inlined unit-internal helper)
                    out.append(dict(path=pa, item=e.args[0], desc=describe_item(prog, e.extra["state"], e.args[0]), event=e))
        else:
            r = pa.ret
            if r is None or r == ("c", 0) or not isinstance(r, tuple):
                out.append(dict(path=pa, item=r, desc=None))
            else:
                out.append(dict(path=pa, item=r, desc=describe_item(prog, pa.st, r)))
    return out
