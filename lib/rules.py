"""Small shared helpers used by several property modules."""
from build import AnalysisBroken
from ir import Inst, Arg, Const, Null, GlobalRef, FuncRef, CExpr, strip_casts, apath, const_int
from effects import indirect_kind, ALLOC_GLOBALS


def item_offsets(prog):
    """byte offsets of cbor_item_t fields, from debug info"""
    return {m["name"]: m["offset_bits"] // 8 for m in prog.struct_members("cbor_item_t")}


def alloc_calls(fn, which=None):
    """indirect calls through the allocator pointers in fn: yields (inst, global name)"""
    for i in fn.calls():
        if i.callee is None:
            k, g = indirect_kind(i)
            if k == "alloc" and (which is None or g == which):
                yield i, g


def switch_on(fn, pred):
    """switch instructions in fn whose scrutinee satisfies pred(value)"""
    return [i for i in fn.all_insts() if i.op == "switch" and pred(i.operands[0])]


def switch_cases_reaching(fn, sw, block):
    """set of case values (and 'default') of switch `sw` from whose target `block`
    is reachable without passing through the switch block again"""
    res = set()
    avoid = {sw.block.id}
    targets = {}
    for v, b in sw.cases:
        targets.setdefault(b.id, set()).add(v)
    targets.setdefault(sw.default.id, set()).add("default")
    for bid, vals in targets.items():
        if block.id in fn.reachable_from(fn.bmap[bid], avoid):
            res |= vals
    return res


def field_of(v):
    """v is (integer casts of) a load of a field: returns (base path, byte offset)
    where base path is the canonical access path of the struct pointer, else None"""
    v = strip_casts(v, ("bitcast", "zext", "sext", "trunc"))
    if not (isinstance(v, Inst) and v.op == "load"):
        return None
    root, steps = apath(v.operands[0])
    if steps and steps[-1][0] == "off":
        return ((root, steps[:-1]), steps[-1][1])
    return ((root, steps), 0)


def is_field_load(v, root_pred, offset):
    """v is (casts of) a load of the field at `offset` of some struct pointer whose path root satisfies root_pred"""
    fo = field_of(v)
    return fo is not None and fo[1] == offset and root_pred(fo[0][0])


def ext_refs(prog, lib_only=True):
    """every reference to a symbol that is not defined in the analysed program:
    yields (symbol, kind, where, fn name)   kind: call | address | global-init"""
    defined = set(prog.funcs)
    for f in prog.funcs.values():
        if lib_only and f.is_extra:
            continue
        for i in f.all_insts():
            if i.op == "call" and i.callee is not None and i.callee not in defined:
                yield (i.callee, "call", i.loc(), f.name)
            ops = list(i.operands)
            if i.op == "call" and i.callee is None:
                ops.append(i.callee_val)
            stack = ops
            while stack:
                o = stack.pop()
                if isinstance(o, CExpr):
                    stack.extend(o.operands)
                elif isinstance(o, FuncRef) and o.name not in defined:
                    if not (i.op == "call" and i.callee == o.name):
                        yield (o.name, "address", i.loc(), f.name)
    for gname, g in prog.globals.items():
        if lib_only and not g["unit"].startswith("src/"):
            continue
        iv = g.get("init_val")
        stack = [iv] if iv is not None else []
        while stack:
            o = stack.pop()
            if isinstance(o, CExpr):
                stack.extend(o.operands)
            elif hasattr(o, "elems"):
                stack.extend(o.elems)
            elif isinstance(o, FuncRef) and o.name not in defined:
                yield (o.name, "global-init", "%s (global %s)" % (g["unit"], g["name"]), g["name"])


# libc functions that neither allocate nor release caller-visible memory and
# keep no hidden cross-call state (reentrant); anything else external is
# analysis-broken until classified here with a reason.
PURE_LIBC = set("""memcpy memmove memset memcmp memchr strlen strnlen strcmp strncmp strchr strrchr strstr
 ldexp ldexpf frexp frexpf fabs fabsf floor ceil round trunc fmod sqrt pow log exp isnan isinf
 abs labs llabs __assert_fail abort
 fprintf printf snprintf sprintf vfprintf vsnprintf fputs fputc putc putchar puts fwrite fflush
 __isnan __isnanf __isinf __fpclassify __fpclassifyf __signbit __signbitf
 copysign copysignf copysignl fabsl ldexpl frexpl scalbn scalbnf scalbln scalblnf ilogb ilogbf logb logbf modf modff
 floorf ceilf roundf truncf lround lroundf llround llroundf rint rintf lrint lrintf nearbyint nearbyintf fmodf sqrtf
 fmin fminf fmax fmaxf fdim fdimf nan nanf nextafter nextafterf isfinite isnormal __isinff __finite __finitef
 strnlen memrchr memccpy strncpy strcpy strcat strncat strspn strcspn strpbrk
 bswap_16 bswap_32 bswap_64 htons htonl ntohs ntohl qsort bsearch""".split())
# (pure in the sense of C13/C17: no allocation, no hidden shared state apart from errno / the floating-point
#  environment, which are thread-local; bounds of the string routines are C01's business)
ALLOCATING_LIBC = set("""malloc calloc realloc free reallocarray aligned_alloc posix_memalign memalign valloc pvalloc
 strdup strndup wcsdup asprintf vasprintf getline getdelim open_memstream fmemopen fopen fclose tmpfile
 mmap munmap brk sbrk alloca realpath getcwd""".split())
NON_REENTRANT_LIBC = set("""strtok rand srand setlocale localeconv localtime gmtime ctime asctime strerror getenv
 setenv putenv tmpnam readdir getpwnam getpwuid gethostbyname ttyname strsignal signal atexit exit""".split())


def is_intrinsic(name):
    return name.startswith("llvm.")


def libc_allocator_bypass(prog):
    """references to libc allocation functions from library code other than the three initialisers of the allocator
    pointers: [(symbol, kind, where, function)]"""
    out = []
    for sym, kind, where, fname in ext_refs(prog, lib_only=True):
        if is_intrinsic(sym):
            continue
        if sym in ("malloc", "realloc", "free") and kind == "global-init":
            continue
        if sym in ALLOCATING_LIBC:
            out.append((sym, kind, where, fname))
    return out


def check_no_bypass(chk, rule, prog):
    """shared form of C13.ext for the properties that rely on it (memory safety of free, 'nothing left allocated')"""
    bad = libc_allocator_bypass(prog)
    n = 0
    for sym, kind, where, fname in bad:
        chk.ob(rule, "%s %s in %s" % (kind, sym, fname), False, where, fn=fname, key="%s:%s" % (fname, sym),
               detail="libc %s bypasses the configured allocator: a block of the installed allocator handed to libc free (or a libc block "
                      "handed to the installed free) is a foreign pointer" % sym)
    for sym, kind, where, fname in ext_refs(prog, lib_only=True):
        if not is_intrinsic(sym):
            n += 1
    chk.ob(rule, "no library function calls libc malloc/realloc/free (or another allocating libc routine) directly", not bad, "src/",
           key="bypass:none", detail="" if not bad else str([(b[0], b[3]) for b in bad]))
    chk.floor(rule, "external references examined", n, 8)
