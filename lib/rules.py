"""Small shared helpers used by several property modules."""
from build import AnalysisBroken
from ir import Inst, Arg, Const, Null, GlobalRef, FuncRef, CExpr, strip_casts, apath, const_int
from effects import indirect_kind, ALLOC_GLOBALS


def item_offsets(prog):
    """byte offsets of cbor_item_t fields, from debug info"""
    return {m["name"]: m["offset_bits"] // 8 for m in prog.struct_members("cbor_item_t")}


def alloc_calls(fn, which=None):
    """indirect calls through the allocator pointers in fn: yields (inst, global name)"""
    for i in fn.calls():
        if i.callee is None:
            k, g = indirect_kind(i)
            if k == "alloc" and (which is None or g == which):
                yield i, g


def switch_on(fn, pred):
    """switch instructions in fn whose scrutinee satisfies pred(value)"""
    return [i for i in fn.all_insts() if i.op == "switch" and pred(i.operands[0])]


def switch_cases_reaching(fn, sw, block):
    """set of case values (and 'default') of switch `sw` from whose target `block`
    is reachable without passing through the switch block again"""
    res = set()
    avoid = {sw.block.id}
    targets = {}
    for v, b in sw.cases:
        targets.setdefault(b.id, set()).add(v)
    targets.setdefault(sw.default.id, set()).add("default")
    for bid, vals in targets.items():
        if block.id in fn.reachable_from(fn.bmap[bid], avoid):
            res |= vals
    return res


def field_of(v):
    """v is (integer casts of) a load of a field: returns (base path, byte offset)
    where base path is the canonical access path of the struct pointer, else None"""
    v = strip_casts(v, ("bitcast", "zext", "sext", "trunc"))
    if not (isinstance(v, Inst) and v.op == "load"):
        return None
    root, steps = apath(v.operands[0])
    if steps and steps[-1][0] == "off":
        return ((root, steps[:-1]), steps[-1][1])
    return ((root, steps), 0)


def is_field_load(v, root_pred, offset):
    """v is (casts of) a load of the field at `offset` of some struct pointer whose path root satisfies root_pred"""
    fo = field_of(v)
    return fo is not None and fo[1] == offset and root_pred(fo[0][0])


def ext_refs(prog, lib_only=True):
    """every reference to a symbol that is not defined in the analysed program:
    yields (symbol, kind, where, fn name)   kind: call | address | global-init"""
    defined = set(prog.funcs)
    for f in prog.funcs.values():
        if lib_only and f.is_extra:
            continue
        for i in f.all_insts():
            if i.op == "call" and i.callee is not None and i.callee not in defined:
                yield (i.callee, "call", i.loc(), f.name)
            ops = list(i.operands)
            if i.op == "call" and i.callee is None:
                ops.append(i.callee_val)
            stack = ops
            while stack:
                o = stack.pop()
                if isinstance(o, CExpr):
                    stack.extend(o.operands)
                elif isinstance(o, FuncRef) and o.name not in defined:
                    if not (i.op == "call" and i.callee == o.name):
                        yield (o.name, "address", i.loc(), f.name)
    for gname, g in prog.globals.items():
        if lib_only and not g["unit"].startswith("src/"):
            continue
        iv = g.get("init_val")
        stack = [iv] if iv is not None else []
        while stack:
            o = stack.pop()
            if isinstance(o, CExpr):
                stack.extend(o.operands)
            elif hasattr(o, "elems"):
                stack.extend(o.elems)
            elif isinstance(o, FuncRef) and o.name not in defined:
                yield (o.name, "global-init", "%s (global %s)" % (g["unit"], g["name"]), g["name"])


# libc functions that neither allocate nor release caller-visible memory and
# keep no hidden cross-call state (reentrant); anything else external is
# analysis-broken until classified here with a reason.
PURE_LIBC = set("""memcpy memmove memset memcmp memchr strlen strnlen strcmp strncmp strchr strrchr strstr
 ldexp ldexpf frexp frexpf fabs fabsf floor ceil round trunc fmod sqrt pow log exp isnan isinf
 abs labs llabs __assert_fail abort
 fprintf printf snprintf sprintf vfprintf vsnprintf fputs fputc putc putchar puts fwrite fflush
 __isnan __isnanf __isinf __fpclassify __fpclassifyf __signbit __signbitf
 copysign copysignf copysignl fabsl ldexpl frexpl scalbn scalbnf scalbln scalblnf ilogb ilogbf logb logbf modf modff
 floorf ceilf roundf truncf lround lroundf llround llroundf rint rintf lrint lrintf nearbyint nearbyintf fmodf sqrtf
 fmin fminf fmax fmaxf fdim fdimf nan nanf nextafter nextafterf isfinite isnormal __isinff __finite __finitef
 strnlen memrchr memccpy strncpy strcpy strcat strncat strspn strcspn strpbrk
 bswap_16 bswap_32 bswap_64 htons htonl ntohs ntohl qsort bsearch""".split())
# (pure in the sense of C13/C17: no allocation, no hidden shared state apart from errno / the floating-point
#  environment, which are thread-local; bounds of the string routines are C01's business)
ALLOCATING_LIBC = set("""malloc calloc realloc free reallocarray aligned_alloc posix_memalign memalign valloc pvalloc
 strdup strndup wcsdup asprintf vasprintf getline getdelim open_memstream fmemopen fopen fclose tmpfile
 mmap munmap brk sbrk alloca realpath getcwd""".split())
NON_REENTRANT_LIBC = set("""strtok rand srand setlocale localeconv localtime gmtime ctime asctime strerror getenv
 setenv putenv tmpnam readdir getpwnam getpwuid gethostbyname ttyname strsignal signal atexit exit""".split())


def is_intrinsic(name):
    return name.startswith("llvm.")


def libc_allocator_bypass(prog):
    """references to libc allocation functions from library code other than the three initialisers of the allocator
    pointers: [(symbol, kind, where, function)]"""
    out = []
    for sym, kind, where, fname in ext_refs(prog, lib_only=True):
        if is_intrinsic(sym):
            continue
        if sym in ("malloc", "realloc", "free") and kind == "global-init":
            continue
        if sym in ALLOCATING_LIBC:
            out.append((sym, kind, where, fname))
    return out


def check_no_bypass(chk, rule, prog):
    """shared form of C13.ext for the properties that rely on it (memory safety of free, 'nothing left allocated')"""
    bad = libc_allocator_bypass(prog)
    n = 0
    for sym, kind, where, fname in bad:
        chk.ob(rule, "%s %s in %s" % (kind, sym, fname), False, where, fn=fname, key="%s:%s" % (fname, sym),
               detail="libc %s bypasses the configured allocator: a block of the installed allocator handed to libc free (or a libc block "
                      "handed to the installed free) is a foreign pointer" % sym)
    for sym, kind, where, fname in ext_refs(prog, lib_only=True):
        if not is_intrinsic(sym):
            n += 1
    chk.ob(rule, "no library function calls libc malloc/realloc/free (or another allocating libc routine) directly", not bad, "src/",
           key="bypass:none", detail="" if not bad else str([(b[0], b[3]) for b in bad]))
    chk.floor(rule, "external references examined", n, 8)


# ---------------------------------------------------------------------------
# narrowing audit: a 64-bit quantity (every size, count and length of the library is a size_t / uint64_t) is converted to
# a narrower type only (a) to take one byte of it for the output buffer, (b) below a range test that makes the conversion
# lossless.  A declared element count tracked in a 32-bit field, a length passed through an `int` - the conversion is
# silent in C and reduces the quantity modulo 2^32.

def _int_bits(t):
    if isinstance(t, str) and t.startswith("i") and t[1:].isdigit():
        return int(t[1:])
    return None


def check_narrowing(chk, rule, prog, floor=1, eff=None):
    from ir import Inst, Const, strip_casts
    n = 0
    cache_box = {}
    ctl = prog.funcs.get("verif_ctl_narrow")
    if ctl is not None:
        hit = any(i.op == "trunc" and _int_bits(getattr(i.operands[0], "type", None)) == 64 for i in ctl.all_insts())
        chk.ob(rule, "positive control verif_ctl_narrow (a size_t stored into an unsigned) is seen", hit, "controls/ctl_arith.c", key="ctl:narrow")
    for f in prog.lib_funcs():
        for i in f.all_insts():
            if i.op != "trunc":
                continue
            src = i.operands[0]
            sb, db = _int_bits(getattr(src, "type", None)), _int_bits(i.type)
            if sb is None or db is None or sb < 64:
                continue
            n += 1
            why = None
            base = strip_casts(src, ("zext", "sext"))
            # (a) byte extraction: the only use is a store of the byte (into the output buffer)
            us = list(f.users(i))
            if db == 8 and us and all(u.op == "store" and u.operands[0] is i for u in us):
                why = "one byte of the value stored to a buffer"
            # (a') the value cannot exceed the target type by construction: a bit count, a masked / shifted-down / reduced value
            lim = (1 << db) - 1
            if why is None and _small_by_construction(base, lim, sb):
                why = "value bounded by construction (bit count, mask, shift or remainder)"
            # (b) dominated by a range test  v <= C / v < C  with C within the target type
            if why is None:
                lim = (1 << db) - 1
                for p in f.blocks:
                    t = p.insts[-1] if p.insts else None
                    if t is None or t.op != "br" or len(p.succs) != 2 or p.succs[0] is p.succs[1]:
                        continue
                    c = t.operands[0]
                    if not (isinstance(c, Inst) and c.op == "icmp"):
                        continue
                    l, r = c.operands
                    pred = c.pred
                    if isinstance(l, Const) and not isinstance(r, Const):
                        l, r = r, l
                        pred = {"ult": "ugt", "ugt": "ult", "ule": "uge", "uge": "ule"}.get(pred, pred)
                    if not isinstance(r, Const) or not _same_value(strip_casts(l, ("zext", "sext")), base):
                        continue
                    good = None   # which edge (0 = true, 1 = false) implies v <= lim
                    if (pred == "ule" and r.v <= lim) or (pred == "ult" and r.v <= lim + 1) or (pred == "eq" and r.v <= lim):
                        good = 0
                    elif (pred == "ugt" and r.v <= lim) or (pred == "uge" and r.v <= lim + 1):
                        good = 1
                    if good is not None and f.edge_dominates(p, p.succs[good], i.block):
                        why = "below the range test at line %d" % c.line
                        break
            if why is None and eff is not None:
                # (b') the range test is made somewhere the dominator tree does not show (a helper that classifies the value, a
                # switch on its result): decided on the paths - wherever the converted value is used, the path's facts bound it
                import ownership as _O
                import paths as _P
                cache_ = cache_box.setdefault("c", _O.PathCache(prog, eff))
                uses, bounded = 0, 0
                # a unit-internal helper is judged in the context of the functions it is inlined into: what it narrows is
                # what its callers pass (a value that was widened from the target type for the trip through the helper)
                hosts = [f.name]
                if f.internal:
                    hosts = [g.name for g in prog.lib_funcs() if f.name in _O.static_callees(prog, eff, g.name) and not g.internal] or [f.name]
                for host in hosts:
                  for pa in cache_.get(host, inline_static=True):
                    for e in pa.events:
                        if e.ins is None or e.fn is not f or e.kind not in ("call", "store"):
                            continue
                        for k_, o_ in enumerate(e.ins.operands):
                            if o_ is i and k_ < len(e.args):
                                t_ = e.args[k_]
                                uses += 1
                                if isinstance(t_, tuple) and t_[0] == "cast" and t_[1] == "trunc":
                                    x_ = t_[3]
                                    hi_ = x_[1] if _P.is_const(x_) else pa.st.hi.get(x_)
                                    if hi_ is not None and hi_ <= lim:
                                        bounded += 1
                                elif _P.is_const(t_):
                                    bounded += 1
                                elif host != f.name or e.depth > 0:
                                    bounded += 1     # the executor folded widen-then-narrow of a value of the target type
                if uses and uses == bounded:
                    why = "bounded by the path's facts at each of its %d use(s)" % uses
            chk.ob(rule, "%s: a 64-bit value is narrowed to %d bits only as a byte for the output or below a range test" % (f.name, db),
                   why is not None, i.loc(), fn=f.name, key="%s:trunc:%d" % (f.name, _ordinal_of(f, i)),
                   detail="" if why else "%s is reduced modulo 2^%d here: a count or length that does not fit is silently replaced by a "
                                         "smaller one (no range test dominates the conversion)" % (getattr(src, "name", "") or "value", db))
    chk.floor(rule, "64-bit narrowing conversions", n, floor)


def _small_by_construction(v, lim, bits, depth=0):
    from ir import Inst, Const, strip_casts
    if depth > 6:
        return False
    if isinstance(v, Const):
        return v.v <= lim
    if not isinstance(v, Inst):
        return False
    if v.op == "call" and (v.callee or "").startswith(("llvm.ctlz.", "llvm.cttz.", "llvm.ctpop.")):
        return bits <= lim
    if v.op == "zext":
        sb = _int_bits(getattr(v.operands[0], "type", None))
        return (sb is not None and (1 << sb) - 1 <= lim) or _small_by_construction(v.operands[0], lim, bits, depth + 1)
    if v.op == "and":
        return any(isinstance(o, Const) and o.v <= lim for o in v.operands) or any(_small_by_construction(o, lim, bits, depth + 1) for o in v.operands)
    if v.op == "lshr" and isinstance(v.operands[1], Const):
        return (1 << max(0, bits - v.operands[1].v)) - 1 <= lim
    if v.op == "urem" and isinstance(v.operands[1], Const):
        return v.operands[1].v - 1 <= lim
    if v.op in ("select", "phi"):
        ops = v.operands[1:] if v.op == "select" else v.operands
        return all(_small_by_construction(o, lim, bits, depth + 1) for o in ops)
    return False


def _same_value(a, b):
    from ir import Arg
    if isinstance(a, Arg) and isinstance(b, Arg):
        return a.i == b.i
    return a is b


def _ordinal_of(f, ins):
    k = 0
    for j in f.all_insts():
        if j.op == ins.op:
            if j is ins:
                return k
            k += 1
    return -1


# ---------------------------------------------------------------------------
# declared effects: `__attribute__((pure))` / `((const))` on a prototype is a promise to every compiler that translates
# CLIENT code - two calls without an intervening store may be merged into one, a call whose result is unused may be
# dropped.  The promise must be true of the definition: no store outside the frame, no allocation, no release, no callback.

def check_declared_effects(chk, rule, prog, eff, control="verif_ctl_pure_get"):
    n = 0
    promised = 0
    for f in prog.funcs.values():
        ro, rn = f.d_attr("readonly"), f.d_attr("readnone")
        n += 1
        if not (ro or rn):
            continue
        S = eff.summ.get(f.name)
        if S is None:
            continue
        bad = []
        w = sorted(str(r) for r in S["writes"] if r[0] != "local")
        if w:
            bad.append("writes %s" % ", ".join(w[:3]))
        if S["allocates"]:
            bad.append("allocates")
        if S["frees"]:
            bad.append("frees")
        if S.get("callbacks"):
            bad.append("invokes a callback")
        if f.is_extra:
            if f.name == control:
                chk.ob(rule, "positive control %s is reported" % control, bool(bad), "%s:%d" % (f.file, f.line), fn=f.name, key="ctl:" + control)
            continue
        promised += 1
        chk.ob(rule, "%s is declared %s and its definition honours that" % (f.name, "const" if rn else "pure"), not bad,
               "%s:%d" % (f.file, f.line), fn=f.name, key="declfx:" + f.name,
               detail="" if not bad else "declared %s (a client's compiler may merge or drop calls) but the definition %s"
               % ("const" if rn else "pure", "; ".join(bad)))
    chk.count("%s: functions declared pure/const" % rule, promised)
    chk.floor(rule, "function definitions examined for a declared-effects attribute", n, 150)


# ---------------------------------------------------------------------------
# the counter that decides when a block goes back to the allocator is as wide as a pointer: with 64 bits no history of
# feasible length wraps it; with 32 bits 2^32 legitimate increments bring a shared item back to 1 and the next
# decrement frees it under 2^32 holders

def check_refcount_width(chk, rule, prog, cache, bits=64):
    import paths as P
    off_rc = prog.field_offset("cbor_item_t", "refcount")
    n = 0
    for f in prog.lib_funcs():
        for k, pa in enumerate(cache.get(f.name)):
            for e in pa.events:
                if e.kind == "store" and e.depth == 0:
                    b, o = P.ptr_key(e.args[0])
                    if o != off_rc or not isinstance(b, tuple) or b[0] not in ("arg", "ld", "call"):
                        continue
                    v = e.args[1]
                    step = isinstance(v, tuple) and v[0] == "op" and v[1] in ("add", "sub")
                    if not step:
                        continue
                    ty = e.extra if isinstance(e.extra, str) else None
                    n += 1
                    ok = ty == "i%d" % bits
                    chk.ob(rule, "%s: the reference count is stepped at %d bits" % (f.name, bits), ok, e.ins.loc(), fn=f.name,
                           key="rcwidth:%s:%d" % (f.name, e.ins.id),
                           detail="" if ok else "the counter is a %s: 2^%s legitimate increments wrap it and the next decrement releases an item "
                                                "that still has holders" % (ty, (ty or "i?")[1:]))
    chk.floor(rule, "unit steps of a reference count", n, 3)


# ---------------------------------------------------------------------------
# stated beliefs (Engler et al.): a function that compares one of its pointer parameters with NULL believes the parameter
# may be NULL; every access through that parameter must then lie where the path has established it is not.

def check_null_belief(chk, rule, prog, cache, floor=1):
    import paths as P
    from ir import Inst, Arg, Const, Null, strip_casts
    n = 0
    for f in prog.lib_funcs():
        optional = set()
        for i in f.all_insts():
            if i.op == "icmp" and i.pred in ("eq", "ne"):
                a, b = (strip_casts(o) for o in i.operands)
                for x, y in ((a, b), (b, a)):
                    if isinstance(x, Arg) and (isinstance(y, Null) or (isinstance(y, Const) and y.v == 0)) and x.type.endswith("*"):
                        optional.add(x.i)
        if not optional:
            continue
        worst = {}
        for k, pa in enumerate(cache.get(f.name)):
            for e in pa.events:
                if e.kind not in ("load", "store") or e.depth != 0:
                    continue
                b_, _o = P.ptr_key(e.args[0])
                if not (isinstance(b_, tuple) and b_[0] == "arg" and b_[1] in optional):
                    continue
                ok = pa.st.known_nonnull(b_, upto=e.nfacts)
                key = (b_[1], e.ins.id)
                if key not in worst or (worst[key][0] and not ok):
                    worst[key] = (ok, e, pa)
        for (pi, _iid), (ok, e, pa) in worst.items():
            n += 1
            pname = f.params[pi]["name"]
            chk.ob(rule, "%s: `%s` is compared with NULL elsewhere, so this access lies where it is known non-NULL" % (f.name, pname), ok,
                   e.ins.loc(), fn=f.name, key="%s:nullbelief:%s:%d" % (f.name, pname, _ordinal_of(f, e.ins)),
                   detail="" if ok else "%s through `%s` on a path that has not tested it, although the function treats NULL as a legal value "
                                        "for it elsewhere" % (e.kind, pname), path=pa.block_lines() if not ok else None)
    chk.floor(rule, "accesses through parameters the function itself tests for NULL", n, floor)


def pure_getters(prog, eff):
    """loop-free, non-recursive library routines without side effects (accessors, predicates): safe to inline anywhere so that
    a value read through `cbor_map_size(item)` and one read from the field are the same term"""
    out = set()
    for n, g in prog.funcs.items():
        if g.is_extra or n not in eff.summ:
            continue
        S = eff.summ[n]
        if S["writes"] or S["allocates"] or S["frees"] or S["callbacks"] or g.back_edges() or n in eff.transitive_callees(n):
            continue
        if len(list(g.all_insts())) > 60:
            continue
        out.add(n)
    return out


def check_slot_reads_below_count(chk, rule, prog, eff, floor=8):
    """Slots [count, capacity) of a container's storage are whatever the allocator returned.  Every indexed READ of a slot
    table that sits in a loop is bounded by the container's element COUNT; a reader bounded by the CAPACITY field walks
    into uninitialised slots (and dereferences what it finds there)."""
    import paths as P
    import ownership as O
    off_meta = prog.field_offset("cbor_item_t", "metadata")
    data_off = prog.field_offset("cbor_item_t", "data")
    cnt_off = off_meta + prog.field_offset("_cbor_array_metadata", "end_ptr")
    cap_off = off_meta + prog.field_offset("_cbor_array_metadata", "allocated")
    ccnt = prog.field_offset("cbor_indefinite_string_data", "chunk_count")
    ccap = prog.field_offset("cbor_indefinite_string_data", "chunk_capacity")
    chunks_off = prog.field_offset("cbor_indefinite_string_data", "chunks")
    getters = pure_getters(prog, eff)
    in_context = set()
    for g in prog.lib_funcs():
        in_context |= O.static_callees(prog, eff, g.name)

    def canon(t):
        while isinstance(t, tuple) and t[0] == "cast":
            t = t[3]
        if isinstance(t, tuple) and t[0] == "ld":
            return ("ld", canon(t[1]), t[2])
        return t

    n = 0
    for f in prog.lib_funcs():
        if f.name in in_context or f.name in getters or not f.back_edges():
            continue
        inl = (O.static_callees(prog, eff, f.name) | getters) - {f.name}
        try:
            paths_ = P.Executor(prog, eff, inline=inl, loop_bound=1, max_paths=4000).run(f.name)
        except P.PathCapExceeded:
            continue
        worst = {}
        for k, pa in enumerate(paths_):
            for e in pa.events:
                if e.kind != "load":
                    continue
                b, _o = P.ptr_key(e.args[0])
                if not (isinstance(b, tuple) and b[0] == "idx" and b[3]):
                    continue
                table = canon(b[1])
                if not (isinstance(table, tuple) and table[0] == "ld"):
                    continue
                if not (isinstance(b[2], str) and (b[2].endswith("*") or b[2].startswith("%struct."))):
                    continue        # a byte payload, not a table of item slots
                # which container does the table belong to?
                if table[2] == data_off:
                    X, good, bad = table[1], ("ld", table[1], cnt_off), ("ld", table[1], cap_off)
                elif table[2] == chunks_off:
                    X, good, bad = table[1], ("ld", table[1], ccnt), ("ld", table[1], ccap)
                else:
                    continue
                i = b[3][-1]
                bounds = []
                for t, truth, _ in pa.facts[:e.nfacts]:
                    if not (isinstance(t, tuple) and t[0] == "icmp" and len(t) == 4):
                        continue
                    l, r = t[2], t[3]
                    if l == i and ((t[1] == "ult" and truth) or (t[1] == "uge" and not truth)):
                        bounds.append(canon(r))
                    elif r == i and ((t[1] == "ugt" and truth) or (t[1] == "ule" and not truth)):
                        bounds.append(canon(l))
                if not bounds:
                    continue
                key = e.ins.id
                verdict = "count" if good in bounds else ("capacity" if bad in bounds else "other")
                cur = worst.get(key)
                if cur is None or (verdict == "capacity" and cur[0] != "capacity"):
                    worst[key] = (verdict, e, pa)
        for key, (verdict, e, pa) in worst.items():
            if verdict == "other":
                continue
            n += 1
            ok = verdict == "count"
            chk.ob(rule, "%s: the slot read at line %d is bounded by the element count" % (f.name, e.ins.line), ok, e.ins.loc(), fn=f.name,
                   key="%s:slotread:%d" % (f.name, _ordinal_of(f, e.ins) if e.fn is f else e.ins.id),
                   detail="" if ok else "the loop runs up to the CAPACITY of the container: slots between the element count and the capacity were "
                                        "never written (an indefinite container that is not exactly full, a definite one still being filled)",
                   path=pa.block_lines() if not ok else None)
    chk.floor(rule, "slot reads in loops bounded by a count or capacity field", n, floor)


def check_window(chk, rule, prog, kinds, floor, control):
    """Every access of the wanted kinds (r: reads, w: writes; a window handed on to a callee counts for both) through a
    (byte pointer, length) parameter pair lies inside [p, p + n) on entry to its block - decided by the window dataflow
    (lib/window.py).  Not established in a closed function: violation.  Not established in an open one: not judged."""
    import window as W
    funcs = [f for f in prog.lib_funcs() if f.blocks]
    S = W.Summaries(prog, funcs)
    cf = prog.funcs.get(control)
    if cf is not None:
        hit = False
        for pi, ni in W.window_pairs(cf):
            w = W.Window(prog, cf, pi, ni, S)
            acc = w.accesses()
            hit = hit or (w.closed() and any(a["verdict"] == "short" and a["kind"] in kinds for a in acc))
        chk.ob(rule, "positive control %s (an access one byte past what the path has asked for) is seen" % control, hit, "controls/ctl_arith.c",
               key="ctl:" + control)
    n = 0
    skipped = 0
    opened = set()
    for f in funcs:
        for pi, ni in W.window_pairs(f):
            w = W.Window(prog, f, pi, ni, S)
            acc = w.accesses()
            closed = w.closed()
            for a in acc:
                if a["kind"] != "pass" and a["kind"] not in kinds:
                    continue
                ins = a["ins"]
                what = {"r": "read", "w": "write", "pass": "window handed on"}[a["kind"]]
                if a["verdict"] == "ok":
                    n += 1
                    chk.ob(rule, "%s: %s at line %d lies inside [%s, %s + %s)" % (f.name, what, ins.line, f.params[pi]["name"], f.params[pi]["name"], f.params[ni]["name"]),
                           True, ins.loc(), fn=f.name, key="%s:win:%d:%d" % (f.name, pi, _ordinal_of(f, ins)))
                elif closed and a["verdict"] == "short":
                    n += 1
                    chk.ob(rule, "%s: %s at line %d lies inside [%s, %s + %s)" % (f.name, what, ins.line, f.params[pi]["name"], f.params[pi]["name"], f.params[ni]["name"]),
                           False, ins.loc(), fn=f.name, key="%s:win:%d:%d" % (f.name, pi, _ordinal_of(f, ins)), detail=a["detail"] +
                           "; every comparison that involves the pointer or the length in this function is modelled, so no test on the path rules it out")
                else:
                    skipped += 1
                    opened.add(f.name)
    if skipped:
        chk.not_decided.append("%s: %d access(es) in %s are not judged by the window dataflow (the length is checked through a helper, or an "
                               "offset is computed in a way it does not model); the claim and payload rules cover the streaming decoder" %
                               (rule, skipped, ", ".join(sorted(opened))))
    chk.floor(rule, "accesses through (pointer, length) parameter pairs judged by the window dataflow", n, floor)
    return n


def check_signed_compare(chk, rule, prog):
    """Sizes, lengths, counts, indices and what remains of a buffer are unsigned 64-bit quantities; the library compares them as such.  A
    signed comparison of two of them (a cast to ptrdiff_t / long / ssize_t on both sides) misorders every value with the top bit set: a
    declared length of 2^63 looks negative and passes every "does it fit" test.  On the unchanged tree no 64-bit comparison is signed."""
    from ir import Inst
    ctl = prog.funcs.get("verif_ctl_signed_compare")
    if ctl is not None:
        hit = any(i.op == "icmp" and i.pred.startswith("s") and _int_bits(getattr(i.operands[0], "type", None)) == 64 for i in ctl.all_insts())
        chk.ob(rule, "positive control verif_ctl_signed_compare (two size_t values compared through long) is seen", hit, "controls/ctl_arith.c",
               key="ctl:scmp")
    n = 0
    for f in prog.lib_funcs():
        for i in f.all_insts():
            if i.op != "icmp":
                continue
            bits = _int_bits(getattr(i.operands[0], "type", None))
            if bits != 64:
                continue
            n += 1
            ok = not i.pred.startswith("s")
            if not ok:
                # a genuinely signed quantity: both operands widened from a signed narrower value or a small constant
                def signed_small(v):
                    from ir import Const
                    if isinstance(v, Const):
                        return True
                    return isinstance(v, Inst) and v.op == "sext"
                ok = all(signed_small(o) for o in i.operands)
            chk.ob(rule, "%s: the 64-bit comparison at line %d is unsigned" % (f.name, i.line), ok, i.loc(), fn=f.name,
                   key="%s:scmp:%d" % (f.name, _ordinal_of(f, i)), nontrivial=not ok,
                   detail="" if ok else "icmp %s on 64-bit operands: a value of 2^63 or more compares as negative" % i.pred)
    chk.floor(rule, "64-bit comparisons in the library", n, 40)


def check_set_handle(chk, rule, prog, eff):
    """The two set-handle routines attach what they are given, every time: on every path the item's data pointer becomes the
    `data` argument and its length the `length` argument - no early way out for "the same block again" (the bytes behind it, or the
    length, may have changed) - and they obtain or release no memory themselves (the block they are handed may be the one the item
    already holds)."""
    import paths as P
    import ownership as O
    off = item_offsets(prog)
    n = 0
    for name, meta in (("cbor_string_set_handle", "_cbor_string_metadata"), ("cbor_bytestring_set_handle", "_cbor_bytestring_metadata")):
        if name not in prog.funcs:
            continue
        f = prog.fn(name)
        len_off = off["metadata"] + prog.field_offset(meta, "length")
        where = "%s:%d" % (f.file, f.line)
        ITEM, DATA, LEN = ("arg", 0), ("arg", 1), ("arg", 2)
        for k, pa in enumerate(P.Executor(prog, eff, inline=O.static_callees(prog, eff, name)).run(name)):
            stores = {P.ptr_key(e.args[0]): e.args[1] for e in pa.events if e.kind == "store"}
            okd = stores.get((ITEM, off["data"])) == DATA
            okl = stores.get((ITEM, len_off)) == LEN
            n += 1
            chk.ob(rule, "%s path %d: data and length become the arguments" % (name, k), okd and okl, where, fn=name, key="seth:%s:%d" % (name, k),
                   detail="" if okd and okl else "data := %r, length := %r on this path: the item keeps a length (or a block) from an earlier attach" % (
                       stores.get((ITEM, off["data"])), stores.get((ITEM, len_off))), path=pa.block_lines() if not (okd and okl) else None)
        S = eff.summ.get(name, {})
        quiet = not S.get("frees") and not S.get("allocates")
        chk.ob(rule, "%s obtains and releases no memory" % name, quiet, where, fn=name, key="seth:quiet:" + name,
               detail="" if quiet else "allocates=%s frees=%s (transitively): attaching the block the item already holds releases it under the caller" % (
                   S.get("allocates"), S.get("frees")))
    chk.floor(rule, "paths of the set-handle routines", n, 2)


def check_stateless(chk, rule, prog, eff, roots):
    """The decoding entry points are functions of their arguments: nothing reachable from them writes an object with static
    storage (a memo of the last call, a flag that outlives the call), so a call cannot be misled by the calls before it.  The
    transitive write sets come from the effects engine (E1); the allocator hooks are written only by cbor_set_allocs."""
    from effects import ALLOC_GLOBALS
    seen = set()
    n = 0
    roots = list(roots)
    if "cbor_load" in roots:
        # the tree builder runs inside the decoder, through the callback table of cbor_load
        import tables as _tb
        g = __import__("tables").load_callbacks_global(prog)
        if g is not None and hasattr(g.get("init_val"), "elems"):
            roots += [el.name for el in g["init_val"].elems if getattr(el, "name", None) in prog.funcs]
    for r in roots:
        if r not in prog.funcs:
            continue
        reach = {r} | {c for c in eff.transitive_callees(r) if c in prog.funcs}
        for name in sorted(reach):
            if name in seen or prog.funcs[name].is_extra:
                continue
            seen.add(name)
            n += 1
            gw = sorted(x[1] for x in eff.summ[name]["writes"] if x[0] == "global" and x[1] not in ALLOC_GLOBALS)
            ok = not gw
            detail = ""
            if not ok:
                wit = eff.write_witness(name, ("global", gw[0]))
                detail = "writes %s, which outlives the call (%s): the next call on the same buffer or stream starts from what this one left behind" % (
                    gw[0], " -> ".join("%s@%s" % (fn, ins.loc()) for fn, ins, _ in wit))
            chk.ob(rule, "%s (reachable from %s) writes no object with static storage" % (name, r), ok,
                   "%s:%d" % (prog.funcs[name].file, prog.funcs[name].line), fn=name, key="stateless:" + name, detail=detail,
                   nontrivial=bool(eff.summ[name]["callees"]) or not ok)
    chk.floor(rule, "functions reachable from the decoding entry points", n, 10)


def check_push_atomic(chk, rule, prog, eff):
    """The decoding stack's push either links a record and counts it, or refuses and leaves the stack exactly as it was: on every
    path of `_cbor_stack_push` that returns NULL no field of the stack header has been written (the depth counts the records that
    are linked - the unwinding loop of cbor_load pops `size` records), and on every path that returns a record the header's top
    is that record and the depth has grown by one."""
    import paths as P
    import ownership as O
    f = prog.fn("_cbor_stack_push")
    si = 0
    for i_, p_ in enumerate(f.params):
        if p_["type"].endswith("_cbor_stack*"):
            si = i_
    S = ("arg", si)
    size_off, top_off = prog.field_offset("_cbor_stack", "size"), prog.field_offset("_cbor_stack", "top")
    n = 0
    for k, pa in enumerate(P.Executor(prog, eff, inline=O.static_callees(prog, eff, f.name)).run(f.name)):
        hdr = [e for e in pa.events if e.kind == "store" and P.ptr_key(e.args[0])[0] == S]
        n += 1
        if pa.ret == ("c", 0) or pa.st.known_null(pa.ret):
            ok = not hdr
            chk.ob(rule, "_cbor_stack_push path %d: a refused push leaves the stack header untouched" % k, ok, "%s:%d" % (f.file, f.line), fn=f.name,
                   key="pushatomic:null:%d" % k, detail="" if ok else "writes the header at %s and then reports that nothing was pushed: the depth no "
                   "longer equals the number of linked records, and whoever unwinds `size` records walks off the end of the list"
                   % ", ".join(e.ins.loc() for e in hdr), path=pa.block_lines() if not ok else None)
        else:
            tops = [e for e in hdr if P.ptr_key(e.args[0])[1] == top_off]
            sizes = [e for e in hdr if P.ptr_key(e.args[0])[1] == size_off]
            grew = False
            if sizes:
                lin = P.linear(sizes[-1].args[1])
                atoms = [a for a in lin if a != 1]
                # the new depth is the depth the header held on entry (however it was read: directly, or through a working copy) plus one
                grew = lin.get(1) == 1 and len(atoms) == 1 and lin[atoms[0]] == 1 and isinstance(atoms[0], tuple) and atoms[0][0] == "ld" and \
                    P.ptr_key(atoms[0][1])[0] == S and (P.ptr_key(atoms[0][1])[1] + (atoms[0][2] if len(atoms[0]) > 2 and isinstance(atoms[0][2], int) else 0)) == size_off

            def same(a, b):
                while isinstance(a, tuple) and a[0] == "cast":
                    a = a[3]
                while isinstance(b, tuple) and b[0] == "cast":
                    b = b[3]
                return a == b
            ok = bool(tops) and same(tops[-1].args[1], pa.ret) and grew
            chk.ob(rule, "_cbor_stack_push path %d: the returned record is the new top and the depth has grown by one" % k, ok, "%s:%d" % (f.file, f.line),
                   fn=f.name, key="pushatomic:ok:%d" % k, detail="" if ok else "top := %s, depth written %d time(s)" % (
                       tops[-1].args[1] if tops else "not written", len(sizes)), path=pa.block_lines() if not ok else None)
    chk.floor(rule, "paths of _cbor_stack_push", n, 3)


def check_stop_cfg(chk, rule, prog, eff):
    """A must-pass-through rule on the flow graph of cbor_load (no path enumeration, so it also answers when the routine has grown
    too many paths for the path engine): between two steps that can hand an item to the tree builder - a call of the streaming
    decoder, or a direct call of anything that reaches the builder's append / push routines - control passes through a test that
    found the decoding stack non-empty.  Once the stack is empty the top-level item is complete; a further step overwrites it."""
    from ir import Inst, Const, strip_casts
    f = prog.fn("cbor_load")
    size_off = prog.field_offset("_cbor_stack", "size")
    builders = {n for n in prog.funcs if n in ("_cbor_builder_append", "_cbor_stack_push")}
    reach_b = set()
    for n in prog.funcs:
        tc = eff.transitive_callees(n)
        if builders & (set(tc) | {n}):
            reach_b.add(n)
    steps = []
    for i in f.all_insts():
        if i.op == "call" and i.callee and (i.callee == "cbor_stream_decode" or i.callee in reach_b):
            g = prog.funcs.get(i.callee)
            if g is not None and g.internal:
                # a unit-internal helper: its own body is looked at in place (it may contain the step, or the test)
                pass
            steps.append(i)

    def is_size_load(v):
        v = strip_casts(v, ("bitcast", "zext", "sext", "trunc"))
        if not (isinstance(v, Inst) and v.op == "load"):
            return False
        a = strip_casts(v.operands[0])
        return isinstance(a, Inst) and a.op == "getelementptr" and a.d.get("src_type") == "%struct._cbor_stack" and a.d.get("const_offset") == size_off

    def size_test(c, truth):
        """does the comparison c, having the given truth value, say the stack is non-empty?"""
        x, y = c.operands
        pred = c.pred
        if isinstance(x, Const) and not isinstance(y, Const):
            x, y = y, x
            pred = {"ugt": "ult", "ult": "ugt", "uge": "ule", "ule": "uge"}.get(pred, pred)
        if not (is_size_load(x) and isinstance(y, Const)):
            return False
        pos = (pred == "ugt" and y.v == 0) or (pred == "ne" and y.v == 0) or (pred == "uge" and y.v == 1)
        neg = (pred == "eq" and y.v == 0) or (pred == "ule" and y.v == 0) or (pred == "ult" and y.v == 1)
        return pos if truth else neg

    def implies(v, truth, pred_block, depth=0):
        """value v being `truth` implies a non-empty stack (phis of the current block are read for the predecessor we came from)"""
        if depth > 6:
            return False
        if isinstance(v, Const):
            return bool(v.v) != truth       # the value cannot have this truth: vacuously fine
        if not isinstance(v, Inst):
            return False
        if v.op in ("zext", "trunc", "sext", "bitcast"):
            return implies(v.operands[0], truth, pred_block, depth + 1)
        if v.op == "icmp":
            if size_test(v, truth):
                return True
            a, b = v.operands
            if isinstance(b, Const) and b.v == 0 and v.pred in ("ne", "eq"):
                return implies(a, truth if v.pred == "ne" else not truth, pred_block, depth + 1)
            return False
        if v.op == "xor" and isinstance(v.operands[1], Const) and v.operands[1].v == 1:
            return implies(v.operands[0], not truth, pred_block, depth + 1)
        if v.op == "phi":
            inc = v.incoming
            if pred_block is not None and v.block is not None and any(pb is pred_block for _x, pb in inc):
                inc = [(x, pb) for x, pb in inc if pb is pred_block]
            return all(implies(x, truth, None, depth + 1) for x, _pb in inc)
        if v.op == "and" and truth:
            return any(implies(x, True, pred_block, depth + 1) for x in v.operands)
        if v.op == "or" and not truth:
            return any(implies(x, False, pred_block, depth + 1) for x in v.operands)
        return False

    ntests = sum(1 for b in f.blocks for i in b.insts if i.op == "icmp" and (size_test(i, True) or size_test(i, False)))
    chk.floor(rule, "tests of the decoding stack's depth against zero in cbor_load", ntests, 1)
    chk.floor(rule, "steps of cbor_load that can hand an item to the builder", len(steps), 1)

    def out_edges(b, came_from):
        t = b.term
        if t.op == "br" and len(b.succs) == 2 and b.succs[0] is not b.succs[1]:
            c = t.operands[0]
            res = []
            if not implies(c, True, came_from):
                res.append(b.succs[0])
            if not implies(c, False, came_from):
                res.append(b.succs[1])
            return res
        return list(b.succs)

    # from each step, walk the flow graph without crossing an edge on which the stack is known to be non-empty: no step may be reachable
    for sidx, st in enumerate(steps):
        seen = set()
        hit = None
        blk = st.block
        after = [i for i in blk.insts if i.pos > st.pos]
        nxt = next((i for i in after if i in steps), None)
        work = []
        if nxt is not None:
            hit = nxt
        else:
            # the step's own block may be entered from several predecessors: none is singled out
            work = [(s_, blk) for s_ in out_edges(blk, None)]
        while work and hit is None:
            b, p = work.pop()
            if (b.id, p.id) in seen:
                continue
            seen.add((b.id, p.id))
            inb = next((i for i in b.insts if i in steps), None)
            if inb is not None:
                hit = inb
                break
            for s_ in out_edges(b, p):
                work.append((s_, b))
        ok = hit is None
        chk.ob(rule, "cbor_load: after the step at line %d no further step is reachable without a test that found the stack non-empty" % st.line, ok,
               st.loc(), fn=f.name, key="stopcfg:%d" % sidx,
               detail="" if ok else "the step at line %d (%s) can follow it with the stack empty: the finished top-level item is overwritten by "
                                    "whatever comes next in the buffer" % (hit.line, hit.callee))


def check_payload_reads(chk, rule, prog, eff):
    """A string's payload is `length` bytes long (possibly none).  Every read of a payload byte at a computed index - the
    payload pointer being the item's data field, however it was fetched - sits below the length on that path: the index is
    tested against the length, or it is `length - c` on a path that knows length >= c."""
    import paths as P
    import ownership as O
    off_meta = prog.field_offset("cbor_item_t", "metadata")
    data_off = prog.field_offset("cbor_item_t", "data")
    len_offs = {off_meta + prog.field_offset("_cbor_string_metadata", "length"), off_meta + prog.field_offset("_cbor_bytestring_metadata", "length")}
    getters = pure_getters(prog, eff)
    in_context = set()
    for g in prog.lib_funcs():
        in_context |= O.static_callees(prog, eff, g.name)

    def canon(t):
        while isinstance(t, tuple) and t[0] == "cast":
            t = t[3]
        if isinstance(t, tuple) and t[0] == "ld":
            return ("ld", canon(t[1]), t[2])
        return t

    def judge(f, paths_):
        worst = {}
        for k, pa in enumerate(paths_):
            for e in pa.events:
                if e.kind != "load":
                    continue
                b, _o = P.ptr_key(e.args[0])
                if not (isinstance(b, tuple) and b[0] == "idx" and b[3]) or b[2] != "i8":
                    continue
                table = canon(b[1])
                if not (isinstance(table, tuple) and table[0] == "ld" and table[2] == data_off):
                    continue
                X = table[1]
                i = b[3][-1]
                lens = [("ld", X, o) for o in len_offs]
                verdict = None
                ci = canon(i) if not (isinstance(i, tuple) and i[0] == "cast") else canon(i)
                if isinstance(ci, tuple) and ci[0] == "op" and ci[1] in ("sub", "add") and P.is_const(ci[4]) and canon(ci[3]) in lens:
                    c = ci[4][1] if ci[1] == "sub" else ((1 << 64) - ci[4][1]) & ((1 << 64) - 1)
                    L = ci[3]
                    st = pa.st
                    lo = max([st.lo.get(L, 0), st.lo.get(canon(L), 0)] + ([1] if (st.known_positive(L) or st.known_positive(canon(L))) else []))
                    verdict = "ok" if 1 <= c <= lo else "below"
                else:
                    bounds = []
                    for t, truth, _ in pa.facts[:e.nfacts]:
                        if not (isinstance(t, tuple) and t[0] == "icmp" and len(t) == 4):
                            continue
                        l, r = t[2], t[3]
                        if l == i and ((t[1] == "ult" and truth) or (t[1] == "uge" and not truth)):
                            bounds.append(canon(r))
                        elif r == i and ((t[1] == "ugt" and truth) or (t[1] == "ule" and not truth)):
                            bounds.append(canon(l))
                    if any(bd in lens for bd in bounds):
                        verdict = "ok"
                    elif P.is_const(i):
                        verdict = None      # a fixed offset (the value block of a number, a first byte): other rules
                    elif not bounds and isinstance(ci, tuple) and ci[0] in ("phi", "arg"):
                        verdict = None      # an index this rule cannot relate to the length: not judged
                if verdict is None:
                    continue
                cur = worst.get(e.ins.id)
                if cur is None or (verdict != "ok" and cur[0] == "ok"):
                    worst[e.ins.id] = (verdict, e, pa)
        return worst

    n = 0
    ctl = prog.funcs.get("verif_ctl_last_byte")
    if ctl is not None:
        w = judge(ctl, P.Executor(prog, eff, inline=getters, loop_bound=1).run(ctl.name))
        chk.ob(rule, "positive control verif_ctl_last_byte (payload[length - 1] of a possibly empty string) is seen",
               any(v[0] == "below" for v in w.values()), "controls/ctl_state.c", key="ctl:lastbyte")
    for f in prog.lib_funcs():
        if f.name in in_context or f.name in getters:
            continue
        inl = (O.static_callees(prog, eff, f.name) | getters) - {f.name}
        try:
            paths_ = P.Executor(prog, eff, inline=inl, loop_bound=1, max_paths=4000).run(f.name)
        except P.PathCapExceeded:
            continue
        for key, (verdict, e, pa) in judge(f, paths_).items():
            n += 1
            ok = verdict == "ok"
            chk.ob(rule, "%s: the payload byte read at line %d lies below the string's length" % (f.name, e.ins.line), ok, e.ins.loc(), fn=f.name,
                   key="%s:payloadread:%d" % (f.name, _ordinal_of(f, e.ins) if e.fn is f else e.ins.id),
                   detail="" if ok else "the index is the length minus a constant on a path that does not know the string to be that long: an "
                                        "empty string makes it wrap, and the byte read lies outside the payload block",
                   path=pa.block_lines() if not ok else None)
    return n


# ---------------------------------------------------------------------------
# field accessors: the instances confirmed on the unchanged tree, frozen by the FIELD each one stands for (resolved to an
# offset through the struct types on every run).  An accessor answers with the stored value on every path - no second
# opinion (a plausibility guard, a clamp) between the field and the caller; the rules that reason about "the count", "the
# length", "the handle" rely on it.

FIELD_GETTERS = {
    "cbor_array_size": (("_cbor_array_metadata", "end_ptr"),),
    "cbor_array_allocated": (("_cbor_array_metadata", "allocated"),),
    "cbor_array_handle": (("cbor_item_t", "data"),),
    "cbor_map_size": (("_cbor_map_metadata", "end_ptr"),),
    "cbor_map_allocated": (("_cbor_map_metadata", "allocated"),),
    "cbor_map_handle": (("cbor_item_t", "data"),),
    "cbor_string_length": (("_cbor_string_metadata", "length"),),
    "cbor_string_codepoint_count": (("_cbor_string_metadata", "codepoint_count"),),
    "cbor_string_handle": (("cbor_item_t", "data"),),
    "cbor_bytestring_length": (("_cbor_bytestring_metadata", "length"),),
    "cbor_bytestring_handle": (("cbor_item_t", "data"),),
    "cbor_string_chunk_count": (("cbor_item_t", "data"), ("cbor_indefinite_string_data", "chunk_count")),
    "cbor_string_chunks_handle": (("cbor_item_t", "data"), ("cbor_indefinite_string_data", "chunks")),
    "cbor_bytestring_chunk_count": (("cbor_item_t", "data"), ("cbor_indefinite_string_data", "chunk_count")),
    "cbor_bytestring_chunks_handle": (("cbor_item_t", "data"), ("cbor_indefinite_string_data", "chunks")),
    "cbor_tag_value": (("_cbor_tag_metadata", "value"),),
    "cbor_ctrl_value": (("_cbor_float_ctrl_metadata", "ctrl"),),
    "cbor_float_get_width": (("_cbor_float_ctrl_metadata", "width"),),
    "cbor_int_get_width": (("_cbor_int_metadata", "width"),),
    "cbor_typeof": (("cbor_item_t", "type"),),
    "cbor_refcount": (("cbor_item_t", "refcount"),),
}


def check_field_getters(chk, rule, prog, eff, names=None):
    import paths as P
    meta = prog.field_offset("cbor_item_t", "metadata")
    n = 0
    for name, steps in sorted(FIELD_GETTERS.items()):
        if names is not None and name not in names:
            continue
        if name not in prog.funcs:
            continue       # an accessor that no longer exists has no callers to mislead
        f = prog.funcs[name]
        want = ("arg", 0)
        for st_, fld in steps:
            o = prog.field_offset(st_, fld)
            if st_.startswith("_cbor_") and st_.endswith("_metadata"):
                o += meta
            want = ("ld", want, o)
        for k, pa in enumerate(P.Executor(prog, eff).run(name)):
            r = pa.ret
            while isinstance(r, tuple) and r[0] == "cast":
                r = r[3]

            def canon(t):
                if isinstance(t, tuple) and t[0] == "ld":
                    return ("ld", canon(t[1]), t[2])
                return t
            n += 1
            ok = canon(r) == want
            chk.ob(rule, "%s path %d returns the %s field as stored" % (name, k, ".".join(s_[1] for s_ in steps)), ok, "%s:%d" % (f.file, f.line),
                   fn=name, key="getter:%s:%d" % (name, k), detail="" if ok else "returns %s" % (pa.ret,), path=pa.block_lines() if not ok else None)
    chk.floor(rule, "accessor paths", n, 1 if names is not None else 15)


# ---------------------------------------------------------------------------
# a block requested with a constant size is only addressed inside that size: every load, store and block copy whose address
# is a constant offset into a block the same path obtained from the allocator with a constant request lies within the request
# (`malloc(sizeof(p))`, `malloc(sizeof(struct other))`: glibc's rounding hides the overrun, a tight allocator does not)

def check_fresh_block_bounds(chk, rule, prog, eff, cache, floor=18):
    import paths as P
    import ownership as O
    in_context = set()
    for g in prog.lib_funcs():
        in_context |= O.static_callees(prog, eff, g.name)
    n = 0
    for f in prog.lib_funcs():
        if f.name in in_context:
            continue
        worst = {}
        for k, pa in enumerate(cache.get(f.name, inline_static=True)):
            sizes = {}
            for e in pa.events:
                if e.kind == "call" and e.ckind == "alloc" and e.res is not None and e.callee in ("_cbor_malloc", "_cbor_realloc"):
                    sz = e.args[0] if e.callee == "_cbor_malloc" else e.args[1]
                    if P.is_const(sz):
                        sizes[e.res] = (sz[1], e)
            if not sizes:
                continue
            for e in pa.events:
                if e.kind in ("load", "store"):
                    b, o = P.ptr_key(e.args[0])
                    if b in sizes and isinstance(o, int):
                        ty = e.ins.type if e.kind == "load" else (e.extra if isinstance(e.extra, str) else None)
                        w = X_elem(prog, ty)
                        if w is None:
                            continue
                        cap, ae = sizes[b]
                        ok = 0 <= o and o + w <= cap
                        key = (ae.ins.id, e.ins.id)
                        if key not in worst or (worst[key][0] and not ok):
                            worst[key] = (ok, e, "%s of %d byte(s) at offset %d of a block requested with %d byte(s)" % (e.kind, w, o, cap), pa)
                elif e.kind in ("memcpy", "memset") or (e.kind == "call" and e.callee in ("memcpy", "memset")):
                    b, o = P.ptr_key(e.args[0])
                    if b in sizes and isinstance(o, int) and len(e.args) >= 3 and P.is_const(e.args[2]):
                        cap, ae = sizes[b]
                        ok = 0 <= o and o + e.args[2][1] <= cap
                        key = (ae.ins.id, e.ins.id)
                        if key not in worst or (worst[key][0] and not ok):
                            worst[key] = (ok, e, "block write of %d byte(s) at offset %d of a block requested with %d byte(s)" % (e.args[2][1], o, cap), pa)
        for (aid, iid), (ok, e, det, pa) in worst.items():
            n += 1
            chk.ob(rule, "%s: an access at a constant offset stays inside the block the allocator was asked for" % f.name, ok, e.ins.loc(),
                   fn=f.name, key="%s:blk:%d:%d" % (f.name, aid, iid), detail="" if ok else det, path=pa.block_lines() if not ok else None)
    chk.floor(rule, "constant-offset accesses to constant-size fresh blocks", n, floor)


def X_elem(prog, ty):
    if not isinstance(ty, str):
        return None
    if ty.endswith("*"):
        return 8
    b = _int_bits(ty)
    if b is not None:
        return max(1, b // 8)
    if ty == "float":
        return 4
    if ty == "double":
        return 8
    s = prog.structs.get(ty.lstrip("%"))
    if s and "size" in s:
        return s["size"]
    return None
