"""Canonical-loop recogniser (C01 rule 5a).  A loop the recogniser does not know
is analysis-broken (cannot decide), never a violation; a recognised counting
loop whose induction variable is not advanced on some path through the body is
a violation."""
from build import AnalysisBroken
from ir import Inst, Arg, Const, strip_casts


def _shift_up(f, hdr, body, phis, tests):
    """normalisation loop `while ((v & BIT) == 0) v <<= 1`: terminates within log2(BIT) iterations when v enters the loop
    non-zero and without bits above BIT (v = x & M with M < 2*BIT, and a dominating test v != 0).
    Returns (ok, detail) - ok None when the entry conditions cannot be established - or None when the loop is not of this shape."""
    for phi in phis:
        inside = [(v, pb) for v, pb in phi.incoming if pb.id in body]
        outside = [(v, pb) for v, pb in phi.incoming if pb.id not in body]
        if not inside or len(outside) != 1:
            continue
        if not all(isinstance(v, Inst) and v.op == "shl" and v.operands[0] is phi and isinstance(v.operands[1], Const) and v.operands[1].v >= 1
                   for v, _ in inside):
            continue
        bit = None
        for tb in tests:
            c = tb.term.operands[0]
            if isinstance(c, Inst) and c.op == "icmp" and c.pred in ("eq", "ne") and isinstance(c.operands[1], Const) and c.operands[1].v == 0:
                a = c.operands[0]
                if isinstance(a, Inst) and a.op == "and" and isinstance(a.operands[1], Const) and a.operands[0] is phi:
                    m = a.operands[1].v
                    # the loop continues while the bit is clear
                    cont = tb.succs[0] if c.pred == "eq" else tb.succs[1]
                    if m and m & (m - 1) == 0 and cont.id in body:
                        bit = m
        if bit is None:
            continue
        v0, pre = outside[0]
        base = strip_casts(v0, ("zext", "sext", "trunc"))
        bounded = isinstance(base, Inst) and base.op == "and" and isinstance(base.operands[1], Const) and base.operands[1].v < 2 * bit
        nonzero = False
        for p in f.blocks:
            t = p.insts[-1] if p.insts else None
            if t is None or t.op != "br" or len(p.succs) != 2:
                continue
            c = t.operands[0]
            if isinstance(c, Inst) and c.op == "icmp" and c.pred in ("eq", "ne") and isinstance(c.operands[1], Const) and c.operands[1].v == 0 \
                    and strip_casts(c.operands[0], ("zext", "sext", "trunc")) is base:
                edge = p.succs[1] if c.pred == "eq" else p.succs[0]
                if f.edge_dominates(p, edge, hdr):
                    nonzero = True
        if bounded and nonzero:
            return True, "the value enters non-zero and below 2*0x%x: its leading one reaches bit 0x%x within %d shifts" % (bit, bit, bit.bit_length())
        return None, "shift-up loop on %s: cannot establish that it enters non-zero (%s) and without bits above the tested one (%s)" % (
            phi.name or "phi", nonzero, bounded)
    return None


def classify_loops(prog, f):
    """returns list of dict(header, kind, ok, detail, where)"""
    out = []
    loops = f.loops()
    for hid, body in loops.items():
        hdr = f.bmap[hid]
        latches = [b for b in hdr.preds if b.id in body]
        where = hdr.insts[0].loc() if hdr.insts else f.file
        phis = [i for i in hdr.insts if i.op == "phi"]
        # exit tests: conditional branches inside the loop with a successor outside
        tests = []
        for bid in body:
            b = f.bmap[bid]
            if b.insts and b.term.op == "br" and len(b.succs) == 2 and any(s.id not in body for s in b.succs):
                tests.append(b)
        rec = None
        for phi in phis:
            steps = []
            for v, pb in phi.incoming:
                if pb.id in body:
                    steps.append((v, pb))
            if not steps:
                continue
            kinds = set()
            adv_ok = True
            shape_known = True
            for v, pb in steps:
                v0 = strip_casts(v, ("trunc", "zext", "sext"))
                k = None
                if isinstance(v0, Inst) and v0.op == "add" and strip_casts(v0.operands[0], ("trunc", "zext", "sext")) is phi and isinstance(v0.operands[1], Const):
                    k = "up" if v0.operands[1].sv > 0 else "down"
                elif isinstance(v0, Inst) and v0.op == "sub" and strip_casts(v0.operands[0], ("trunc", "zext", "sext")) is phi and isinstance(v0.operands[1], Const) \
                        and v0.operands[1].v != 0:
                    k = "down" if v0.operands[1].sv > 0 else "up"
                elif isinstance(v0, Inst) and v0.op == "getelementptr" and v0.operands[0] is phi:
                    k = "ptr"
                elif isinstance(v0, Inst) and v0.op in ("lshr", "ashr") and v0.operands[0] is phi and isinstance(v0.operands[1], Const) and v0.operands[1].v >= 1:
                    k = "shift"
                elif isinstance(v0, Inst) and v0.op == "mul":
                    k = "other"
                if k is None and isinstance(v0, Inst) and v0.op == "add" and strip_casts(v0.operands[0], ("trunc", "zext", "sext")) is phi:
                    st_ = v0.operands[1]
                    while isinstance(st_, Inst) and st_.op in ("zext", "sext") and getattr(st_.operands[0], "type", "") != "i1":
                        st_ = st_.operands[0]
                    if isinstance(st_, Inst) and st_.op in ("zext", "sext") and getattr(st_.operands[0], "type", "") == "i1":
                        adv_ok = False     # the step is a truth value: 0 on some path
                if v0 is phi:
                    adv_ok = False     # carried round the loop unchanged on this path
                elif k is None:
                    shape_known = False
                kinds.add(k)
            # is this phi the one tested by an exit condition?
            tested = False

            def cond_leaves(c, seen=()):
                """comparisons a (possibly short-circuit: phi of i1, and/or) branch condition is made of"""
                if not isinstance(c, Inst) or c.id in seen:
                    return []
                if c.op == "icmp":
                    return [c]
                if c.op in ("phi", "and", "or", "xor", "select", "zext", "trunc"):
                    out_ = []
                    for o in (c.operands[1:] if c.op == "select" else c.operands):
                        out_ += cond_leaves(o, tuple(seen) + (c.id,))
                    return out_
                return []
            for tb in tests:
                for c in cond_leaves(tb.term.operands[0]):
                    ops = [strip_casts(o, ("trunc", "zext", "sext")) for o in c.operands]
                    if phi in ops or any(isinstance(o, Inst) and o.op in ("add", "sub") and
                                         any(strip_casts(x, ("trunc", "zext", "sext")) is phi for x in o.operands) for o in ops):
                        tested = True
            if tested:
                rec = (phi, kinds, adv_ok, shape_known)
                break
        calls = {i.callee for bid in body for i in f.bmap[bid].insts if i.op == "call" and i.callee}
        su = _shift_up(f, hdr, body, phis, tests)
        if su is not None and rec is None:
            out.append(dict(header=hdr, kind="normalise(shift-up)", ok=su[0], where=where, detail=su[1]))
            continue
        if f.name == "cbor_load" and "cbor_stream_decode" in calls:
            # the decode loop (whatever its spelling: do/while, for(;;) + break, a running total kept in a local)
            out.append(dict(header=hdr, kind="named:decode-loop", ok=True, where=where,
                            detail="progress: a FINISHED result has read >= 1 (C08.claim) and the remainder shrinks; any other result leaves the loop"))
        elif rec is not None:
            phi, kinds, adv_ok, shape_known = rec
            kind = "counted(%s)" % "/".join(sorted(k or "?" for k in kinds))
            if adv_ok and not shape_known:
                out.append(dict(header=hdr, kind="unknown", ok=None, where=where,
                                detail="the tested variable %s is updated in a way the recogniser does not know" % (phi.name or "phi")))
            elif not adv_ok:
                out.append(dict(header=hdr, kind=kind, ok=False, where=where,
                                detail="the tested variable %s is not advanced on every path through the loop body" % (phi.name or "phi")))
            else:
                out.append(dict(header=hdr, kind=kind, ok=True, where=where, detail=""))
        elif f.name == "cbor_load" and "cbor_stream_decode" in calls:
            out.append(dict(header=hdr, kind="named:decode-loop", ok=True, where=where,
                            detail="progress: a FINISHED result has read >= 1 (C08.claim) and the remainder shrinks; any other result leaves the loop"))
        elif "_cbor_stack_pop" in calls and all(
                any(i.op == "call" and i.callee == "_cbor_stack_pop" and f.dominates_block(f.bmap[bid], lt) for bid in body for i in f.bmap[bid].insts)
                for lt in latches):
            # drain loop: every iteration pops a frame
            pops_dom = all(any(i.op == "call" and i.callee == "_cbor_stack_pop" for bid in body for i in f.bmap[bid].insts) for _ in [0])
            out.append(dict(header=hdr, kind="named:drain-loop", ok=pops_dom, where=where, detail="each iteration pops one frame of a finite stack"))
        else:
            out.append(dict(header=hdr, kind="unknown", ok=None, where=where, detail="loop shape not recognised"))
    return out
