"""Range audit of shifts by a run-time distance (C01 / C15): the distance is evaluated for every value of the few-bit
quantities it depends on that satisfies the facts of the path (finite-domain evaluation of path-engine terms)."""
import itertools
import termeval as TE
import decoder_rules as DR
from ir import Agg as _Agg, Const


def check_shift_range(chk, rule, prog, eff, cache, floor=3):
    nshift = 0
    tables_ = {}
    for gk, g_ in prog.globals.items():
        iv_ = g_.get("init_val")
        if g_.get("constant") and isinstance(iv_, _Agg) and all(hasattr(x, "v") for x in iv_.elems):
            tables_[g_["name"]] = [x.v for x in iv_.elems]
    UNB = object()

    def leaves_of(t, fn_):
        """set of enumerable leaf terms {term: bits} of t, or UNB when t depends on an unbounded quantity"""
        if not isinstance(t, tuple):
            return UNB
        if t[0] == "c":
            return {}
        if t[0] == "arg":
            ty = fn_.params[t[1]]["type"] if t[1] < len(fn_.params) else ""
            return {t: int(ty[1:])} if ty in ("i1", "i8", "i16") else UNB
        if t[0] == "cast":
            inner = leaves_of(t[3], fn_)
            if inner is UNB:
                if t[1] == "trunc" and TE.bits_of(t[2]) <= 16:
                    return {t: TE.bits_of(t[2])}
                return UNB
            return inner
        if t[0] == "op":
            out_ = {}
            for x in (t[3], t[4]):
                l_ = leaves_of(x, fn_)
                if l_ is UNB:
                    return UNB
                out_.update(l_)
            return out_
        if t[0] in ("icmp",):
            out_ = {}
            for x in (t[2], t[3]):
                l_ = leaves_of(x, fn_)
                if l_ is UNB:
                    return UNB
                out_.update(l_)
            return out_
        if t[0] == "not":
            return leaves_of(t[1], fn_)
        if t[0] == "ld":
            b_ = t[1]
            if isinstance(b_, tuple) and b_[0] == "idx" and b_[1][0] == "g" and b_[1][1] in tables_:
                out_ = {}
                for x in b_[3]:
                    l_ = leaves_of(x, fn_)
                    if l_ is UNB:
                        # an entry of a constant table at an index that is not enumerable: one of the table's values
                        # (that the index is inside the table is C16.bounds / the claim rules)
                        return {t: sorted(set(tables_[b_[1][1]]))}
                    out_.update(l_)
                return out_
        return UNB

    def dom(d_):
        return range(1 << d_) if isinstance(d_, int) else d_

    def dom_bits(d_):
        return d_ if isinstance(d_, int) else max(1, len(d_)).bit_length()

    import ownership as _Os
    in_context = set()
    for g in prog.lib_funcs():
        in_context |= _Os.static_callees(prog, eff, g.name)

    def has_rt_shift(fn_):
        return any(i_.op in ("shl", "lshr", "ashr") and not isinstance(i_.operands[1], Const) for i_ in fn_.all_insts())
    for g in prog.lib_funcs():
        if g.name in in_context:
            continue        # a unit-internal helper: judged where it is inlined, with the arguments its callers pass
        if not (has_rt_shift(g) or any(has_rt_shift(prog.funcs[h_]) for h_ in _Os.static_callees(prog, eff, g.name) if h_ in prog.funcs)):
            continue
        for k, pa in enumerate(cache.get(g.name)):
            for e in pa.events:
                if e.kind != "shift":
                    continue
                nshift += 1
                dist, bits = e.args[1], e.extra
                lv = leaves_of(dist, g)
                key_ = "%s:shift:%d" % (g.name, e.ins.id)
                if lv is UNB or sum(dom_bits(v_) for v_ in lv.values()) > 16:
                    chk.floor(rule, "%s: shift at %s has a distance over few-bit quantities (cannot decide its range)" % (g.name, e.ins.loc()), 0, 1)
                    continue
                cons = []
                for t, truth, _ in pa.facts[:e.nfacts]:
                    lf = leaves_of(t, g)
                    if lf is not UNB and lf and set(lf) <= set(lv):
                        cons.append((t, truth))
                names_ = sorted(lv, key=repr)
                worst, nsat = None, 0
                for vals in itertools.product(*[dom(lv[n_]) for n_ in names_]):
                    env = dict(zip(names_, vals))
                    try:
                        if not all(bool(TE.evaluate(t, env, tables_)) == truth for t, truth in cons):
                            continue
                        d_ = TE.evaluate(dist, env, tables_)
                    except TE.OutOfBounds:
                        continue
                    nsat += 1
                    if d_ >= bits and worst is None:
                        worst = (env, d_)
                ok = worst is None and nsat > 0
                chk.ob(rule, "%s path %d: %s by a run-time distance < %d" % (g.name, k, e.callee, bits), ok, e.ins.loc(), fn=g.name,
                       key="%s:%d" % (key_, k),
                       detail=("distance within [0, %d) for all %d admissible value(s) of %s" % (bits, nsat, ", ".join(DR.fmt_term(n_) for n_ in names_))) if ok
                       else ("no admissible value" if worst is None else "distance %d for %s" % (worst[1], {DR.fmt_term(a_): v_ for a_, v_ in worst[0].items()})),
                       path=pa.block_lines() if not ok else None)
    chk.floor(rule, "run-time shifts on paths", nshift, floor)

