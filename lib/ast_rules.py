"""Rules that need the C types the IR no longer has (signedness of an operand after the integer promotions).

`x << k` on a SIGNED operand is undefined as soon as a set bit reaches the sign bit; the IR (`shl i32`) is the same as for
the unsigned spelling, so the clang AST is consulted: per unit `clang -fsyntax-only -Xclang -ast-dump=json`, only the
function definitions the IR facts list for that unit are walked."""
import concurrent.futures
import json
import os
import subprocess

import build
from build import AnalysisBroken

_INT_BITS = {"char": 8, "signed char": 8, "unsigned char": 8, "short": 16, "unsigned short": 16, "int": 32, "unsigned int": 32,
             "long": 64, "unsigned long": 64, "long long": 64, "unsigned long long": 64, "_Bool": 1}


def _ty(n):
    t = n.get("type", {})
    q = t.get("desugaredQualType") or t.get("qualType") or ""
    return q.replace("const ", "").replace("volatile ", "").strip()


def _unsigned(q):
    return q.startswith("unsigned") or q == "_Bool"


def _value_bits(n):
    """upper bound on the number of significant bits of a non-negative value, None if unknown (or possibly negative)"""
    k = n.get("kind")
    inner = n.get("inner", [])
    if k == "IntegerLiteral":
        return int(n.get("value", "0")).bit_length()
    if k == "CharacterLiteral":
        return 8
    if k in ("ParenExpr", "ConstantExpr") and inner:
        return _value_bits(inner[0])
    if k in ("ImplicitCastExpr", "CStyleCastExpr") and inner:
        q = _ty(n)
        ib = _value_bits(inner[0])
        if n.get("castKind") in ("IntegralCast", "NoOp", "LValueToRValue"):
            if _unsigned(q) and q in _INT_BITS:
                return _INT_BITS[q] if ib is None else min(ib, _INT_BITS[q])
            if n.get("castKind") == "LValueToRValue":
                return None          # a signed object: may be negative
            if q in _INT_BITS and ib is not None and ib < _INT_BITS[q]:
                return ib            # widening a small non-negative value keeps it
        return None
    if k == "BinaryOperator" and len(inner) == 2:
        op = n.get("opcode")
        a, b = _value_bits(inner[0]), _value_bits(inner[1])
        if op == "&":
            c = [x for x in (a, b) if x is not None]
            return min(c) if c else None
        if op in ("|", "^") and a is not None and b is not None:
            return max(a, b)
        if op == ">>" and a is not None and inner[1].get("kind") == "IntegerLiteral":
            return max(0, a - int(inner[1].get("value", "0")))
        if op == "<<" and a is not None and inner[1].get("kind") == "IntegerLiteral":
            return a + int(inner[1].get("value", "0"))
        if op == "+" and a is not None and b is not None:
            return max(a, b) + 1
    q = _ty(n)
    if _unsigned(q) and q in _INT_BITS:
        return _INT_BITS[q]
    return None


def _unit_shifts(args):
    src, names, flags, incdirs = args
    cmd = [build.CLANG] + [f for f in flags if f not in ("-g",)] + sum([["-I", d] for d in incdirs], []) + \
          ["-fsyntax-only", "-Xclang", "-ast-dump=json", src]
    r = subprocess.run(cmd, capture_output=True, text=True)
    if r.returncode != 0:
        return src, None, r.stderr[-2000:]
    tu = json.loads(r.stdout)
    out = []
    state = {"line": 0}

    def walk(n, fn):
        for key in ("loc", "range"):
            v = n.get(key)
            if isinstance(v, dict):
                b = v.get("begin", v)
                for loc in (b.get("expansionLoc"), b.get("spellingLoc"), b):
                    if isinstance(loc, dict) and "line" in loc:
                        state["line"] = loc["line"]
                        break
        if n.get("kind") in ("BinaryOperator", "CompoundAssignOperator") and n.get("opcode") in ("<<", "<<=") and len(n.get("inner", [])) == 2:
            lhs, rhs = n["inner"]
            q = _ty(lhs) if n.get("opcode") == "<<" else _ty(n)
            if q in _INT_BITS and not _unsigned(q):
                dist = int(rhs["value"]) if rhs.get("kind") == "IntegerLiteral" else None
                out.append(dict(fn=fn, line=state["line"], type=q, bits=_value_bits(lhs), dist=dist))
        for c in n.get("inner", []):
            if isinstance(c, dict):
                walk(c, fn)
    for d in tu.get("inner", []):
        if d.get("kind") == "FunctionDecl" and d.get("name") in names and any(c.get("kind") == "CompoundStmt" for c in d.get("inner", [])):
            walk(d, d["name"])
    return src, out, None


_cache = {}


def signed_shifts(prog):
    """[{fn, line, type, bits, dist, unit}] for every `<<` whose (promoted) left operand has a signed type, in library code"""
    facts = prog.facts
    key = (facts["config"], tuple(sorted(facts["values"].items())))
    if key in _cache:
        return _cache[key]
    inc = None
    # the generated headers of this configuration live next to the IR scratch output
    tag = "%s-%s-O%d" % (facts["config"], facts.get("tag_overrides", "") or "", facts.get("optlevel", 0))
    work = facts.get("workdir")
    if not work or not os.path.isdir(os.path.join(work, "inc")):
        raise AnalysisBroken("ast rules: the generated headers of this configuration are gone (%s)" % work)
    inc = os.path.join(work, "inc")
    flags = build.BASE_FLAGS + build.CONFIG_FLAGS[facts["config"]]
    jobs = []
    for m in facts["modules"]:
        names = {fd["name"] for fd in m["functions"] if not fd["declaration"]}
        src_ = m["unit"] if os.path.isabs(m["unit"]) else os.path.join(build.REPO, m["unit"])
        jobs.append((src_, names, flags, [os.path.join(build.REPO, "src"), inc]))
    res = []
    with concurrent.futures.ThreadPoolExecutor(max_workers=16) as ex:
        for src, out, err in ex.map(_unit_shifts, jobs):
            if err:
                raise AnalysisBroken("ast dump of %s failed: %s" % (src, err))
            for o in out:
                o["unit"] = os.path.relpath(src, build.REPO) if src.startswith(build.REPO + "/") else src
                o["control"] = not src.startswith(build.REPO + "/")
                res.append(o)
    _cache[key] = res
    return res


def check_signed_shifts(chk, rule, prog, floor=4):
    """every `<<` on a signed (promoted) operand keeps its set bits below the sign bit: bits(operand) + distance <= width - 1"""
    n = und = 0
    ctl = False
    for o in signed_shifts(prog):
        w = _INT_BITS[o["type"]]
        if o.get("control"):
            if o["fn"] == "verif_ctl_signed_shift" and o["bits"] is not None and o["dist"] is not None and o["bits"] + o["dist"] > w - 1:
                ctl = True
            continue
        if o["bits"] is None or o["dist"] is None:
            und += 1
            continue
        n += 1
        ok = o["bits"] + o["dist"] <= w - 1
        chk.ob(rule, "%s: a value of at most %d bits shifted left by %d stays below the sign bit of `%s`" % (o["fn"], o["bits"], o["dist"], o["type"]),
               ok, "%s:%d" % (o["unit"], o["line"]), fn=o["fn"], key="sshift:%s:%d:%d" % (o["fn"], o["bits"], o["dist"]),
               detail="" if ok else "the operand was promoted to `%s` before the shift: bit %d of the result is the sign bit or beyond - "
                                    "undefined behaviour (cast the operand to an unsigned type of the result's width first)" % (o["type"], o["bits"] + o["dist"] - 1))
    chk.count("%s: signed shifts whose operand range or distance is not a constant (not decided)" % rule, und)
    if any(o.get("control") for o in signed_shifts(prog)):
        chk.ob(rule, "positive control verif_ctl_signed_shift (a promoted byte shifted by 24) is reported", ctl, "controls/ctl_arith.c", key="ctl:sshift")
    chk.count("%s: left shifts of signed operands decided" % rule, n)
