"""E5 - discriminated-union typestate.

* harvest(): the library's own CBOR_ASSERT preconditions, read from the debug
  configuration's IR (the branch that guards each __assert_fail call).
* PredAlgebra: every item predicate (cbor_isa_*, cbor_is_*, *_is_definite,
  width getters) is evaluated from its own IR over the finite domain
  type(8) x int width(4) x float width(4) x flavour(2); nothing is inferred
  from naming conventions.
"""
import itertools

from build import AnalysisBroken
from ir import Inst, Arg, Const, Null, GlobalRef, FuncRef, CExpr, strip_casts, apath, const_int
import rules


# ---------------------------------------------------------------------------
# harvest

def harvest(dprog):
    """{fn name: [atom]} ; atom = dict(kind='pred', pred=name, param=i, want=bool)
                              | dict(kind='eq', getter=name, param=i, const=c)
                              | dict(kind='other', text=...)"""
    out = {}
    total = 0
    for f in dprog.lib_funcs():
        atoms = []
        for c in f.calls("__assert_fail"):
            total += 1
            text = dprog.cstring(f, c.operands[0]) or ""
            text = text.replace("!_cbor_enable_assert || ", "")
            b = c.block
            atom = dict(kind="other", text=text, line=c.line)
            entry = False
            if len(b.preds) == 1:
                tb = b.preds[0]
                # the assertion starts at the block that tests _cbor_enable_assert (short-circuit ||)
                start = tb
                if len(tb.preds) == 1:
                    p0 = tb.preds[0]
                    c0 = p0.term.operands[0] if p0.term.op == "br" and len(p0.succs) == 2 else None
                    c0 = strip_casts(c0, ("trunc", "zext")) if c0 is not None else None
                    if isinstance(c0, Inst) and c0.op == "load" and isinstance(strip_casts(c0.operands[0]), GlobalRef):
                        start = p0
                entry = all(f.dominates_block(start, r.block) for r in f.returns())
            if len(b.preds) == 1:
                p = b.preds[0]
                t = p.term
                if t.op == "br" and len(p.succs) == 2:
                    cond = t.operands[0]
                    on_true = p.succs[0] is b  # assertion fails when cond is true?
                    a = _atom_of_cond(f, cond, want=not on_true)
                    if a:
                        a["text"] = text
                        a["line"] = c.line
                        atom = a
            atom["entry"] = entry
            if len(b.preds) > 1 and atom["kind"] == "other":
                # `CBOR_ASSERT(a && b)`: the failure block is reached from the test of each conjunct; every conjunct is an atom
                tests = [p for p in b.preds if p.term.op == "br" and len(p.succs) == 2]
                first = next((p for p in tests if all(f.dominates_block(p, q) for q in tests)), None)
                conj = []
                for p in tests:
                    a = _atom_of_cond(f, p.term.operands[0], want=not (p.succs[0] is b))
                    if a:
                        conj.append(a)
                if first is not None and conj and len(conj) == len(tests):
                    start = first
                    if len(first.preds) == 1:
                        p0 = first.preds[0]
                        c0 = p0.term.operands[0] if p0.term.op == "br" and len(p0.succs) == 2 else None
                        c0 = strip_casts(c0, ("trunc", "zext")) if c0 is not None else None
                        if isinstance(c0, Inst) and c0.op == "load" and isinstance(strip_casts(c0.operands[0]), GlobalRef):
                            start = p0
                    entry = all(f.dominates_block(start, r.block) for r in f.returns())
                    for a in conj:
                        a["text"] = text
                        a["line"] = c.line
                        a["entry"] = entry
                        atoms.append(a)
                    continue
            atoms.append(atom)
        if atoms:
            out[f.name] = atoms
    return out, total


def _atom_of_cond(f, cond, want):
    cond = strip_casts(cond, ("zext", "trunc"))
    if isinstance(cond, Inst) and cond.op == "xor" and const_int(cond.operands[1]) == 1:
        return _atom_of_cond(f, cond.operands[0], not want)
    if isinstance(cond, Inst) and cond.op == "call" and cond.callee and len(cond.operands) == 1:
        a = strip_casts(cond.operands[0])
        if isinstance(a, Arg):
            return dict(kind="pred", pred=cond.callee, param=a.i, want=want)
    if isinstance(cond, Inst) and cond.op == "icmp" and cond.pred in ("eq", "ne"):
        l, r = cond.operands
        c = const_int(r)
        l = strip_casts(l, ("zext", "sext", "trunc"))
        if c is not None and isinstance(l, Inst) and l.op == "call" and l.callee and len(l.operands) == 1:
            a = strip_casts(l.operands[0])
            if isinstance(a, Arg):
                w = want if cond.pred == "eq" else not want
                return dict(kind="eq", getter=l.callee, param=a.i, const=c, want=w)
    return None


# ---------------------------------------------------------------------------
# predicate algebra

TYPES = range(8)
WIDTHS = range(4)
FLAVS = range(2)
DOMAIN = list(itertools.product(TYPES, WIDTHS, WIDTHS, FLAVS))  # (type, int width, float width, flavour)
UNKNOWN = "?"


class PredAlgebra:
    """Evaluates small loop-free item functions on abstract items."""

    def __init__(self, prog):
        self.prog = prog
        self.off = rules.item_offsets(prog)
        tv = prog.enum("cbor_type")
        self.T = tv
        # (item type, metadata byte offset) -> atom index in the domain tuple
        self.meta_atoms = {}
        mo = self.off["metadata"]

        def moff(struct, field):
            return mo + prog.field_offset(struct, field)
        for t in ("CBOR_TYPE_UINT", "CBOR_TYPE_NEGINT"):
            self.meta_atoms[(tv[t], moff("_cbor_int_metadata", "width"))] = 1
        self.meta_atoms[(tv["CBOR_TYPE_FLOAT_CTRL"], moff("_cbor_float_ctrl_metadata", "width"))] = 2
        self.meta_atoms[(tv["CBOR_TYPE_BYTESTRING"], moff("_cbor_bytestring_metadata", "type"))] = 3
        self.meta_atoms[(tv["CBOR_TYPE_STRING"], moff("_cbor_string_metadata", "type"))] = 3
        self.meta_atoms[(tv["CBOR_TYPE_ARRAY"], moff("_cbor_array_metadata", "type"))] = 3
        self.meta_atoms[(tv["CBOR_TYPE_MAP"], moff("_cbor_map_metadata", "type"))] = 3
        self.flavour_types = {tv[x] for x in ("CBOR_TYPE_BYTESTRING", "CBOR_TYPE_STRING", "CBOR_TYPE_ARRAY", "CBOR_TYPE_MAP")}
        self.int_types = {tv["CBOR_TYPE_UINT"], tv["CBOR_TYPE_NEGINT"]}
        self.float_type = tv["CBOR_TYPE_FLOAT_CTRL"]
        self._tables = {}

    def is_simple(self, fname):
        """function of exactly one item pointer parameter, loop-free, calling only simple functions"""
        f = self.prog.funcs.get(fname)
        if f is None or len(f.params) != 1 or "cbor_item_t*" not in f.params[0]["type"]:
            return False
        return True

    def table(self, fname):
        """{domain point: frozenset of possible results (ints / UNKNOWN)}"""
        if fname in self._tables:
            return self._tables[fname]
        if not self.is_simple(fname):
            raise AnalysisBroken("%s is not a one-item-parameter function" % fname)
        f = self.prog.fn(fname)
        if f.back_edges():
            raise AnalysisBroken("predicate %s contains a loop" % fname)
        self._tables[fname] = None  # recursion guard
        tab = {}
        for pt in DOMAIN:
            tab[pt] = frozenset(self._eval(f, pt))
        self._tables[fname] = tab
        return tab

    def _eval(self, f, pt, depth=0):
        """all possible return values of f on abstract item pt (path-splitting on unknowns)"""
        results = set()
        # worklist of (block, prev block, env)
        work = [(f.entry, None, {})]
        steps = 0
        while work:
            b, prev, env = work.pop()
            env = dict(env)
            steps += 1
            if steps > 5000:
                raise AnalysisBroken("predicate %s: evaluation exploded" % f.name)
            for ins in b.insts:
                if ins.op == "phi":
                    for v, pb in ins.incoming:
                        if pb is prev:
                            env[ins.id] = self._val(f, v, env)
                    continue
                if ins.op == "br":
                    if len(b.succs) == 1:
                        work.append((b.succs[0], b, env))
                    else:
                        c = self._val(f, ins.operands[0], env)
                        if c == UNKNOWN:
                            work.append((b.succs[0], b, env))
                            work.append((b.succs[1], b, env))
                        else:
                            work.append((b.succs[0] if c else b.succs[1], b, env))
                    break
                if ins.op == "switch":
                    c = self._val(f, ins.operands[0], env)
                    if c == UNKNOWN:
                        for s in b.succs:
                            work.append((s, b, env))
                    else:
                        tgt = ins.default
                        for v, tb in ins.cases:
                            if v == c:
                                tgt = tb
                        work.append((tgt, b, env))
                    break
                if ins.op == "ret":
                    results.add(self._val(f, ins.operands[0], env) if ins.operands else None)
                    break
                if ins.op == "unreachable":
                    break
                env[ins.id] = self._exec(f, ins, env, pt, depth)
        return results

    def _val(self, f, v, env):
        if isinstance(v, Inst):
            return env.get(v.id, UNKNOWN)
        if isinstance(v, Const):
            return v.v
        if isinstance(v, Null):
            return 0
        if isinstance(v, Arg):
            return ("item",)
        return UNKNOWN

    def _exec(self, f, ins, env, pt, depth):
        op = ins.op
        ops = ins.operands
        if op in ("bitcast",):
            return self._val(f, ops[0], env)
        if op == "getelementptr":
            base = self._val(f, ops[0], env)
            off = ins.d.get("const_offset")
            if isinstance(base, tuple) and base[0] == "item" and off is not None:
                return ("item", (base[1] if len(base) > 1 else 0) + off)
            return UNKNOWN
        if op == "load":
            p = self._val(f, ops[0], env)
            if isinstance(p, tuple) and p[0] == "item":
                o = p[1] if len(p) > 1 else 0
                if o == self.off["type"]:
                    return pt[0]
                a = self.meta_atoms.get((pt[0], o))
                if a is not None:
                    return pt[a]
            return UNKNOWN
        if op in ("zext", "sext", "trunc"):
            v = self._val(f, ops[0], env)
            if v == UNKNOWN or isinstance(v, tuple):
                return UNKNOWN
            if op == "trunc":
                bits = int(ins.type[1:])
                return v & ((1 << bits) - 1)
            return v
        if op == "icmp":
            a, b = self._val(f, ops[0], env), self._val(f, ops[1], env)
            if UNKNOWN in (a, b) or isinstance(a, tuple) or isinstance(b, tuple):
                return UNKNOWN
            return int({"eq": a == b, "ne": a != b, "ult": a < b, "ule": a <= b, "ugt": a > b, "uge": a >= b,
                        "slt": a < b, "sle": a <= b, "sgt": a > b, "sge": a >= b}[ins.pred])
        if op in ("xor", "and", "or"):
            a, b = self._val(f, ops[0], env), self._val(f, ops[1], env)
            if op == "and" and (a == 0 or b == 0):
                return 0
            if op == "or" and ins.type == "i1" and (a == 1 or b == 1):
                return 1
            if UNKNOWN in (a, b) or isinstance(a, tuple) or isinstance(b, tuple):
                return UNKNOWN
            return {"xor": a ^ b, "and": a & b, "or": a | b}[op]
        if op == "select":
            c = self._val(f, ops[0], env)
            if c == UNKNOWN:
                a, b = self._val(f, ops[1], env), self._val(f, ops[2], env)
                return a if a == b else UNKNOWN
            return self._val(f, ops[1] if c else ops[2], env)
        if op == "call" and ins.callee and len(ops) == 1 and depth < 6:
            a = self._val(f, ops[0], env)
            if isinstance(a, tuple) and a[0] == "item" and (len(a) == 1 or a[1] == 0) and self.is_simple(ins.callee):
                g = self.prog.fn(ins.callee)
                if g.back_edges():
                    return UNKNOWN
                r = self._eval(g, pt, depth + 1)
                if len(r) == 1:
                    return next(iter(r))
                return UNKNOWN
        return UNKNOWN

    # ---- formulas ----
    def points_where(self, fname, value):
        """domain points at which fname certainly returns `value`"""
        tab = self.table(fname)
        return {pt for pt, r in tab.items() if r == frozenset([value])}

    def points_where_not(self, fname, value):
        tab = self.table(fname)
        return {pt for pt, r in tab.items() if value not in r and UNKNOWN not in r}

    def relevant(self, pt):
        """canonicalise irrelevant atoms so that formulas compare on what matters"""
        t, iw, fw, fl = pt
        return (t, iw if t in self.int_types else 0, fw if t == self.float_type else 0, fl if t in self.flavour_types else 0)

    def atom_points(self, atom):
        """domain points satisfying a harvested precondition atom (certainly), or None if not expressible"""
        if atom["kind"] == "pred":
            if not self.is_simple(atom["pred"]):
                return None
            return self.points_where(atom["pred"], 1) if atom["want"] else self.points_where(atom["pred"], 0)
        if atom["kind"] == "eq":
            if not self.is_simple(atom["getter"]):
                return None
            if atom["want"]:
                return self.points_where(atom["getter"], atom["const"])
            return self.points_where_not(atom["getter"], atom["const"])
        return None


def type_values(points):
    return sorted({p[0] for p in points})


# ---------------------------------------------------------------------------
# facts established at a program point

class ItemFacts:
    """Which abstract items (domain points) can an item expression denote at a
    program point, given the dominating tests and the function's own harvested
    preconditions?  Item expressions are canonical access paths (ir.apath)."""

    def __init__(self, prog, PA, preconds):
        self.prog, self.PA, self.preconds = prog, PA, preconds
        self.off = PA.off

    # value -> {domain point: set of possible values} for `path`, or None if v does not test `path`
    def _scrut(self, v, path):
        PA = self.PA
        v = strip_casts(v, ("zext", "sext", "trunc", "bitcast"))
        if isinstance(v, Inst) and v.op == "call" and v.callee and len(v.operands) == 1 and PA.is_simple(v.callee):
            if apath(v.operands[0]) == path:
                g = self.prog.fn(v.callee)
                if g.back_edges():
                    return None
                return PA.table(v.callee)
            return None
        fo = rules.field_of(v) if isinstance(v, Inst) and v.op == "load" else None
        if fo is not None and fo[0] == path:
            o = fo[1]
            tab = {}
            for pt in DOMAIN:
                if o == self.off["type"]:
                    tab[pt] = frozenset([pt[0]])
                else:
                    a = PA.meta_atoms.get((pt[0], o))
                    tab[pt] = frozenset([pt[a]]) if a is not None else frozenset([UNKNOWN])
            return tab
        if isinstance(v, Inst) and v.op == "xor" and const_int(v.operands[1]) == 1:
            t = self._scrut(v.operands[0], path)
            if t is None:
                return None
            return {pt: frozenset((UNKNOWN if x == UNKNOWN else (0 if x else 1)) for x in r) for pt, r in t.items()}
        if isinstance(v, Inst) and v.op == "icmp" and v.pred in ("eq", "ne"):
            c = const_int(v.operands[1])
            t = self._scrut(v.operands[0], path)
            if c is None or t is None:
                return None
            out = {}
            for pt, r in t.items():
                s = set()
                for x in r:
                    if x == UNKNOWN:
                        s.add(UNKNOWN)
                    else:
                        s.add(int((x == c) == (v.pred == "eq")))
                out[pt] = frozenset(s)
            return out
        if isinstance(v, Inst) and v.op == "phi":
            # short-circuit && / || materialised as a phi of i1: handled by the branch edges themselves
            return None
        return None

    def edge_constraint(self, f, src, dst, path):
        """domain points compatible with taking CFG edge src->dst, w.r.t. item `path`; None = no information"""
        t = src.term
        if t.op == "br" and len(src.succs) == 2 and src.succs[0] is not src.succs[1]:
            tab = self._scrut(t.operands[0], path)
            if tab is None:
                return None
            want = 1 if dst is src.succs[0] else 0
            return {pt for pt, r in tab.items() if UNKNOWN in r or any((x != 0) == bool(want) for x in r if x != UNKNOWN)}
        if t.op == "switch":
            tab = self._scrut(t.operands[0], path)
            if tab is None:
                return None
            vals = {v for v, b in t.cases if b is dst}
            allcases = {v for v, b in t.cases}
            is_default = t.default is dst
            out = set()
            for pt, r in tab.items():
                if UNKNOWN in r or any(x in vals for x in r) or (is_default and any(x not in allcases for x in r)):
                    out.add(pt)
            return out
        return None

    def possible(self, f, block, path, assume_pre=True, entry_points=None):
        """forward dataflow (union at joins) of the set of domain points `path` may denote"""
        key = (f.name, path, assume_pre, None if entry_points is None else frozenset(entry_points))
        cache = self.__dict__.setdefault("_cache", {})
        if key not in cache:
            pts = set(DOMAIN) if entry_points is None else set(entry_points)
            root, steps = path
            if assume_pre and root[0] == "arg" and not steps:
                for a in self.preconds.get(f.name, []):
                    if a.get("param") == root[1] and a.get("entry", True):
                        ap = self.PA.atom_points(a)
                        if ap is not None:
                            pts &= ap
            state = {b.id: set() for b in f.blocks}
            state[f.entry.id] = pts
            econ = {}
            work = [f.entry]
            while work:
                b = work.pop()
                for s in set(b.succs):
                    k = (b.id, s.id)
                    if k not in econ:
                        econ[k] = self.edge_constraint(f, b, s, path) if len(b.succs) > 1 else None
                    out = state[b.id] if econ[k] is None else (state[b.id] & econ[k])
                    if not out <= state[s.id]:
                        state[s.id] |= out
                        work.append(s)
            cache[key] = state
        return cache[key][block.id]

    def types_possible(self, f, block, path):
        return sorted({p[0] for p in self.possible(f, block, path)})


# ---------------------------------------------------------------------------
# call-site obligations over path traces

CHUNK_TABLES = {"cbor_bytestring_chunks_handle": "CBOR_TYPE_BYTESTRING", "cbor_string_chunks_handle": "CBOR_TYPE_STRING"}


class CallSites:
    """At every library-internal call of a function that carries harvested
    CBOR_ASSERT preconditions, the precondition must be established on the path:
    by earlier predicate/switch tests on the same item term, by the caller's own
    (assumed) precondition, by what the constructor of a fresh item stored, or
    by a named shape invariant."""

    def __init__(self, prog, eff, cache, H, PA):
        self.prog, self.eff, self.cache, self.H, self.PA = prog, eff, cache, H, PA
        self.off = PA.off
        self._est = {}
        self._inherit = {}
        self.T = prog.enum("cbor_type")
        # the copy routine and the unit-internal routines it recurses through (item in, owned item out): the named
        # invariant "a copy has the type, width and flavour of its source" (justified by C11.shape on the routine that
        # dispatches on the type) holds for each of them
        self.copy_routines = {"cbor_copy"}
        if "cbor_copy" in prog.funcs:
            unit = prog.funcs["cbor_copy"].unit
            for n in eff.transitive_callees("cbor_copy"):
                g = prog.funcs.get(n)
                if g is not None and g.internal and g.unit == unit and g.params and g.params[0]["type"] == "%struct.cbor_item_t*" and \
                        g.ret_type == "%struct.cbor_item_t*" and (n in eff.transitive_callees(n)):
                    self.copy_routines.add(n)

    # what a constructor / builder establishes about the item it returns
    def established(self, fname):
        if fname in self._est:
            return self._est[fname]
        self._est[fname] = None
        f = self.prog.funcs.get(fname)
        if f is None or not f.ret_type.endswith("cbor_item_t*"):
            return None
        import paths as P
        inl = {n for n in self.prog.funcs if n.startswith(("cbor_new_", "cbor_mark_", "cbor_set_", "cbor_build_")) or n in ("cbor_bytestring_set_handle",)}
        inl.discard(fname)
        try:
            ps = P.Executor(self.prog, self.eff, inline=inl, max_paths=400).run(fname)
        except Exception:
            return None
        pts_all = set()
        any_ok = False
        for pa in ps:
            r = pa.ret
            if r is None or r == ("c", 0) or not isinstance(r, tuple):
                continue
            if not pa.st.is_defined(P.mkptr(r, self.off["type"]), 4):
                return None
            ty = pa.st.load(P.mkptr(r, self.off["type"]), "i32", None)
            if not P.is_const(ty):
                return None
            any_ok = True
            t = ty[1]
            cand = [p for p in DOMAIN if p[0] == t]
            for (mt, moff), atom in self.PA.meta_atoms.items():
                if mt != t:
                    continue
                ptr = P.mkptr(r, moff)
                if pa.st.is_defined(ptr, 4):
                    v = pa.st.load(ptr, "i32", None)
                    if P.is_const(v):
                        cand = [p for p in cand if p[atom] == v[1]]
            pts_all |= set(cand)
        res = pts_all if any_ok else None
        self._est[fname] = res
        return res

    def pts_for(self, f, pa, e, x, depth=0):
        """domain points the item term x may denote at call event e"""
        import paths as P
        PA = self.PA
        pts = set(DOMAIN)
        alias = {}
        for ev in pa.events:
            if ev.kind == "call" and ev.callee in ("cbor_move", "cbor_incref"):
                alias[ev.res] = alias.get(ev.args[0], ev.args[0])
        x = alias.get(x, x)
        # own parameter: assumed preconditions, or inherited from call sites for assert-less internal helpers
        if isinstance(x, tuple) and x[0] == "arg":
            atoms = [a for a in self.H.get(f.name, []) if a.get("param") == x[1] and a.get("entry", True)]
            if atoms:
                for a in atoms:
                    ap = PA.atom_points(a)
                    if ap is not None:
                        pts &= ap
            elif f.internal and depth < 3:
                inh = self.inherited(f, x[1], depth)
                if inh is not None:
                    pts &= inh
        # named invariant (justified by C11.shape): a copy has the type, width and flavour of its source
        if isinstance(x, tuple) and x[0] == "call" and x[1] in self.copy_routines and depth < 3:
            ce = [ev for ev in pa.events if ev.kind == "call" and ev.res == x]
            if ce:
                pts &= self.pts_for(f, pa, ce[0], ce[0].args[0], depth + 1)
        # fresh item
        if isinstance(x, tuple) and x[0] == "call" and x[1] in self.prog.funcs:
            est = self.established(x[1])
            if est is not None:
                pts &= est
        # shape invariant: a chunk of an indefinite (byte)string is a definite (byte)string
        if isinstance(x, tuple) and x[0] == "ld" and isinstance(x[1], tuple):
            # the slot may be addressed by index (`chunks[i]`) or through a walking pointer (`*chunk++`): either way the
            # address is computed from the table the accessor returned
            tab = x[1]
            while isinstance(tab, tuple) and tab[0] in ("idx", "p"):
                tab = tab[1]
            if isinstance(tab, tuple) and tab[0] == "call" and tab[1] in CHUNK_TABLES:
                t = self.T[CHUNK_TABLES[tab[1]]]
                pts &= {p for p in DOMAIN if p[0] == t and p[3] == 0}
        # facts on the path so far
        call_of = {ev.res: ev for ev in pa.events if ev.kind == "call"}
        for (t, truth, _) in pa.facts[:e.nfacts]:
            pts &= self._fact_points(t, truth, x, call_of, alias)
        return pts

    def pts_all(self, f, pa, x, upto=None):
        """points x may denote given ALL facts of the path (or its first `upto` facts)"""
        class _E:
            pass
        e = _E()
        e.nfacts = len(pa.facts) if upto is None else upto
        return self.pts_for(f, pa, e, x)

    def summary(self, f, pa, x, upto=None):
        """(types, int widths, float widths, flavours) still possible for item x on this path"""
        pts = self.pts_all(f, pa, x, upto)
        PA = self.PA
        types = {p[0] for p in pts}
        iw = {p[1] for p in pts if p[0] in PA.int_types}
        fw = {p[2] for p in pts if p[0] == PA.float_type}
        fl = {p[3] for p in pts if p[0] in PA.flavour_types}
        return types, iw, fw, fl

    def _fact_points(self, t, truth, x, call_of, alias):
        PA = self.PA
        full = set(DOMAIN)

        def subject(term):
            """(table {pt: set(values)}) if term is a test of x, else None"""
            u = term
            while isinstance(u, tuple) and u[0] == "cast":
                u = u[3]
            if isinstance(u, tuple) and u[0] == "call" and u in call_of:
                ev = call_of[u]
                if len(ev.args) == 1 and alias.get(ev.args[0], ev.args[0]) == x and PA.is_simple(ev.callee):
                    g = self.prog.funcs[ev.callee]
                    if not g.back_edges():
                        return PA.table(ev.callee)
            if isinstance(u, tuple) and u[0] == "ld" and alias.get(u[1], u[1]) == x:
                o = u[2]
                tab = {}
                for pt in DOMAIN:
                    if o == self.off["type"]:
                        tab[pt] = frozenset([pt[0]])
                    else:
                        a = PA.meta_atoms.get((pt[0], o))
                        tab[pt] = frozenset([pt[a]]) if a is not None else frozenset([UNKNOWN])
                return tab
            return None
        if t[0] in ("in", "notin"):
            tab = subject(t[1])
            if tab is None:
                return full
            vals = set(t[2])
            if t[0] == "in":
                return {pt for pt, r in tab.items() if UNKNOWN in r or (r & vals)}
            return {pt for pt, r in tab.items() if UNKNOWN in r or (r - vals)}
        if t[0] == "icmp" and t[1] == "eq" and isinstance(t[3], tuple) and t[3][0] == "c":
            tab = subject(t[2])
            if tab is None:
                return full
            c = t[3][1]
            if truth:
                return {pt for pt, r in tab.items() if UNKNOWN in r or c in r}
            return {pt for pt, r in tab.items() if UNKNOWN in r or (r - {c})}
        if t[0] == "icmp" and t[1] in ("ult", "ule", "ugt", "uge", "ne") and len(t) == 4:
            # range tests of a field / predicate value against a constant (e.g. a bounds check before a dispatch table)
            for a_, b_, flip in ((t[2], t[3], False), (t[3], t[2], True)):
                if isinstance(b_, tuple) and b_[0] == "c":
                    tab = subject(a_)
                    if tab is None:
                        continue
                    c = b_[1]
                    pred = t[1]
                    if flip:
                        pred = {"ult": "ugt", "ule": "uge", "ugt": "ult", "uge": "ule", "ne": "ne"}[pred]
                    test = {"ult": lambda v: v < c, "ule": lambda v: v <= c, "ugt": lambda v: v > c, "uge": lambda v: v >= c,
                            "ne": lambda v: v != c}[pred]
                    return {pt for pt, r in tab.items() if UNKNOWN in r or any(test(v) == bool(truth) for v in r if v != UNKNOWN)}
            return full
        tab = subject(t)
        if tab is None:
            return full
        if truth:
            return {pt for pt, r in tab.items() if UNKNOWN in r or any(v not in (0, UNKNOWN) for v in r)}
        return {pt for pt, r in tab.items() if UNKNOWN in r or 0 in r}

    def inherited(self, f, pi, depth):
        key = (f.name, pi)
        if key in self._inherit:
            return self._inherit[key]
        self._inherit[key] = None
        acc = set()
        found = False
        for g in self.prog.lib_funcs():
            if not any(True for _ in g.calls(f.name)):
                continue
            for pa in self.cache.get(g.name):
                for e in pa.events:
                    if e.kind == "call" and e.callee == f.name and pi < len(e.args):
                        found = True
                        acc |= self.pts_for(g, pa, e, e.args[pi], depth + 1)
        res = acc if found else None
        self._inherit[key] = res
        return res

    def check(self, fnames=None):
        """yields (fn, callee, atom, ok, where, detail, path) for every internal call site x precondition atom"""
        seen = {}
        import paths as _P
        in_context = set()
        for g_ in self.prog.lib_funcs():
            in_context |= _P.static_callees(self.prog, self.eff, g_.name)
        for f in (self.prog.lib_funcs() if fnames is None else [self.prog.fn(n) for n in fnames]):
            if f.name in in_context:
                continue      # a unit-internal helper: its call sites are judged where it is inlined
            for pa in self.cache.get(f.name, inline_static=True):
                for e in pa.events:
                    if e.kind != "call" or e.ckind != "lib" or e.callee not in self.H:
                        continue
                    for ai, a in enumerate(self.H[e.callee]):
                        if a["kind"] == "other" or a.get("param") is None or a["param"] >= len(e.args) or not a.get("entry", True):
                            continue
                        want = self.PA.atom_points(a)
                        if want is None:
                            continue
                        x = e.args[a["param"]]
                        # the very same test is known on this path
                        direct = False
                        if a["kind"] == "pred":
                            for ev in pa.events:
                                if ev is e:
                                    break
                                if ev.kind == "call" and ev.callee == a["pred"] and ev.args and ev.args[0] == x and \
                                        _truth_of(pa, ev.res, e.nfacts) is a["want"]:
                                    direct = True
                        # an exported function forwards the obligation on its own parameter to its client
                        forwarded = (isinstance(x, tuple) and x[0] == "arg" and not f.internal and
                                     not [b for b in self.H.get(f.name, []) if b.get("param") == x[1] and b.get("entry", True)])
                        pts = self.pts_for(f, pa, e, x)
                        # forwarding is only possible where the client could still satisfy the precondition on this path
                        forwarded = forwarded and bool(pts & want)
                        ok = direct or forwarded or pts <= want
                        key = (f.name, e.fn.name, e.ins.id, ai)
                        if key in seen and (seen[key][3] is False or ok):
                            continue
                        detail = ""
                        if not ok:
                            bad = sorted({self.PA.relevant(p) for p in pts - want})[:3]
                            tn = {v: k for k, v in self.T.items()}
                            detail = "%s requires %s; here the item may be %s" % (
                                e.callee, a.get("text", ""), ", ".join("%s(int width %d, float width %d, flavour %d)" % (tn.get(b[0], b[0]), b[1], b[2], b[3]) for b in bad))
                        seen[key] = (f.name, e.callee, a, ok, e.ins.loc(), detail, pa)
        return list(seen.values())


def _truth_of(pa, r, upto):
    for t, truth, _ in pa.facts[:upto]:
        x = t
        while isinstance(x, tuple) and x[0] == "cast":
            x = x[3]
        if x == r:
            return truth
    return None
