"""Window analysis (E6): a forward dataflow over one function's IR that relates every pointer and integer derived from a
(pointer p, length n) parameter pair to the window [p, p+n).

Values are put into congruence classes (flow-insensitive, read off the SSA definitions):
    P(X, o)   pointer  = p + D_X + o
    I(X, o)   integer  = D_X + o
    R(X, o)   integer  = n - (D_X + o)                ("remaining")
with D_0 = 0, D_END = n, and one fresh D per group of phis that move in lock step (a cursor and its remaining-count
advance together: they share a class).  The flow-sensitive state holds, per class, a lower bound `slack` on n - D_X and a
lower bound `lo` on D_X; branch conditions refine them (cursor != end, pos < n, remaining > 0, end - cursor >= 2, n >= 3 ...),
block joins take the minimum, a phi group's bounds are computed from its incoming edges.  An access of s bytes at P(X, o) is
inside the window when lo_X + o >= 0 and slack_X >= o + s on entry to its block.

The verdicts are three-valued.  `ok`: established from the conditions on every path.  In a function that is CLOSED - every
use of a value derived from p or n is one the analysis models - an access that is not established is reported; in an OPEN
function (n handed to a helper, an index computed in a way not modelled) it is listed as not judged, never as a violation."""
from ir import Inst, Arg, Const, Null

END = -1
BIG = 1 << 20


def _key(v):
    if isinstance(v, Inst):
        return ("i", v.id)
    if isinstance(v, Arg):
        return ("a", v.i)
    return None


def _bytes_of(ty):
    ty = ty.strip()
    if ty.endswith("*"):
        return 8
    if ty.startswith("i") and ty[1:].isdigit():
        return max(1, int(ty[1:]) // 8)
    return {"float": 4, "double": 8, "half": 2}.get(ty)


class Window:
    def __init__(self, prog, f, pi, ni=None, summaries=None):
        self.prog, self.f, self.pi, self.ni = prog, f, pi, ni
        self.phi_cls = {}           # phi id -> (fam, gid, 0) or None
        self.memo = {}
        self.summaries = summaries
        self.open_reasons = []
        self.unbounded = set()
        self._classify()
        self._flow()

    # ------------------------------------------------------------------ classification
    def cls(self, v):
        if isinstance(v, Const):
            return ("I", 0, v.sv if hasattr(v, "sv") and v.sv is not None and abs(v.sv) < BIG else v.v) if abs(getattr(v, "sv", v.v)) < BIG else None
        if isinstance(v, Arg):
            if v.i == self.pi:
                return ("P", 0, 0)
            if self.ni is not None and v.i == self.ni:
                return ("R", 0, 0)
            return None
        if not isinstance(v, Inst):
            return None
        if v.id in self.memo:
            return self.memo[v.id]
        self.memo[v.id] = None
        r = self._cls_inst(v)
        self.memo[v.id] = r
        return r

    def _cls_inst(self, v):
        op = v.op
        if op == "phi":
            return self.phi_cls.get(v.id)
        if op in ("bitcast", "ptrtoint", "inttoptr"):
            return self.cls(v.operands[0])
        if op in ("zext", "sext"):
            a = self.cls(v.operands[0])
            if a is not None and isinstance(v.operands[0], Const):
                return a
            # a widened 32-bit counter keeps its meaning as long as it does not wrap; only widenings to the full width are followed
            return a if a is not None and a[0] in ("I", "R") else None
        if op == "getelementptr":
            b = self.cls(v.operands[0])
            if b is None or b[0] != "P":
                return None
            c = v.d.get("const_offset")
            if c is not None:
                return ("P", b[1], b[2] + c)
            if v.d.get("src_type") == "i8" and len(v.operands) == 2:
                i = self.cls(v.operands[1])
                if i is None:
                    return None
                if i[0] == "I":
                    if b[1] == 0:
                        return ("P", i[1], b[2] + i[2])
                    if i[1] == 0:
                        return ("P", b[1], b[2] + i[2])
                elif i[0] == "R" and i[1] == 0 and b[1] == 0:
                    return ("P", END, b[2] - i[2])          # p + (n - o)
            return None
        if op in ("add", "sub"):
            a, b = self.cls(v.operands[0]), self.cls(v.operands[1])
            if a is None or b is None:
                return None
            if op == "add":
                if a[0] == "I" and b[0] == "I":
                    if a[1] == 0:
                        return ("I", b[1], a[2] + b[2])
                    if b[1] == 0:
                        return ("I", a[1], a[2] + b[2])
                    return None
                if a[0] == "R" and b[0] == "I" and b[1] == 0:
                    return ("R", a[1], a[2] - b[2])
                if b[0] == "R" and a[0] == "I" and a[1] == 0:
                    return ("R", b[1], b[2] - a[2])
                return None
            # sub
            if a[0] == "I" and b[0] == "I" and b[1] == 0:
                return ("I", a[1], a[2] - b[2])
            if a[0] == "R" and b[0] == "I":
                if b[1] == 0:
                    return ("R", a[1], a[2] + b[2])
                if a[1] == 0:
                    return ("R", b[1], a[2] + b[2])
                return None
            if a[0] == "P" and b[0] == "P":
                if a[1] == END:
                    return ("R", b[1], b[2] - a[2])
                if b[1] == 0:
                    return ("I", a[1], a[2] - b[2])
                if a[1] == b[1]:
                    return ("I", 0, a[2] - b[2])
            if a[0] == "R" and b[0] == "R" and a[1] == 0:
                # n - o - (n - D - o2) = D + o2 - o
                return ("I", b[1], b[2] - a[2])
            return None
        return None

    def _family_phis(self):
        return [i for b in self.f.blocks for i in b.insts if i.op == "phi"]

    def _classify(self):
        phis = self._family_phis()
        # phase 1: which phis belong to a family at all (optimistic: assume every phi may, each in a class of its own)
        alive = {p.id for p in phis if _bytes_of(p.type) in (4, 8)}
        fam = {}
        while True:
            # seed the families from the incoming values that do not depend on undecided phis
            self.phi_cls = {pid: (fam[pid], ("phi", pid), 0) for pid in alive if pid in fam}
            changed = False
            for p in phis:
                if p.id not in alive or p.id in fam:
                    continue
                self.memo = {}
                fs = {c[0] for c in (self.cls(v) for v, _ in p.incoming) if c is not None}
                if len(fs) == 1:
                    fam[p.id] = next(iter(fs))
                    changed = True
            if not changed:
                break
        alive = {pid for pid in alive if pid in fam}
        # drop phis with an incoming value outside their family, until stable
        while True:
            self.phi_cls = {pid: (fam[pid], ("phi", pid), 0) for pid in alive}
            self.memo = {}
            bad = set()
            for p in phis:
                if p.id not in alive:
                    continue
                for v, _ in p.incoming:
                    c = self.cls(v)
                    compatible = c is not None and (c[0] == fam[p.id] or (isinstance(v, Const) and fam[p.id] in ("I",)))
                    if not compatible:
                        bad.add(p.id)
            if not bad:
                break
            alive -= bad
        # phase 2: lock-step groups per block (optimistic partition refinement)
        group = {}
        for p in phis:
            if p.id in alive:
                group[p.id] = ("g", p.block.id, 0)
        byid = {p.id: p for p in phis}
        for _round in range(32):
            self.phi_cls = {pid: (fam[pid], group[pid], 0) for pid in alive}
            self.memo = {}
            sig = {}
            for pid in alive:
                p = byid[pid]
                s = []
                for v, pb in sorted(p.incoming, key=lambda x: x[1].id):
                    c = self.cls(v)
                    s.append((pb.id, c[1], c[2]))
                sig[pid] = tuple(s)
            newgroup = {}
            split = False
            buckets = {}
            for pid in sorted(alive):
                buckets.setdefault((group[pid], sig[pid]), []).append(pid)
            per_old = {}
            for (g, s), members in sorted(buckets.items(), key=lambda kv: kv[1][0]):
                k = per_old.get(g, 0)
                per_old[g] = k + 1
                for pid in members:
                    newgroup[pid] = ("g", g[1], members[0])
            # stable when the partition did not get finer
            def parts(gr):
                d = {}
                for pid, g in gr.items():
                    d.setdefault(g, set()).add(pid)
                return sorted(sorted(x) for x in d.values())
            if parts(newgroup) == parts(group):
                group = newgroup
                break
            group = newgroup
        self.phi_cls = {pid: (fam[pid], group[pid], 0) for pid in alive}
        self.memo = {}
        self.groups = {}
        for pid, g in group.items():
            self.groups.setdefault(g, []).append(byid[pid])

    # ------------------------------------------------------------------ flow
    def _refine(self, st, cond, truth):
        """state after taking the edge on which `cond` is `truth`"""
        if not (isinstance(cond, Inst) and cond.op == "icmp"):
            if isinstance(cond, Inst) and cond.op == "xor" and isinstance(cond.operands[1], Const) and cond.operands[1].v == 1:
                return self._refine(st, cond.operands[0], not truth)
            return st
        pred = cond.pred
        A, B = cond.operands
        a, b = self.cls(A), self.cls(B)
        if a is None or b is None:
            return st
        if not truth:
            pred = {"eq": "ne", "ne": "eq", "ult": "uge", "uge": "ult", "ugt": "ule", "ule": "ugt",
                    "slt": "sge", "sge": "slt", "sgt": "sle", "sle": "sgt"}[pred]
        st = dict(st)

        def raise_slack(X, k):
            s, l = st.get(X, (None, None))
            if X == END:
                return
            if s is None or k > s:
                st[X] = (k, l)

        def raise_lo(X, k):
            s, l = st.get(X, (None, None))
            if l is None or k > l:
                st[X] = (s, k)

        def slack(X):
            if X == END:
                return 0
            return st.get(X, (None, None))[0]

        def rel(lhs, p, rhs):
            """lhs, rhs: (kind, X, o)"""
            # 1. position (P or I) against the end of the window (P(END, e) or R(0, c) = n - c)
            if lhs[0] in ("P", "I") and lhs[1] != END and ((rhs[0] == "P" and rhs[1] == END) or (rhs[0] == "R" and rhs[1] == 0 and lhs[0] == "I")):
                X, o = lhs[1], lhs[2]
                e = rhs[2] if rhs[0] == "P" else -rhs[2]
                if rhs[0] == "R" and rhs[2] > 0 and not (slack(0) is not None and slack(0) >= rhs[2]):
                    return      # n - c may have wrapped
                if p == "ult":
                    raise_slack(X, o - e + 1)
                elif p == "ule":
                    raise_slack(X, o - e)
                elif p == "eq":
                    raise_slack(X, o - e)
                elif p == "ne":
                    s = slack(X)
                    if s is not None and s >= o - e:
                        raise_slack(X, o - e + 1)
                return
            # 2. remaining count against a constant
            if lhs[0] == "R" and rhs[0] == "I" and rhs[1] == 0:
                X, o, c = lhs[1], lhs[2], rhs[2]
                s = slack(X)
                if s is None or s < o or c < 0:
                    return      # the count itself may have wrapped
                if p == "ugt" or p == "sgt":
                    raise_slack(X, o + c + 1)
                elif p == "uge" or p == "sge":
                    raise_slack(X, o + c)
                elif p == "eq":
                    raise_slack(X, o + c)
                elif p == "ne" and c == 0:
                    raise_slack(X, o + 1)
                return
            # 3. remaining against an offset: n - D - o  >  D' + o'  with D' = 0
            # 4. a position against a constant (lower bounds)
            if lhs[0] == "I" and lhs[1] not in (0, END) and rhs[0] == "I" and rhs[1] == 0:
                X, o, c = lhs[1], lhs[2], rhs[2]
                if p == "uge":
                    raise_lo(X, c - o)
                elif p == "ugt":
                    raise_lo(X, c - o + 1)
                return

        flip = {"ult": "ugt", "ugt": "ult", "ule": "uge", "uge": "ule", "eq": "eq", "ne": "ne",
                "slt": "sgt", "sgt": "slt", "sle": "sge", "sge": "sle"}
        rel(a, pred, b)
        rel(b, flip[pred], a)
        return st

    def _edge_state(self, p, b):
        st = self.out.get(p.id)
        if st is None:
            return None
        t = p.term
        if t.op == "br" and len(p.succs) == 2 and p.succs[0] is not p.succs[1]:
            truth = b is p.succs[0]
            cond = t.operands[0]
            if isinstance(cond, Inst) and cond.op == "phi" and cond.block is p:
                # `a && b` / `a || b`: the merged truth value.  Taking this edge means having come in through a predecessor whose
                # contribution can have that truth value - the state is the join over those predecessors only
                feas = []
                for v, pb in cond.incoming:
                    if isinstance(v, Const) and bool(v.v) != truth:
                        continue
                    feas.append((v, pb))
                return self._in_state(p, feas, truth)        # None while no feasible predecessor has been reached
            st = self._refine(st, cond, truth)
        return st

    def _in_state(self, b, only=None, truth=None):
        """join of the states on the edges into b (optionally only from the given (condition value, predecessor) pairs, each
        refined by its condition value having the given truth)"""
        if only is None:
            edges = [(p, self._edge_state(p, b)) for p in b.preds]
        else:
            edges = []
            for v, pb in only:
                es = self._edge_state(pb, b)
                if es is not None and not isinstance(v, Const):
                    es = self._refine(es, v, truth)
                edges.append((pb, es))
        edges = [(p, s) for p, s in edges if s is not None]
        if not edges:
            return None
        st = {}
        keys = set()
        for _, s in edges:
            keys |= set(s)
        for X in keys:
            vals = [s[X] for _, s in edges if X in s]
            sl = None if any(v[0] is None for v in vals) else min(v[0] for v in vals)
            lo = None if any(v[1] is None for v in vals) else min(v[1] for v in vals)
            st[X] = (sl, lo)
        # classes born here
        for g, members in self.groups.items():
            if g[1] != b.id:
                continue
            phi = members[0]
            sls, los = [], []
            for v, pb in phi.incoming:
                es = next((s for p, s in edges if p is pb), None)
                if es is None:
                    continue
                c = self.cls(v)
                if c[1] == END:
                    n_lo = es.get(0, (0, 0))[0]
                    # D = n + o: slack = -o; lo = n + o >= (lower bound of n) + o
                    sls.append(-c[2])
                    los.append((n_lo if n_lo is not None else 0) + c[2])
                    continue
                s0, l0 = es.get(c[1], (None, None))
                sls.append(None if s0 is None else s0 - c[2])
                los.append(None if l0 is None else l0 + c[2])
            sl = None if any(x is None for x in sls) or not sls else min(sls)
            lo = None if any(x is None for x in los) or not los else min(los)
            if sl is not None and sl < 0:
                sl = None
            if lo is not None and lo < 0:
                lo = None
            if sl is None and only is None and any(x is not None for x in sls) and b.id in self.f.loops():
                # the class advances round a loop that no modelled test on it bounds (a fixed trip count, another counter)
                self.unbounded.add(g)
            st[g] = (sl, lo)
        return st

    def _flow(self):
        f = self.f
        self.inn, self.out = {}, {}
        entry = f.blocks[0]
        work = [entry]
        rounds = 0
        while work:
            rounds += 1
            if rounds > 200 * max(1, len(f.blocks)):
                self.open_reasons.append("%s: dataflow did not settle" % f.name)
                break
            b = work.pop(0)
            if b is entry:
                st = {0: (0, 0)}
            else:
                st = self._in_state(b)
                if st is None:
                    continue
            if self.inn.get(b.id) == st and b.id in self.out:
                continue
            self.inn[b.id] = st
            self.out[b.id] = st
            for s in b.succs:
                if s not in work:
                    work.append(s)
            # an edge out of a block that merges truth values looks two blocks back
            for s in b.succs:
                for s2 in s.succs:
                    t = s.term
                    if t.op == "br" and len(s.succs) == 2 and isinstance(t.operands[0], Inst) and t.operands[0].op == "phi" and s2 not in work:
                        work.append(s2)

    # ------------------------------------------------------------------ queries
    def bounds_at(self, block, c):
        """(slack, lo) of the position D_X + o at entry to the block: bytes known available from there, and its known lower bound"""
        st = self.inn.get(block.id)
        if st is None:
            return None, None
        if c[1] == END:
            n_lo = st.get(0, (0, 0))[0]
            return -c[2], (n_lo if n_lo is not None else 0) + c[2]
        s, l = st.get(c[1], (None, None))
        return (None if s is None else s - c[2]), (None if l is None else l + c[2])

    def tainted(self):
        """ids of instructions whose value derives from p or n"""
        f = self.f
        t = set()
        changed = True
        roots = {self.pi} | ({self.ni} if self.ni is not None else set())
        while changed:
            changed = False
            for i in f.all_insts():
                if i.id in t or i.op in ("load", "call", "store", "br", "ret", "alloca"):
                    continue
                for o in i.operands:
                    if (isinstance(o, Arg) and o.i in roots) or (isinstance(o, Inst) and o.id in t):
                        t.add(i.id)
                        changed = True
                        break
        return t

    def accesses(self):
        """every access through a pointer derived from p: list of dict(ins, kind r/w, size, cls, verdict, need, have)
        plus self.open_reasons (why a not-established access is not a finding)"""
        f = self.f
        t = self.tainted()
        roots = {self.pi} | ({self.ni} if self.ni is not None else set())

        def is_t(o):
            return (isinstance(o, Arg) and o.i in roots) or (isinstance(o, Inst) and o.id in t)

        out = []

        def judge(ins, kind, ptr, size, lenv=None):
            c = self.cls(ptr)
            rec = {"ins": ins, "kind": kind, "size": size, "cls": c, "verdict": "unknown", "detail": ""}
            out.append(rec)
            if c is None or c[0] != "P":
                rec["detail"] = "the address is computed in a way the window analysis does not model"
                self.open_reasons.append("%s: address of the access at line %d not modelled" % (f.name, ins.line))
                return
            sl, lo = self.bounds_at(ins.block, c)
            if lenv is not None:
                lc = self.cls(lenv)
                if lc is not None and lc[0] == "R":
                    # copies n - (D_Y + o2) bytes from p + D_X + o: inside when D_Y + o2 >= D_X + o and the count did not wrap
                    s2, _ = self.bounds_at(ins.block, ("P", lc[1], lc[2]))
                    same = lc[1] == c[1] and lc[2] >= c[2]
                    if same and s2 is not None and s2 >= 0 and lo is not None and lo >= 0:
                        rec["verdict"] = "ok"
                        rec["detail"] = "length is the rest of the window from there"
                    elif same:
                        rec["verdict"] = "unknown"
                        rec["detail"] = "the remaining count may have wrapped at this point"
                    else:
                        rec["detail"] = "length and pointer are not related"
                        self.open_reasons.append("%s: copy length at line %d not related to the pointer" % (f.name, ins.line))
                    return
                if lc is not None and lc[0] == "I" and lc[1] == 0:
                    size = lc[2]
                    rec["size"] = size
                else:
                    rec["detail"] = "length is not a window quantity"
                    self.open_reasons.append("%s: copy length at line %d is not a window quantity" % (f.name, ins.line))
                    return
            if size is None:
                rec["detail"] = "access size unknown"
                self.open_reasons.append("%s: access size unknown at line %d" % (f.name, ins.line))
                return
            ok = sl is not None and sl >= size and lo is not None and lo >= 0
            # "short" is a finding only when the analysis KNOWS how far the position may have got (and that is too far); a position it
            # has lost track of - a cursor advanced round a loop that some other counter bounds - is not judged
            rec["verdict"] = "ok" if ok else ("short" if sl is not None and lo is not None else "unknown")
            rec["need"], rec["have"], rec["lo"] = size, sl, lo
            if not ok:
                rec["detail"] = "%d byte(s) at an offset where only %s are known to be inside the window%s" % (
                    size, "none" if sl is None else ("%d" % max(sl, 0)), "" if (lo is not None and lo >= 0) else " (and the offset may lie before its start)")

        for i in f.all_insts():
            if i.op == "load" and is_t(i.operands[0]):
                judge(i, "r", i.operands[0], _bytes_of(i.type))
            elif i.op == "store":
                if is_t(i.operands[1]):
                    judge(i, "w", i.operands[1], _bytes_of(getattr(i.operands[0], "type", "") or ""))
                if is_t(i.operands[0]):
                    # a window quantity stored into memory: harmless for a local record, otherwise the analysis loses sight of it
                    dst = i.operands[1]
                    base = dst
                    while isinstance(base, Inst) and base.op in ("getelementptr", "bitcast"):
                        base = base.operands[0]
                    c = self.cls(i.operands[0])
                    if not (isinstance(base, Inst) and base.op == "alloca") and not (c is not None and c[0] == "I"):
                        self.open_reasons.append("%s: a window quantity is stored to memory at line %d" % (f.name, i.line))
            elif i.op == "call":
                cal = i.callee or ""
                args = i.operands[:-1] if i.operands and not isinstance(i.operands[-1], (Inst, Arg, Const, Null)) else i.operands
                args = list(i.operands)
                if cal.startswith("llvm.memcpy") or cal.startswith("llvm.memmove") or cal in ("memcpy", "memmove"):
                    if is_t(args[1]):
                        judge(i, "r", args[1], None, lenv=args[2])
                    if is_t(args[0]):
                        judge(i, "w", args[0], None, lenv=args[2])
                    if is_t(args[2]) and not (is_t(args[0]) or is_t(args[1])):
                        pass
                    continue
                if cal.startswith("llvm.memset") or cal == "memset":
                    if is_t(args[0]):
                        judge(i, "w", args[0], None, lenv=args[2])
                    continue
                if cal.startswith("llvm.dbg") or cal.startswith("llvm.lifetime"):
                    continue
                targs = [k for k, a in enumerate(args) if is_t(a)]
                if not targs:
                    continue
                g = self.prog.funcs.get(cal)
                handled = set()
                for k in targs:
                    c = self.cls(args[k])
                    if c is not None and c[0] == "P" and g is not None and self.summaries is not None:
                        # (pointer, length) handed on as a sub-window?
                        if k + 1 < len(args) and (g.name, k) in self.summaries.pairs:
                            lc = self.cls(args[k + 1])
                            rec = {"ins": i, "kind": "pass", "size": None, "cls": c, "verdict": "unknown", "detail": ""}
                            out.append(rec)
                            handled.add(k)
                            handled.add(k + 1)
                            sl, lo = self.bounds_at(i.block, c)
                            if lc is not None and lc[0] == "R" and lc[1] == c[1] and lc[2] >= c[2]:
                                s2, _ = self.bounds_at(i.block, ("P", lc[1], lc[2]))
                                okp = s2 is not None and s2 >= 0 and lo is not None and lo >= 0
                                rec["verdict"] = "ok" if okp else "unknown"
                                rec["detail"] = "handed to %s as a sub-window" % g.name if okp else "the length handed to %s may have wrapped" % g.name
                            elif lc is not None and lc[0] == "I" and lc[1] == 0:
                                okp = sl is not None and sl >= lc[2] and lo is not None and lo >= 0
                                rec["verdict"] = "ok" if okp else ("short" if sl is not None and lo is not None else "unknown")
                                rec["need"], rec["have"] = lc[2], sl
                                rec["detail"] = "%d bytes handed to %s" % (lc[2], g.name)
                            else:
                                rec["detail"] = "pointer and length handed to %s are not related" % g.name
                                self.open_reasons.append("%s: window handed to %s with an unrelated length at line %d" % (f.name, g.name, i.line))
                            continue
                        ext = self.summaries.extent(g.name, k)
                        if ext is not None:
                            kind, nbytes = ext
                            rec = {"ins": i, "kind": kind, "size": nbytes, "cls": c, "verdict": "unknown", "detail": ""}
                            out.append(rec)
                            handled.add(k)
                            sl, lo = self.bounds_at(i.block, c)
                            okp = nbytes == 0 or (sl is not None and sl >= nbytes and lo is not None and lo >= 0)
                            rec["verdict"] = "ok" if okp else ("short" if sl is not None and lo is not None else "unknown")
                            rec["need"], rec["have"] = nbytes, sl
                            rec["detail"] = "%s touches %d byte(s) from there" % (g.name, nbytes) + ("" if okp else "; only %s known to be inside the window" % ("none" if sl is None else sl))
                            continue
                for k in targs:
                    if k not in handled:
                        self.open_reasons.append("%s: a window quantity is handed to %s at line %d" % (f.name, cal or "an indirect callee", i.line))
            elif i.id in t:
                # a derived value: is the derivation modelled?
                if i.op in ("icmp",):
                    a, b = self.cls(i.operands[0]), self.cls(i.operands[1])
                    if a is None or b is None:
                        self.open_reasons.append("%s: comparison at line %d involves a quantity not modelled" % (f.name, i.line))
                elif i.op == "phi":
                    if i.type == "i1" and all(u.op == "br" and u.block is i.block for u in f.users(i)):
                        continue        # the merged truth value of && / ||: followed back to its predecessors by the flow
                    if self.cls(i) is None:
                        self.open_reasons.append("%s: merge of window quantities at line %d not modelled" % (f.name, i.line))
                elif self.cls(i) is None:
                    self.open_reasons.append("%s: %s of a window quantity at line %d not modelled" % (f.name, i.op, i.line))
        return out

    def closed(self):
        return not self.open_reasons


class Summaries:
    """which parameter pairs of which library functions are windows, and how many bytes a callee touches through a bare
    pointer parameter (constant extent) - read off each callee by the same analysis"""

    def __init__(self, prog, funcs):
        self.prog = prog
        self.pairs = set()
        self._ext = {}
        for f in funcs:
            for (pi, ni) in window_pairs(f):
                self.pairs.add((f.name, pi))

    def extent(self, name, k, depth=0):
        key = (name, k)
        if key in self._ext:
            return self._ext[key]
        self._ext[key] = None
        g = self.prog.funcs.get(name)
        r = None
        if g is not None and g.blocks and depth < 3 and k < len(g.params):
            w = Window(self.prog, g, k, None, summaries=None)
            acc = w.accesses()
            if not w.open_reasons and all(a["cls"] is not None and a["cls"][1] == 0 and a["size"] is not None for a in acc):
                kinds = {a["kind"] for a in acc}
                ext = max([a["cls"][2] + a["size"] for a in acc] + [0])
                low = min([a["cls"][2] for a in acc] + [0])
                if low >= 0:
                    r = ("w" if "w" in kinds else "r", ext)
        self._ext[key] = r
        return r


def window_pairs(f):
    """(pointer parameter, length parameter) pairs of a function: a byte pointer directly followed by a size_t"""
    out = []
    ps = f.params
    dt = f.di_types or []
    for k in range(len(ps) - 1):
        if ps[k]["type"] == "i8*" and ps[k + 1]["type"] == "i64":
            shift = len(ps) - (len(dt) - 1)          # an sret slot in front of the source-level parameters
            src = dt[k + 1 - shift] if 0 <= k + 1 - shift < len(dt) else ""
            if src.replace(" ", "") in ("void*", "constvoid*"):
                continue        # an opaque context pointer followed by a value, not a byte buffer and its length
            out.append((k, k + 1))
    return out
