"""E2 - per-function path engine.

Enumerates the acyclic paths of a function's mem2reg'd CFG (each back edge
taken at most once: every loop body is visited 0 and 1 times) while building,
for every SSA value, a symbolic term, and keeping an abstract store keyed by
(base term, byte offset).  Branch conditions are recorded as facts on terms;
a path is dropped only when the recorded facts contradict each other
syntactically (same term both true and false, a term equal to two different
constants, empty unsigned interval).  No solver.

The engine yields traces (ordered events with the facts known at that point);
the property modules are trace checkers.  Selected small callees can be
inlined (their paths are spliced into the caller's).
"""
import sys

from build import AnalysisBroken
from ir import (Inst, Arg, Const, FConst, Null, Undef, GlobalRef, FuncRef, CExpr, Agg, Other, strip_casts)
from effects import indirect_kind, EXTERNAL_MODEL, table_targets

sys.setrecursionlimit(20000)

MAX_PATHS = 20000
ZERO = ("c", 0)


class PathCapExceeded(AnalysisBroken):
    pass


def mask(bits):
    return (1 << bits) - 1


def const_index_key(ptr):
    """(base, byte offset) of an address, also when it is an indexed address whose single index is a constant on this
    path (an unrolled loop counter) over byte / pointer / integer elements; otherwise the same as ptr_key"""
    b, o = ptr_key(ptr)
    while isinstance(b, tuple) and b[0] == "idx" and len(b[3]) == 1 and is_const(b[3][0]):
        ty = b[2] or ""
        esz = 8 if ty.endswith("*") else (max(1, int(ty[1:]) // 8) if ty.startswith("i") and ty[1:].isdigit() else None)
        if esz is None:
            break
        k = b[3][0][1]
        if k >> 63:
            k -= 1 << 64
        ib, io = ptr_key(b[1])
        b, o = ib, io + k * esz + o
    return b, o


def type_bits(t):
    if t.startswith("i") and t[1:].isdigit():
        return int(t[1:])
    if t.endswith("*"):
        return 64
    return None


def is_const(t):
    return isinstance(t, tuple) and t[0] == "c"


def ptr_key(t):
    """(base term, constant byte offset)"""
    if isinstance(t, tuple) and t[0] == "p":
        return t[1], t[2]
    return t, 0


def mkptr(base, off):
    if is_const(base):
        return ("c", (base[1] + off) & mask(64))
    b, o = ptr_key(base)
    o += off
    return b if o == 0 else ("p", b, o)


def subterms(t):
    yield t
    if isinstance(t, tuple):
        for x in t[1:]:
            if isinstance(x, tuple):
                yield from subterms(x)


def derives(t, root):
    """term t is computed from root (root occurs inside t)"""
    for s in subterms(t):
        if s == root:
            return True
    return False


def linear(t):
    """term -> {atom: coefficient} (key 1 for the constant part): 64-bit sums and differences, byte-pointer arithmetic
    (`idx(base, i8, k)` = base + k, `p(base, off)` = base + off) and width-preserving casts are linear; everything else is an
    atom.  Two terms with equal linear forms denote the same value however the sum was spelled or associated."""
    out = {}

    def add(term, k):
        if isinstance(term, tuple):
            if term[0] == "c":
                out[1] = out.get(1, 0) + k * term[1]
                return
            if term[0] == "op" and term[1] in ("add", "sub") and term[2] == "i64":
                add(term[3], k)
                add(term[4], k if term[1] == "add" else -k)
                return
            if term[0] == "idx" and term[2] == "i8" and len(term[3]) == 1:
                add(term[1], k)
                add(term[3][0], k)
                return
            if term[0] == "p":
                add(term[1], k)
                out[1] = out.get(1, 0) + k * term[2]
                return
            if term[0] == "cast" and term[1] in ("ptrtoint", "inttoptr", "bitcast"):
                add(term[3], k)
                return
        out[term] = out.get(term, 0) + k
    add(t, 1)
    return {a: c % (1 << 64) for a, c in out.items() if c % (1 << 64)}


def linear_diff(a, b):
    """linear(a) - linear(b)"""
    la, lb = linear(a), linear(b)
    out = dict(la)
    for k, c in lb.items():
        out[k] = (out.get(k, 0) - c) % (1 << 64)
    return {k: c for k, c in out.items() if c}


class Event:
    __slots__ = ("kind", "ins", "fn", "args", "res", "nfacts", "callee", "ckind", "extra", "depth")

    def __init__(self, kind, ins, fn, args=(), res=None, nfacts=0, callee=None, ckind=None, extra=None, depth=0):
        self.kind, self.ins, self.fn, self.args, self.res = kind, ins, fn, args, res
        self.nfacts, self.callee, self.ckind, self.extra, self.depth = nfacts, callee, ckind, extra, depth

    def __repr__(self):
        return "<%s %s %s %s -> %s>" % (self.kind, self.callee or "", self.ins.loc() if self.ins is not None else "", self.args, self.res)


class State:
    def __init__(self):
        self.store = {}        # (base, off) -> term
        self.stype = {}        # (base, off) -> IR type of the stored value
        self.zero = {}         # base -> list of (lo, hi) zero-filled ranges
        self.copies = {}       # base -> list of (lo, hi, src_base, delta, snapshot dict, snapshot zero)
        self.facts = []        # (term, bool, inst)
        self.truth = {}        # term -> bool
        self.eqc = {}          # term -> constant it equals
        self.nec = {}          # term -> set of constants it differs from
        self.lo = {}           # term -> unsigned lower bound
        self.hi = {}           # term -> unsigned upper bound
        self.inset = {}        # term -> frozenset of allowed constants
        self.events = []
        self.blocks = []       # (fn name, block id)
        self.edges = {}        # back-edge traversal counts
        self.seq = 0
        self.escaped = set()   # alloca terms whose address was handed to unknown code
        self.links = {}        # local base -> locals whose address was ever stored into it
        self.locals = set()    # extra bases that behave like locals (sret result slot)
        self.defined = []      # (base, lo, hi) byte ranges written on this path (monotone: kills do not remove)
        self.memver = 0        # bumped whenever memory may have changed (value numbering of pure calls)
        self.pure = {}         # (callee, args, versions) -> result term
        self.killed = []       # bases whose memory may have changed, in order
        self.globalver = 0     # bumped when anything non-local may have changed

    def clone(self):
        s = State.__new__(State)
        s.store = dict(self.store)
        s.stype = dict(self.stype)
        s.zero = {k: list(v) for k, v in self.zero.items()}
        s.copies = {k: list(v) for k, v in self.copies.items()}
        s.facts = list(self.facts)
        s.truth = dict(self.truth)
        s.eqc = dict(self.eqc)
        s.nec = {k: set(v) for k, v in self.nec.items()}
        s.lo = dict(self.lo)
        s.hi = dict(self.hi)
        s.inset = dict(self.inset)
        s.events = list(self.events)
        s.blocks = list(self.blocks)
        s.edges = dict(self.edges)
        s.seq = self.seq
        s.escaped = set(self.escaped)
        s.locals = self.locals
        s.defined = list(self.defined)
        s.memver = self.memver
        s.pure = dict(self.pure)
        s.killed = list(self.killed)
        s.globalver = self.globalver
        s.links = {k: set(v) for k, v in self.links.items()}
        return s

    def fresh(self):
        self.seq += 1
        return self.seq

    # ---------------- facts ----------------
    def norm(self, t, truth):
        """normalise a boolean term: returns (term, truth) or ('const', bool)"""
        while True:
            if is_const(t):
                return ("const", (t[1] != 0) == truth)
            if t[0] == "not":
                t, truth = t[1], not truth
                continue
            if t[0] == "cast" and t[1] in ("zext", "trunc", "sext") and (t[2] == "i1" or (isinstance(t[3], tuple) and t[3][0] in ("icmp", "not"))):
                t = t[3]
                continue
            if t[0] == "icmp":
                pred, a, b = t[1], t[2], t[3]
                if pred == "ne":
                    t, truth = ("icmp", "eq", a, b), not truth
                    continue
                # "x != 0" where x is itself boolean
                if pred == "eq" and is_const(b) and b[1] == 0 and isinstance(a, tuple) and (a[0] in ("icmp", "not") or (a[0] == "cast" and a[2] in ("i1", "i8") and isinstance(a[3], tuple) and a[3][0] in ("icmp", "not", "call"))):
                    if a[0] == "cast":
                        a = a[3]
                    t, truth = a, not truth
                    continue
            return (t, truth)

    def value_of(self, t):
        """constant value of a term if the facts pin it down"""
        if is_const(t):
            return t[1]
        return self.eqc.get(t)

    def assume(self, t, truth, ins=None):
        """record fact; returns False if it contradicts what is already known"""
        n = self.norm(t, truth)
        if n[0] == "const":
            return n[1]
        t, truth = n
        if t in self.truth:
            return self.truth[t] == truth
        if t[0] == "icmp" and t[1] == "eq" and truth and t[3] == ZERO and isinstance(t[2], tuple) and t[2][0] == "op" and t[2][1] == "mul" and \
                self._guarded_product_positive(t[2]):
            return False        # c * x == 0 where the multiplication guard said c * x does not wrap and neither factor is 0
        if t[0] == "icmp":
            pred, a, b = t[1], t[2], t[3]
            if is_const(a) and not is_const(b):
                a, b = b, a
                pred = {"ult": "ugt", "ugt": "ult", "ule": "uge", "uge": "ule", "slt": "sgt", "sgt": "slt",
                        "sle": "sge", "sge": "sle"}.get(pred, pred)
            av, bv = self.value_of(a), self.value_of(b)
            if av is not None and bv is not None and not pred.startswith("s"):
                r = {"eq": av == bv, "ult": av < bv, "ule": av <= bv, "ugt": av > bv, "uge": av >= bv}.get(pred)
                if r is not None:
                    if r != truth:
                        return False
                    self.truth[t] = truth
                    self.facts.append((t, truth, ins))
                    return True
            if bv is not None and pred.startswith("s") and pred != "sext" and bv < (1 << 31) and self._nonneg(a):
                pred = "u" + pred[1:]
            if bv is not None and not pred.startswith("s"):
                x = a
                while True:
                    if not self._bound(x, pred, bv, truth):
                        return False
                    # the same bound holds for the operand of a value-preserving cast
                    if isinstance(x, tuple) and x[0] == "cast" and x[1] == "zext":
                        x = x[3]
                    elif isinstance(x, tuple) and x[0] == "cast" and x[1] == "trunc" and type_bits(x[2]) and \
                            self.hi.get(x[3], mask(64)) <= mask(type_bits(x[2])):
                        x = x[3]
                    else:
                        break
            elif pred == "eq" and truth and a in self.eqc and b not in self.eqc and not is_const(b):
                pass
        self.truth[t] = truth
        self.facts.append((t, truth, ins))
        return True

    def _guarded_product_positive(self, prod):
        a, b = prod[3], prod[4]
        if not (self.known_positive(a) and self.known_positive(b)):
            return False
        for e in self.events:
            if e.kind == "call" and e.callee == "_cbor_safe_to_multiply" and {e.args[0], e.args[1]} == {a, b} and self.truth.get(e.res) is True:
                return True
        return False

    def _nonneg(self, a):
        """term is a zero-extended (hence non-negative as signed) value"""
        return isinstance(a, tuple) and a[0] == "cast" and a[1] == "zext"

    def _bound(self, a, pred, c, truth):
        lo = self.lo.get(a, 0)
        hi = self.hi.get(a, mask(64))
        if pred == "eq":
            if truth:
                if a in self.eqc and self.eqc[a] != c:
                    return False
                if c in self.nec.get(a, ()):
                    return False
                if not (lo <= c <= hi):
                    return False
                if a in self.inset and c not in self.inset[a]:
                    return False
                self.eqc[a] = c
                self.lo[a] = self.hi[a] = c
            else:
                if self.eqc.get(a) == c:
                    return False
                self.nec.setdefault(a, set()).add(c)
                if lo == hi == c:
                    return False
            return True
        if not truth:
            pred = {"ult": "uge", "ule": "ugt", "ugt": "ule", "uge": "ult"}[pred]
        if pred == "ult":
            hi = min(hi, c - 1)
        elif pred == "ule":
            hi = min(hi, c)
        elif pred == "ugt":
            lo = max(lo, c + 1)
        elif pred == "uge":
            lo = max(lo, c)
        if lo > hi:
            return False
        self.lo[a], self.hi[a] = lo, hi
        if a in self.eqc and not (lo <= self.eqc[a] <= hi):
            return False
        return True

    def assume_in(self, t, values, ins=None):
        v = self.value_of(t)
        if v is not None:
            return v in values
        cur = self.inset.get(t)
        new = frozenset(values) if cur is None else (cur & frozenset(values))
        new = frozenset(x for x in new if x not in self.nec.get(t, ()) and self.lo.get(t, 0) <= x <= self.hi.get(t, mask(64)))
        if not new:
            return False
        self.inset[t] = new
        if len(new) == 1:
            self.eqc[t] = next(iter(new))
        self.facts.append((("in", t, tuple(sorted(new))), True, ins))
        return True

    def assume_notin(self, t, values, ins=None):
        v = self.value_of(t)
        if v is not None:
            return v not in values
        if t in self.inset:
            new = self.inset[t] - frozenset(values)
            if not new:
                return False
            self.inset[t] = new
        self.nec.setdefault(t, set()).update(values)
        self.facts.append((("notin", t, tuple(sorted(values))), True, ins))
        return True

    # relation queries tolerant of how the source spelled the comparison
    def rel_gt(self, a, b, upto=None):
        """is a > b (unsigned) known on this path?  accepts a>b, b<a, !(a<=b), !(b>=a)"""
        tr = self.truth if upto is None else {t: v for t, v, _ in self.facts[:upto]}
        return (tr.get(("icmp", "ugt", a, b)) is True or tr.get(("icmp", "ult", b, a)) is True or
                tr.get(("icmp", "ule", a, b)) is False or tr.get(("icmp", "uge", b, a)) is False)

    def rel_ge(self, a, b, upto=None):
        """is a >= b (unsigned) known on this path?"""
        tr = self.truth if upto is None else {t: v for t, v, _ in self.facts[:upto]}
        return (tr.get(("icmp", "uge", a, b)) is True or tr.get(("icmp", "ule", b, a)) is True or
                tr.get(("icmp", "ult", a, b)) is False or tr.get(("icmp", "ugt", b, a)) is False or self.rel_gt(a, b, upto))

    def known_positive(self, t):
        """is `t >= 1` (unsigned) known on this path, however the test was spelled (t > 0, t != 0, !(t == 0), t >= 1 ...)?"""
        if is_const(t):
            return t[1] >= 1
        if self.lo.get(t, 0) >= 1 or 0 in self.nec.get(t, ()) or self.truth.get(("icmp", "eq", t, ZERO)) is False or \
                self.truth.get(("icmp", "ne", t, ZERO)) is True or self.truth.get(("icmp", "ugt", t, ZERO)) is True or self.truth.get(t) is True:
            return True
        if zero_truth(self, t) is False:
            return True
        # a product (or shift) of t that is known to be non-zero: so is t
        return any(zero_truth(self, p) is False for p in self.products_of(t))

    def products_of(self, t):
        """the terms `t * c` / `c * t` / `t << c` that some fact of this path speaks about"""
        out = []
        for k in self.truth:
            for x in (k[2:4] if isinstance(k, tuple) and k and k[0] == "icmp" else (k,)):
                if isinstance(x, tuple) and len(x) == 5 and x[0] == "op" and x[1] in ("mul", "shl") and \
                        ((x[3] == t and is_const(x[4])) or (x[1] == "mul" and x[4] == t and is_const(x[3]))) and x not in out:
                    out.append(x)
        return out

    def known_zero_count(self, t):
        """is the member count t known to be 0?  Either directly, or through a small multiple of it that is 0 - which says the
        same of t for every count a container was successfully created with (its table of 8- or 16-byte slots was allocated under
        the overflow guard, so 2*t did not wrap: C20.guard)"""
        if self.hi.get(t, 1) == 0 or self.eqc.get(t) == 0 or zero_truth(self, t) is True:
            return True
        for p in self.products_of(t):
            c = p[4] if is_const(p[4]) else p[3]
            small = (p[1] == "mul" and 1 <= c[1] <= 8) or (p[1] == "shl" and 0 <= c[1] <= 3)
            if small and zero_truth(self, p) is True:
                return True
        return False

    def known_nonnull(self, t, upto=None):
        """is `t != 0` among the facts (optionally only the first `upto` facts)?"""
        if is_const(t):
            return t[1] != 0
        b, o = ptr_key(t)
        if b[0] in ("alloca", "g", "fn"):
            return True
        facts = self.facts if upto is None else self.facts[:upto]
        for (ft, truth, _) in facts:
            if ft[0] == "icmp" and ft[1] == "eq":
                x, y = ft[2], ft[3]
                if (x == t and y == ZERO) or (y == t and x == ZERO):
                    if not truth:
                        return True
            elif ft == t and truth:
                return True
        return False

    def known_null(self, t, upto=None):
        if is_const(t):
            return t[1] == 0
        facts = self.facts if upto is None else self.facts[:upto]
        for (ft, truth, _) in facts:
            if ft[0] == "icmp" and ft[1] == "eq":
                x, y = ft[2], ft[3]
                if ((x == t and y == ZERO) or (y == t and x == ZERO)) and truth:
                    return True
            elif ft == t and not truth:
                return True
        return False

    # ---------------- memory ----------------
    def load(self, ptr, ty, ins):
        base, off = ptr_key(ptr)
        k = (base, off)
        if k in self.store:
            v = self.store[k]
            st = self.stype.get(k)
            if st is not None and st != ty and not (st.endswith("*") and ty.endswith("*")):
                if is_const(v) and type_bits(ty) and type_bits(st) and type_bits(ty) <= type_bits(st):
                    return ("c", v[1] & mask(type_bits(ty)))
                return ("reinterpret", ty, v)
            return v
        for (lo, hi) in self.zero.get(base, ()):
            if lo <= off < hi:
                return ZERO
        v = self._from_copies(self.copies.get(base, ()), off, 0)
        if v is not None:
            self.store[k] = v
            self.stype[k] = ty
            return v
        v = ("ld", base, off, self.fresh())
        self.store[k] = v
        self.stype[k] = ty
        return v

    def _from_copies(self, records, off, depth):
        """value at `off` of an object that was (partly) block-copied from other objects: the source's cell at copy time, its zero
        fill, or - a copy of a copy (a struct passed and returned by value) - what the source had been copied from"""
        for rec in reversed(list(records)):
            lo, hi, sbase, delta, snap, szero, ver = rec[:7]
            if lo <= off < hi:
                sk = (sbase, off - delta)
                if sk in snap:
                    return snap[sk]
                for (zl, zh) in szero:
                    if zl <= off - delta < zh:
                        return ZERO
                if len(rec) > 7 and rec[7] and depth < 4:
                    v = self._from_copies(rec[7], off - delta, depth + 1)
                    if v is not None:
                        return v
                return ("ld", sbase, off - delta, ver)
        return None

    def is_defined(self, ptr, size=1):
        """has the location been written on this path (store, zero fill or copy)?"""
        base, off = ptr_key(ptr)
        for (b, lo, hi) in self.defined:
            if b == base and lo <= off and off + size <= hi:
                return True
        return False

    def do_store(self, ptr, val, ty, size=None):
        base, off = ptr_key(ptr)
        if size is None:
            size = (type_bits(ty) or 64) // 8 or 1
        self._kill_range(base, off, off + size)
        self.store[(base, off)] = val
        self.stype[(base, off)] = ty
        self.defined.append((base, off, off + size))
        # a pointer to a local stored into a local: remembered for good (the cell's value may later be forgotten by a
        # kill, the fact that the pointee is reachable through this object must not be)
        vb = ptr_key(val)[0] if isinstance(val, tuple) else None
        if isinstance(vb, tuple) and isinstance(base, tuple) and (vb[0] == "alloca" or vb in self.locals) and \
                (base[0] == "alloca" or base in self.locals) and vb != base:
            self.links.setdefault(base, set()).add(vb)

    def version_for(self, args):
        """how often memory related to these argument terms may have changed so far"""
        n = 0
        bases = [ptr_key(a)[0] for a in args if isinstance(a, tuple)]
        for k in self.killed:
            for b in bases:
                if derives(b, k) or derives(k, b):
                    n += 1
                    break
        return (n, self.globalver)

    def _kill_range(self, base, lo, hi):
        self.memver += 1
        self.killed.append(base)
        for k in [k for k in self.store if k[0] == base and lo <= k[1] < hi]:
            del self.store[k]
            self.stype.pop(k, None)
        if base in self.zero:
            nz = []
            for (zl, zh) in self.zero[base]:
                if zh <= lo or zl >= hi:
                    nz.append((zl, zh))
                else:
                    if zl < lo:
                        nz.append((zl, lo))
                    if hi < zh:
                        nz.append((hi, zh))
            self.zero[base] = nz
        if base in self.copies:
            nc = []
            for rec in self.copies[base]:
                cl, ch = rec[0], rec[1]
                if ch <= lo or cl >= hi:
                    nc.append(rec)
                else:
                    if cl < lo:
                        nc.append((cl, lo) + tuple(rec[2:]))
                    if hi < ch:
                        nc.append((hi, ch) + tuple(rec[2:]))
            self.copies[base] = nc

    def memset(self, ptr, val, n):
        base, off = ptr_key(ptr)
        if n is None:
            self.kill_base(base)
            return
        self._kill_range(base, off, off + n)
        self.defined.append((base, off, off + n))
        if val == ZERO:
            self.zero.setdefault(base, []).append((off, off + n))

    def memcpy(self, dst, src, n):
        db, do = ptr_key(dst)
        sb, so = ptr_key(src)
        if n is None:
            # variable length: everything from the destination offset on may have been overwritten by the
            # corresponding source bytes (extent unknown)
            n = 1 << 40
        self._kill_range(db, do, do + n)
        self.defined.append((db, do, do + n))
        snap = {k: v for k, v in self.store.items() if k[0] == sb and so <= k[1] < so + n}
        szero = list(self.zero.get(sb, ()))
        scop = list(self.copies.get(sb, ()))
        for k, v in snap.items():
            nk = (db, k[1] - so + do)
            self.store[nk] = v
            if k in self.stype:
                self.stype[nk] = self.stype[k]
        # nested copies (src itself a copy) are resolved eagerly only for known entries; record the link
        self.copies.setdefault(db, []).append((do, do + n, sb, do - so, snap, szero, self.fresh(), scop if sb != db else []))

    def reachable_bases(self, roots):
        reach = set(roots)
        changed = True
        while changed:
            changed = False
            for b, vs in self.links.items():
                if any(derives(b, r) for r in reach):
                    for vb in vs:
                        if vb not in reach:
                            reach.add(vb)
                            changed = True
            for (b, off), v in self.store.items():
                if any(derives(b, r) for r in reach):
                    vb = ptr_key(v)[0] if isinstance(v, tuple) else v
                    if isinstance(vb, tuple) and vb not in reach and vb[0] in ("alloca", "call", "ld", "arg", "g"):
                        reach.add(vb)
                        changed = True
        return reach

    def kill_base(self, base):
        self.kill_reachable([base])

    def kill_reachable(self, bases):
        self.memver += 1
        self.killed.extend(bases)
        reach = self.reachable_bases(bases)
        for k in [k for k in self.store if any(derives(k[0], r) for r in reach)]:
            del self.store[k]
            self.stype.pop(k, None)
        for r in list(self.zero):
            if any(derives(r, x) for x in reach):
                del self.zero[r]
        for r in list(self.copies):
            if any(derives(r, x) for x in reach):
                del self.copies[r]

    def kill_all_nonlocal(self):
        self.memver += 1
        self.globalver += 1
        keep_bases = set()
        for b in [k[0] for k in self.store] + list(self.zero) + list(self.copies):
            if (b[0] == "alloca" or b in self.locals) and b not in self.escaped:
                keep_bases.add(b)
        # locals reachable from escaped ones are escaped too
        esc = self.reachable_bases(self.escaped) if self.escaped else set()
        # once reachable from an escaped local, always escaped: the link itself is forgotten by this kill
        self.escaped |= {b for b in esc if b[0] == "alloca" or b in self.locals}
        for k in [k for k in self.store if not (k[0] in keep_bases and k[0] not in esc)]:
            del self.store[k]
            self.stype.pop(k, None)
        for r in [r for r in self.zero if not (r in keep_bases and r not in esc)]:
            del self.zero[r]
        for r in [r for r in self.copies if not (r in keep_bases and r not in esc)]:
            del self.copies[r]


class Path:
    """one complete path: final state + returned term"""

    def __init__(self, st, ret):
        self.st, self.ret = st, ret
        self.events = st.events
        self.facts = st.facts

    def calls(self, name=None, kind=None):
        return [e for e in self.events if e.kind == "call" and (name is None or e.callee == name) and (kind is None or e.ckind == kind)]

    def block_lines(self):
        return ["%s:bb%d" % b for b in self.st.blocks]


# arithmetic guard predicates: judged on their own (C20.guard-semantics); their callers use the *call* as the named fact
# "this product/sum does not wrap", so they stay opaque wherever they are defined (unit, or `static inline` in a header)
OPAQUE = {"_cbor_safe_to_add", "_cbor_safe_to_multiply", "_cbor_safe_signaling_add", "_cbor_highest_bit"}


BOUNDED_RECURSIVE = set()
FORK_CONST_SELECT = True


_LOADER_MEMO = {}


def _is_loader(g, depth=0):
    """a byte loader, wherever it is defined (its own module, a header, or the decoder's unit): one parameter, a byte pointer; a number
    comes back; nothing is written outside its own locals; besides assembling the bytes it calls only other loaders, block-copy /
    byte-swap intrinsics and libc's scaling routine.  The decoder's rules speak of "the result of the loader of width w"."""
    key = (id(g), g.name)
    if key in _LOADER_MEMO:
        return _LOADER_MEMO[key]
    ok = False
    if g.name.startswith("_cbor_load_") and len(g.params) == 1 and g.params[0]["type"] == "i8*" and g.ret_type in ("i8", "i16", "i32", "i64", "float", "double") and g.blocks:
        ok = True
        for i in g.all_insts():
            if i.op == "store":
                b = strip_casts(i.operands[1])
                while isinstance(b, Inst) and b.op in ("getelementptr", "bitcast"):
                    b = b.operands[0]
                if not (isinstance(b, Inst) and b.op == "alloca"):
                    ok = False
            elif i.op == "call":
                c = i.callee or ""
                if c.startswith("llvm.") or c in ("memcpy", "ldexp", "ldexpf", "_cbor_decode_half"):
                    continue
                h = g.mod.get("_funcs", {}).get(c) if isinstance(g.mod, dict) else None
                if c.startswith("_cbor_load_") and depth < 3:
                    continue
                ok = False
    _LOADER_MEMO[key] = ok
    return ok


_VB = {}


def _value_builder(prog, g):
    """a public constructor that is a composition of other public operations on one fresh item: it calls one routine whose result
    it returns (or NULL), and otherwise only library routines that take that result first (mark it, set its value) - no loop,
    no indirect call.  `cbor_build_uint8(v)` = new_int8 + mark_uint + set_uint8."""
    from ir import Inst, Const, strip_casts as _sc
    if g is None or not g.blocks or g.back_edges():
        return False
    made = []
    for r in g.returns():
        vals, seen = [r.operands[0]] if r.operands else [], set()
        while vals:
            v = _sc(vals.pop())
            if isinstance(v, Inst) and v.op == "phi":
                if v.id not in seen:
                    seen.add(v.id)
                    vals.extend(v.operands)
            elif isinstance(v, Inst) and v.op == "call" and v.callee in prog.funcs:
                made.append(v)
            elif isinstance(v, Const) or v.__class__.__name__ in ("Null", "ConstNull"):
                pass
            elif getattr(v, "kind", None) in ("null", "const"):
                pass
            else:
                return False
    ids = {m.id for m in made}
    if len(ids) != 1:
        return False
    ctor = made[0]
    for c in g.calls():
        if c.id == ctor.id or (c.callee or "").startswith("llvm."):
            continue
        if c.callee is None or c.callee not in prog.funcs or not c.operands:
            return False
        a0 = _sc(c.operands[0])
        if not (isinstance(a0, Inst) and a0.id == ctor.id):
            return False
    return len(list(g.calls())) >= 2


def _wired_builders(prog):
    k = id(prog)
    if k not in _VB:
        _VB[k] = set()
        try:
            import tables as _T
            gl = _T.load_callbacks_global(prog)
            if gl is not None and hasattr(gl.get("init_val"), "elems"):
                _VB[k] = {el.name for el in gl["init_val"].elems if hasattr(el, "name")}
        except Exception:
            pass
    return _VB[k]


_EFR = {}


def entry_field_result(prog, eff, callee):
    """(parameter index, [offsets]) when every path of the non-recursive, loop-free library routine `callee` returns the value that
    the field chain param->off1->off2.. held on entry (read before the routine wrote or called anything); None otherwise"""
    key = (id(prog), callee)
    if key in _EFR:
        return _EFR[key]
    _EFR[key] = None
    g = prog.funcs.get(callee)
    if g is None or not g.blocks or g.back_edges() or len(list(g.all_insts())) > 80 or callee in eff.transitive_callees(callee):
        return None
    try:
        ps = Executor(prog, eff, auto_static=False, max_paths=64).run(callee)
    except Exception:
        return None
    out = None
    for pa in ps:
        r, offs = pa.ret, []
        while isinstance(r, tuple) and r[0] == "ld" and len(r) == 4:
            offs.append(r[2])
            r = r[1]
        if not offs or not (isinstance(r, tuple) and r[0] == "arg"):
            return None
        # the reads happen before any effect
        first_effect = next((i for i, e in enumerate(pa.events) if e.kind in ("store", "call", "memcpy")), len(pa.events))
        seen_ = {e.res for e in pa.events[:first_effect] if e.kind == "load"}
        t = pa.ret
        while isinstance(t, tuple) and t[0] == "ld":
            if t not in seen_:
                return None
            t = t[1]
        cand = (r[1], tuple(reversed(offs)))
        if out is not None and out != cand:
            return None
        out = cand
    _EFR[key] = out
    return out


_FF = {}


def fresh_fields(prog, eff, callee):
    """what a constructor guarantees about the block it returns: {offset: (constant, type)} for the fields that hold the same
    constant on every path of `callee` that returns a non-NULL fresh block (the item's type tag, its width, its flavour).  Read
    off the constructor's own paths; None when the routine is not of that kind."""
    key = (id(prog), callee)
    if key in _FF:
        return _FF[key]
    _FF[key] = None
    g = prog.funcs.get(callee)
    S = eff.summ.get(callee) if hasattr(eff, "summ") else None
    if g is None or S is None or not g.blocks or not S["allocates"] or g.back_edges() or len(list(g.all_insts())) > 150 or \
            callee in eff.transitive_callees(callee) or len(g.params) > 2:
        return None
    try:
        ps = Executor(prog, eff, max_paths=64).run(callee)
    except Exception:
        return None
    out = None
    for pa in ps:
        r = pa.ret
        if r is None or r == ("c", 0) or not isinstance(r, tuple):
            continue
        b, o = ptr_key(r)
        if o != 0 or not (isinstance(b, tuple) and b[0] == "call"):
            return None
        al = [e for e in pa.events if e.kind == "call" and e.res == b]
        if not al or al[0].ckind != "alloc":
            return None
        cells = {k[1]: (v, pa.st.stype.get(k)) for k, v in pa.st.store.items() if k[0] == b and is_const(v) and pa.st.stype.get(k)}
        out = cells if out is None else {k: v for k, v in out.items() if cells.get(k) == v}
    _FF[key] = out or None
    return _FF[key]


_PWC = {}


def param_write_cells(prog, eff, callee, k, depth=0):
    """the cells of the object behind parameter k that the library routine `callee` may write, as a set of (offset, size) - when all
    its writes through that parameter are stores at constant offsets of the object itself (a setter); None when anything else may
    be written through it (a store through a pointer read from memory, a variable index, an external or indirect call)"""
    from ir import Inst, Arg, access_path
    key = (id(prog), callee, k)
    if key in _PWC:
        return _PWC[key]
    _PWC[key] = None          # (recursion: unknown)
    g = prog.funcs.get(callee)
    if g is None or not g.blocks or depth > 3:
        return None
    cells = set()

    def rooted(v):
        """(offset) when v is param k plus a constant, "other" when it is rooted in another parameter, a local or a global,
        None when it cannot be told"""
        root, steps = access_path(v)
        if any(st_[0] != "off" for st_ in steps):
            # through a load: the pointee of some field - of this parameter or of anything else
            return None
        if root == ("arg", k):
            return sum(st_[1] for st_ in steps)
        if root[0] in ("arg", "global"):
            return "other"
        if root[0] == "inst":
            ins_ = g.insts.get(root[1])
            if ins_ is not None and ins_.op == "alloca":
                return "other"
        return None
    for i in g.all_insts():
        if i.op == "store":
            r = rooted(i.operands[1])
            if r is None:
                return None
            if r != "other":
                cells.add((r, max(1, (type_bits(i.d.get("val_type", "i64")) or 64) // 8)))
        elif i.op == "call":
            c = i.callee
            if c is None:
                return None
            if c.startswith("llvm.dbg") or c.startswith("llvm.lifetime") or c in ("llvm.assume",):
                continue
            if c.startswith(("llvm.memcpy", "llvm.memmove", "llvm.memset")):
                r = rooted(i.operands[0])
                if r is None:
                    return None
                if r != "other":
                    n = i.operands[2]
                    if not hasattr(n, "v") or not isinstance(n.v, int):
                        return None
                    cells.add((r, n.v))
                continue
            for j, a in enumerate(i.operands):
                if not str(getattr(a, "type", "")).endswith("*"):
                    continue
                r = rooted(a)
                if r == "other":
                    continue
                if c not in prog.funcs:
                    if c.startswith("llvm.") or c in ("__assert_fail", "abort"):
                        continue
                    return None
                if r is None:
                    # a pointer of unknown origin handed on: harmless only if the callee writes through nothing it is given
                    if any(w[0] == "param" and w[1] == j for w in eff.summ[c]["writes"]) or eff.summ[c]["callbacks"]:
                        return None
                    continue
                if not any(w[0] == "param" and w[1] == j for w in eff.summ[c]["writes"]):
                    continue
                sub = param_write_cells(prog, eff, c, j, depth + 1)
                if sub is None:
                    return None
                cells |= {(r + o_, n_) for o_, n_ in sub}
    _PWC[key] = cells
    return cells


def zero_truth(st, v):
    """what the path knows about "the unsigned value v is 0": True / False / None - however the test was spelled
    (== 0, != 0, > 0, <= 0, < 1, >= 1, with the operands in either order)"""
    for pred, c, z in (("eq", 0, True), ("ne", 0, False), ("ugt", 0, False), ("ule", 0, True), ("ult", 1, True), ("uge", 1, False)):
        t = st.truth.get(("icmp", pred, v, ("c", c)))
        if t is not None:
            return t if z else not t
    for pred, c, z in (("eq", 0, True), ("ne", 0, False), ("ult", 0, False), ("uge", 0, True), ("ugt", 1, True), ("ule", 1, False)):
        t = st.truth.get(("icmp", pred, ("c", c), v))
        if t is not None:
            return t if z else not t
    return None


def _composition(prog, g):
    """a non-static routine that is still an implementation detail: it lives in a primitives module (the allocation helpers, the
    decoder's stack) and only composes that module's primitives - direct calls only, at least one primitive among them"""
    if any(getattr(i_, "callee", None) is None for i_ in g.calls()):
        return False
    for prims in (("_cbor_realloc_multiple", "_cbor_alloc_multiple"), ("_cbor_stack_pop", "_cbor_stack_push")):
        anchor = prog.funcs.get(prims[0])
        if anchor is not None and g.unit == anchor.unit and g.name not in prims and any(cc.callee in prims for cc in g.calls()):
            return True
    return False


def is_helper(prog, g):
    """a function that is an implementation detail of its callers: unit-internal (static), or a routine of the allocation-helper
    module that only composes that module's primitives (see static_callees)"""
    if g is None or g.name in OPAQUE or _is_loader(g):
        return False
    if g.internal:
        return True
    return _composition(prog, g)


def static_callees(prog, eff, fname):
    """internal (static) functions reachable from fname through direct calls, excluding those on a cycle made of
    internal functions only: implementation details that may be inlined so that extract-/inline-helper refactorings
    do not change a verdict.  Only these functions are ever inlined, so a helper that calls an exported function back
    (an arm of a recursive routine moved into a helper) is safe to inline: the exported call inside it stays opaque."""
    def internal(c):
        g = prog.funcs.get(c)
        # the byte loaders are the decoder's named primitives (their byte maps are judged on their own: C10.loader); the rules
        # about what the decoder hands to its callbacks speak of "the result of the loader of width w", so a loader stays a
        # call wherever it is defined (its unit, or `static inline` in the loaders header)
        if g is None or c == fname or c in OPAQUE or _is_loader(g):
            return False
        if g.internal:
            return True
        # the tree builder's callbacks may be written with the public value builders (`append(cbor_build_uint8(value))`): what
        # such a builder does to the fresh item is the callback's own business, wherever the three calls are spelled out
        if fname in _wired_builders(prog) and _value_builder(prog, g):
            return True
        # a routine of the allocation-helper module that is a composition of its primitives (it calls them, never the allocator
        # hooks themselves): the growth step of two containers kept in one place is still part of each container's insert routine
        # (likewise a routine of the stack module built from push/pop: the unwinding loop kept next to the stack)
        return _composition(prog, g)

    def on_internal_cycle(c):
        seen = set()
        stack = [c]
        while stack:
            x = stack.pop()
            for d in eff.summ[x]["callees"]:
                if not internal(d):
                    continue
                if d == c:
                    return True
                if d not in seen:
                    seen.add(d)
                    stack.append(d)
        return False
    out = set()
    stack = [fname]
    while stack:
        x = stack.pop()
        for c in eff.summ[x]["callees"]:
            if internal(c) and c not in out:
                if on_internal_cycle(c):
                    # recursive helper: not inlined - except a small loop-free one that only calls itself directly (a loader
                    # that assembles 8 bytes from two 4-byte halves); the executor unrolls that to a nesting of two
                    g_ = prog.funcs[c]
                    direct_only = c in eff.summ[c]["callees"] and not any(
                        internal(d) and d != c and c in eff.transitive_callees(d) for d in eff.summ[c]["callees"])
                    if direct_only and not g_.back_edges() and len(list(g_.all_insts())) <= 80:
                        BOUNDED_RECURSIVE.add(c)
                        out.add(c)
                    continue   # recursive helper: not inlined
                out.add(c)
                stack.append(c)
    return out


class Executor:
    def __init__(self, prog, eff, inline=(), max_paths=MAX_PATHS, loop_bound=1, arith_events=False, snapshot_calls=(), auto_static=True,
                 cut_loops=False, generic_rounds=False):
        self.prog, self.eff = prog, eff
        self.arith_events = arith_events
        self.snapshot_calls = set(snapshot_calls)
        self.inline = set(inline)
        self.inline_given = set(inline)
        self.ctor_fields = True
        self.auto_static = auto_static
        self.max_paths = max_paths
        self.loop_bound = loop_bound
        self.cut_loops = cut_loops
        self.generic_rounds = generic_rounds
        self.npaths = 0

    # ---- term construction ----
    def term(self, f, v, env, args):
        if isinstance(v, Inst):
            t = env.get(v.id)
            if t is None:
                raise AnalysisBroken("%s: use of %r before definition on a path" % (f.name, v))
            return t
        if isinstance(v, Arg):
            return args[v.i]
        if isinstance(v, Const):
            return ("c", v.v)
        if isinstance(v, Null):
            return ZERO
        if isinstance(v, FConst):
            return ("fc", v.bits, v.type)
        if isinstance(v, GlobalRef):
            return ("g", v.name)
        if isinstance(v, FuncRef):
            return ("fn", v.name)
        if isinstance(v, Undef):
            return ("undef",)
        if isinstance(v, CExpr):
            if v.op in ("bitcast", "addrspacecast"):
                return self.term(f, v.operands[0], env, args)
            if v.op == "getelementptr":
                base = self.term(f, v.operands[0], env, args)
                idx = tuple(self.term(f, o, env, args) for o in v.operands[1:])
                if all(is_const(i) and i[1] == 0 for i in idx):
                    return base
                return ("cgep", base, idx)
            if v.op in ("ptrtoint", "inttoptr"):
                return self.term(f, v.operands[0], env, args)
            return ("cexpr", v.op, tuple(self.term(f, o, env, args) for o in v.operands))
        if isinstance(v, Agg):
            return ("agg", v.type)
        return ("other", repr(v))

    def run(self, fname, arg_terms=None, init=None):
        """list of Path objects for every feasible acyclic path of fname.  Unit-internal (static) helpers that are not on
        a cycle of internal functions are implementation details of the function and are always inlined, so that
        extracting code into a helper - or folding a helper back - never changes what a rule sees."""
        f = self.prog.fn(fname)
        if self.auto_static:
            self.inline = set(self.inline_given) | static_callees(self.prog, self.eff, fname)
            # ... and the unit-internal helpers of every routine the caller asked to have inlined
            work = [g for g in self.inline if g in self.prog.funcs]
            seen_ = set(work)
            while work:
                g = work.pop()
                for h in static_callees(self.prog, self.eff, g):
                    if h not in self.inline:
                        self.inline.add(h)
                    if h not in seen_:
                        seen_.add(h)
                        work.append(h)
        if arg_terms is None:
            arg_terms = [("arg", i) for i in range(len(f.params))]
        st = State()
        for i, p in enumerate(f.params):
            if p.get("sret"):
                st.locals.add(arg_terms[i])
        if init:
            init(st)
        self.npaths = 0
        out = []
        self._root_fn = f if arg_terms == [("arg", i) for i in range(len(f.params))] or arg_terms is None else None
        for st2, ret in self.exec_fn(f, arg_terms, st, 0):
            out.append(Path(st2, ret))
        return out

    def exec_fn(self, f, args, st, depth):
        if depth > 8:
            raise AnalysisBroken("inlining too deep at %s" % f.name)
        yield from self.exec_from(f, f.entry, 0, None, {}, st, args, depth)

    def exec_from(self, f, b, idx, prev, env, st, args, depth):
        if idx == 0:
            st.blocks.append((f.name, b.id))
            # phis first, evaluated simultaneously
            newvals = {}
            for ins in b.insts:
                if ins.op != "phi":
                    break
                for v, pb in ins.incoming:
                    if pb is prev:
                        newvals[ins.id] = self.term(f, v, env, args)
                        if self.generic_rounds and depth == 0 and is_const(newvals[ins.id]) and not f.dominates_block(b, pb):
                            # an arbitrary round of the loop, not the first: a loop-carried counter that starts at a
                            # constant stands for any value it may have reached
                            newvals[ins.id] = ("phi", f.name, ins.id)
                        break
                else:
                    raise AnalysisBroken("%s: phi %r has no incoming for predecessor" % (f.name, ins))
            env.update(newvals)
        insts = b.insts
        i = idx
        while i < len(insts):
            ins = insts[i]
            op = ins.op
            if op == "phi":
                i += 1
                continue
            if op == "call":
                callee = ins.callee
                if callee is None and getattr(ins, "callee_val", None) is not None:
                    # a call through a function pointer whose value is known on this path (a routine passed as an argument
                    # to a helper that has been inlined): resolved to the direct call
                    cv = self.term(f, ins.callee_val, env, args)
                    while isinstance(cv, tuple) and cv[0] == "cast":
                        cv = cv[3]
                    if isinstance(cv, tuple) and cv[0] == "fn" and cv[1] in self.prog.funcs:
                        callee = cv[1]
                    elif isinstance(cv, tuple) and cv[0] == "ld" and isinstance(cv[1], tuple) and cv[1][0] == "idx" and cv[1][3]:
                        # a call through a constant dispatch table: one continuation per entry, each knowing its index
                        tt_ = table_targets(self.prog, f, ins)
                        if tt_:
                            idx_t = cv[1][3][-1]
                            for j_, name_ in enumerate(tt_):
                                st2 = st.clone()
                                if not st2.assume(("icmp", "eq", idx_t, ("c", j_)), True, ins):
                                    continue
                                env2 = dict(env)
                                if name_ in self.inline:
                                    g = self.prog.funcs[name_]
                                    actuals = [self.term(f, o, env2, args) for o in ins.operands]
                                    st2.events.append(Event("enter", ins, f, tuple(actuals), None, len(st2.facts), name_, "inline", None, depth))
                                    for st3, ret in self.exec_fn(g, actuals, st2, depth + 1):
                                        env3 = dict(env2)
                                        env3[ins.id] = ret if ret is not None else ("void",)
                                        st3.events.append(Event("leave", ins, f, tuple(actuals), ret, len(st3.facts), name_, "inline", None, depth))
                                        yield from self.exec_from(f, b, i + 1, prev, env3, st3, args, depth)
                                else:
                                    self.do_call(f, ins, env2, st2, args, depth, name_)
                                    yield from self.exec_from(f, b, i + 1, prev, env2, st2, args, depth)
                            return
                if callee in self.inline and callee in self.prog.funcs and callee in BOUNDED_RECURSIVE and \
                        sum(1 if e_.kind == "enter" else -1 for e_ in st.events if e_.kind in ("enter", "leave") and e_.callee == callee) >= 2:
                    self.do_call(f, ins, env, st, args, depth, callee)      # deeper self-nesting stays an opaque call
                    i += 1
                    continue
                if callee in self.inline and callee in self.prog.funcs:
                    g = self.prog.funcs[callee]
                    actuals = [self.term(f, o, env, args) for o in ins.operands]
                    st.events.append(Event("enter", ins, f, tuple(actuals), None, len(st.facts), callee, "inline", None, depth))
                    for st2, ret in self.exec_fn(g, actuals, st, depth + 1):
                        env2 = dict(env)
                        env2[ins.id] = ret if ret is not None else ("void",)
                        st2.events.append(Event("leave", ins, f, tuple(actuals), ret, len(st2.facts), callee, "inline", None, depth))
                        yield from self.exec_from(f, b, i + 1, prev, env2, st2, args, depth)
                    return
                self.do_call(f, ins, env, st, args, depth, callee)
                i += 1
                continue
            if op == "br":
                if len(b.succs) == 1 or b.succs[0] is b.succs[1]:
                    yield from self.goto(f, b, b.succs[0], env, st, args, depth, None)
                    return
                c = self.term(f, ins.operands[0], env, args)
                for k, (succ, truth) in enumerate(((b.succs[0], True), (b.succs[1], False))):
                    st2 = st.clone() if k == 0 else st
                    if st2.assume(c, truth, ins):
                        yield from self.goto(f, b, succ, dict(env) if k == 0 else env, st2, args, depth, ins)
                return
            if op == "switch":
                c = self.term(f, ins.operands[0], env, args)
                groups = {}
                for v, tb in ins.cases:
                    groups.setdefault(tb.id, []).append(v)
                allvals = [v for v, _ in ins.cases]
                targets = list(groups.items())
                for bid, vals in targets:
                    st2 = st.clone()
                    if st2.assume_in(c, vals, ins):
                        yield from self.goto(f, b, f.bmap[bid], dict(env), st2, args, depth, ins)
                st2 = st
                if st2.assume_notin(c, allvals, ins):
                    # default is feasible only if some value of the scrutinee's width is left
                    bits = type_bits(ins.operands[0].type) if hasattr(ins.operands[0], "type") else None
                    if bits is not None and bits <= 16 and len(set(allvals)) >= (1 << bits):
                        return
                    yield from self.goto(f, b, ins.default, env, st2, args, depth, ins)
                return
            if op == "ret":
                ret = self.term(f, ins.operands[0], env, args) if ins.operands else None
                if isinstance(ret, tuple) and not is_const(ret):
                    # a value the path's facts pin to a constant is returned as that constant (`return res;` on the
                    # path where res == NULL is known is the same as `return NULL;`)
                    c_ = st.eqc.get(ret)
                    if c_ is not None:
                        ret = ("c", c_)
                    elif st.known_null(ret):
                        ret = ZERO
                    elif st.truth.get(ret) is not None and self.type_of_term(ret) == "i1":
                        ret = ("c", int(st.truth[ret]))
                    elif self.type_of_term(ret) == "i1":
                        # the same test spelled the other way round (`a != b` returned where `a == b` was branched on)
                        n_ = st.norm(ret, True)
                        if n_[0] == "const":
                            ret = ("c", int(bool(n_[1])))
                        elif n_[0] in st.truth:
                            ret = ("c", int(st.truth[n_[0]] == n_[1]))
                if depth > 0 and f.ret_type == "i1" and isinstance(ret, tuple) and not is_const(ret) and \
                        self.eff.summ.get(f.name, {}).get("writes"):
                    # an inlined routine with side effects that answers with a computed truth value (`return !(a < b);` after
                    # updating its out-parameter): the caller sees a definite answer on each continuation
                    for k_, truth_ in enumerate((True, False)):
                        st2 = st.clone() if k_ == 0 else st
                        if st2.assume(ret, truth_, ins):
                            r2 = ("c", int(truth_))
                            st2.events.append(Event("ret", ins, f, (r2,), r2, len(st2.facts), None, None, None, depth))
                            yield st2, r2
                    return
                st.events.append(Event("ret", ins, f, (ret,), ret, len(st.facts), None, None, None, depth))
                if depth == 0:
                    self.npaths += 1
                    if self.npaths > self.max_paths:
                        raise PathCapExceeded("%s: more than %d paths" % (f.name, self.max_paths))
                yield st, ret
                return
            if op == "unreachable":
                return
            if op == "select" and FORK_CONST_SELECT:
                # `c ? K1 : K2` with constant arms is a branch written as an expression: both outcomes are explored as paths of
                # their own (with the fact that decides them), so that everything computed from the value is concrete
                c_, a_, b_ = (self.term(f, o, env, args) for o in ins.operands)
                n_ = st.norm(c_, True)
                if is_const(a_) and is_const(b_) and a_ != b_ and n_[0] != "const" and n_[0] not in st.truth:
                    for k_, (truth_, val_) in enumerate(((True, a_), (False, b_))):
                        st2 = st.clone() if k_ == 0 else st
                        if st2.assume(c_, truth_, ins):
                            env2 = dict(env) if k_ == 0 else env
                            env2[ins.id] = val_
                            yield from self.exec_from(f, b, i + 1, prev, env2, st2, args, depth)
                    return
            env[ins.id] = self.exec_inst(f, ins, env, st, args, depth)
            i += 1
        raise AnalysisBroken("%s: block %r has no terminator" % (f.name, b))

    def goto(self, f, src, dst, env, st, args, depth, ins):
        key = (f.name, depth, src.id, dst.id)
        if f.dominates_block(dst, src):  # back edge
            n = st.edges.get(key, 0)
            if n >= self.loop_bound:
                if self.cut_loops and depth == 0:
                    # the path ends here, as "continue with these values": what the loop-carried variables become for the next
                    # round (the loop form of a tail call)
                    nxt = []
                    for pi in dst.insts:
                        if pi.op != "phi":
                            break
                        for v, pb in pi.incoming:
                            if pb is src:
                                nxt.append((pi.id, self.term(f, v, env, args)))
                    ret = ("cut", dst.id, tuple(nxt))
                    st.events.append(Event("cut", ins, f, (ret,), ret, len(st.facts), None, None, None, depth))
                    self.npaths += 1
                    yield st, ret
                return
            st.edges[key] = n + 1
        yield from self.exec_from(f, dst, 0, src, env, st, args, depth)

    # ---- straight-line instructions ----
    def exec_inst(self, f, ins, env, st, args, depth):
        op = ins.op
        T = lambda v: self.term(f, v, env, args)  # noqa: E731
        ops = ins.operands
        if op == "alloca":
            t = ("alloca", f.name, ins.id, depth)
            # a re-executed alloca (loop) denotes a fresh cell: clear it
            st.kill_base(t)
            return t
        if op in ("bitcast", "addrspacecast", "ptrtoint", "inttoptr", "freeze"):
            return T(ops[0])
        if op == "getelementptr":
            base = T(ops[0])
            off = ins.d.get("const_offset")
            if off is not None:
                return mkptr(base, off)
            idx = tuple(T(o) for o in ops[1:])
            return ("idx", base, ins.d.get("src_type"), idx)
        if op == "load":
            p = T(ops[0])
            if isinstance(p, tuple) and p[0] == "g":
                g = self.prog.global_for(f, p[1])
                iv = g.get("init_val") if g and g.get("constant") else None
                if isinstance(iv, Const):
                    return ("c", iv.v)
                if isinstance(iv, Agg) and not iv.zero and iv.elems and all(isinstance(x, Const) for x in iv.elems) and \
                        (g.get("type") or "").startswith("["):
                    return ("c", iv.elems[0].v)     # element 0 of a constant array of numbers
            if isinstance(p, tuple) and p[0] == "cgep" and isinstance(p[1], tuple) and p[1][0] == "g" and len(p[2]) == 2 and \
                    p[2][0] == ("c", 0) and is_const(p[2][1]):
                g = self.prog.global_for(f, p[1][1])
                iv = g.get("init_val") if g and g.get("constant") else None
                if isinstance(iv, Agg) and not iv.zero and (g.get("type") or "").startswith("[") and p[2][1][1] < len(iv.elems) and \
                        isinstance(iv.elems[p[2][1][1]], Const):
                    return ("c", iv.elems[p[2][1][1]].v)   # a constant element of a constant array of numbers
            # a field of a constant aggregate (a `static const` table of function pointers or numbers, possibly handed to a helper
            # by address): the value is its initialiser, whoever reads it
            gb, go = ptr_key(p) if isinstance(p, tuple) else (None, 0)
            if isinstance(gb, tuple) and gb[0] == "g":
                g = self.prog.global_for(f, gb[1]) or self.prog.globals.get(gb[1])
                iv = g.get("init_val") if g and g.get("constant") else None
                sname = (g.get("type") or "").lstrip("%") if g else ""
                lay = self.prog.structs.get(sname)
                if isinstance(iv, Agg) and lay and not iv.zero and go in lay.get("offsets", []) and len(iv.elems) == len(lay["offsets"]):
                    el = iv.elems[lay["offsets"].index(go)]
                    while isinstance(el, CExpr) and el.op == "bitcast":
                        el = el.operands[0]
                    if isinstance(el, FuncRef):
                        return ("fn", el.name)
                    if isinstance(el, Const):
                        return ("c", el.v)
            v = st.load(p, ins.type, ins)
            st.events.append(Event("load", ins, f, (p,), v, len(st.facts), None, None, None, depth))
            self.note_deref(st, p)
            return v
        if op == "store":
            v, p = T(ops[0]), T(ops[1])
            st.events.append(Event("store", ins, f, (p, v), None, len(st.facts), None, None, ins.d.get("val_type"), depth))
            st.do_store(p, v, ins.d.get("val_type", "i64"))
            self.note_deref(st, p)
            return ("void",)
        if op in ("zext", "sext", "trunc", "fpext", "fptrunc", "fptoui", "fptosi", "uitofp", "sitofp"):
            a = T(ops[0])
            if is_const(a):
                if op == "trunc":
                    return ("c", a[1] & mask(type_bits(ins.type)))
                if op == "zext":
                    return a
                if op == "sext":
                    sb = type_bits(ops[0].type) if hasattr(ops[0], "type") else None
                    if sb:
                        v = a[1]
                        if v >> (sb - 1):
                            v = (v - (1 << sb)) & mask(type_bits(ins.type))
                        return ("c", v)
            if op == "trunc" and isinstance(a, tuple) and a[0] == "cast" and a[1] in ("zext", "sext") and self.type_of_term(a[3]) == ins.type:
                return a[3]      # a value widened (e.g. a bool kept in a byte-sized local) and narrowed back
            return ("cast", op, ins.type, a)
        if op in ("icmp", "fcmp"):
            a, b = T(ops[0]), T(ops[1])
            if op == "icmp" and is_const(a) and is_const(b) and not ins.pred.startswith("s"):
                r = {"eq": a[1] == b[1], "ne": a[1] != b[1], "ult": a[1] < b[1], "ule": a[1] <= b[1],
                     "ugt": a[1] > b[1], "uge": a[1] >= b[1]}[ins.pred]
                return ("c", int(r))
            if op == "icmp" and is_const(a) and is_const(b) and ins.pred.startswith("s"):
                bits_ = type_bits(getattr(ops[0], "type", None)) or 64

                def sg(v):
                    v &= mask(bits_)
                    return v - (1 << bits_) if v >> (bits_ - 1) else v
                x, y = sg(a[1]), sg(b[1])
                r = {"slt": x < y, "sle": x <= y, "sgt": x > y, "sge": x >= y}[ins.pred]
                return ("c", int(r))
            if op == "icmp" and ins.pred in ("eq", "ne") and is_const(a) and not is_const(b):
                a, b = b, a
            return (op, ins.pred, a, b)
        if op in ("add", "sub", "mul", "and", "or", "xor", "shl", "lshr", "ashr", "udiv", "urem", "sdiv", "srem",
                  "fadd", "fsub", "fmul", "fdiv", "fneg", "frem"):
            a = T(ops[0])
            b = T(ops[1]) if len(ops) > 1 else None
            bits = type_bits(ins.type)
            if self.arith_events and bits == 64 and op in ("add", "sub", "mul", "shl") and b is not None:
                st.events.append(Event("arith", ins, f, (a, b), None, len(st.facts), op, "arith", None, depth))
            if op in ("shl", "lshr", "ashr") and b is not None and not is_const(b):
                # a shift by a run-time distance: recorded so that its range can be audited
                st.events.append(Event("shift", ins, f, (a, b), None, len(st.facts), op, "shift", bits, depth))
            if op == "ashr" and b is not None and is_const(a) and is_const(b) and bits and not (a[1] >> (bits - 1)):
                return ("c", a[1] >> b[1] if b[1] < 128 else 0)
            if b is not None and is_const(a) and is_const(b) and bits and op in ("add", "sub", "mul", "and", "or", "xor", "shl", "lshr"):
                x, y = a[1], b[1]
                r = {"add": x + y, "sub": x - y, "mul": x * y, "and": x & y, "or": x | y, "xor": x ^ y,
                     "shl": x << y if y < 128 else 0, "lshr": x >> y if y < 128 else 0}[op]
                return ("c", r & mask(bits))
            if op == "xor" and ins.type == "i1" and b == ("c", 1):
                return ("not", a)
            if op in ("add", "or", "sub", "shl", "lshr", "xor") and b == ZERO:
                return a
            if op in ("lshr", "shl") and bits and b is not None and is_const(b) and isinstance(a, tuple) and len(a) == 5 and a[0] == "op" and \
                    a[1] == op and a[2] == ins.type and is_const(a[4]):
                # a value shifted piecewise (`v >>= 8` once per loop round): one shift by the sum of the distances
                tot = a[4][1] + b[1]
                return ZERO if tot >= bits else ("op", op, ins.type, a[3], ("c", tot))
            if op in ("add", "or", "xor") and a == ZERO:
                return b
            if op == "sub" and bits == 64 and b is not None and isinstance(a, tuple) and isinstance(b, tuple) and \
                    (a[0] in ("p", "idx", "cast") or b[0] in ("p", "idx", "cast")):
                # a pointer difference whose variable parts cancel (`cursor - buffer` after a fixed number of `*cursor++`)
                d_ = linear_diff(a, b)
                if not d_:
                    return ZERO
                if set(d_) == {1}:
                    return ("c", d_[1] & mask(64))
            if op in ("add", "mul", "and", "or", "xor") and b is not None and repr(a) > repr(b):
                a, b = b, a  # commutative: canonical order
            return ("op", op, ins.type, a, b, ins.id)[:5]
        if op == "select":
            c, a, b = T(ops[0]), T(ops[1]), T(ops[2])
            n = st.norm(c, True)
            if n[0] == "const":
                return a if n[1] else b
            if n[0] in st.truth:
                return a if st.truth[n[0]] == n[1] else b
            return ("sel", c, a, b)
        if op == "extractvalue":
            a = T(ops[0])
            return ("xv", a, tuple(ins.d.get("indices", ())))
        if op == "insertvalue":
            return ("iv", T(ops[0]), T(ops[1]), tuple(ins.d.get("indices", ())))
        return ("opaque", op, ins.id)

    @staticmethod
    def note_deref(st, p):
        """a pointer that has been dereferenced on this path is not NULL afterwards: a later branch on `p == NULL` has only
        its false arm (path pruning only - the list of facts, which the nullness rules consult, is not touched)"""
        b = ptr_key(p)[0] if isinstance(p, tuple) else None
        while isinstance(b, tuple) and b[0] == "idx":
            b = ptr_key(b[1])[0]
        if isinstance(b, tuple) and b[0] in ("ld", "call", "arg"):
            st.nec.setdefault(b, set()).add(0)

    def elem_size(self, ty):
        """byte size of an element type of a single-index address computation (scalars, pointers, known structs)"""
        if not ty:
            return None
        if ty.endswith("*"):
            return 8
        if ty.startswith("i") and ty[1:].isdigit():
            return max(1, int(ty[1:]) // 8)
        if ty == "float":
            return 4
        if ty == "double":
            return 8
        st_ = self.prog.structs.get(ty.lstrip("%"))
        if st_ and "size" in st_:
            return st_["size"]
        return None

    def type_of_term(self, t):
        """IR type of a term where the term itself says so (None otherwise)"""
        if not isinstance(t, tuple):
            return None
        if t[0] in ("icmp", "fcmp", "not"):
            return "i1"
        if t[0] in ("cast",):
            return t[2]
        if t[0] == "op":
            return t[2]
        if t[0] == "call" and t[1] in self.prog.funcs:
            return self.prog.funcs[t[1]].ret_type
        if t[0] == "arg" and getattr(self, "_root_fn", None) is not None and t[1] < len(self._root_fn.params):
            return self._root_fn.params[t[1]]["type"]     # a parameter of the function under analysis
        return None

    # ---- calls that are not inlined ----
    def do_call(self, f, ins, env, st, args, depth, resolved=None):
        T = lambda v: self.term(f, v, env, args)  # noqa: E731
        actuals = tuple(T(o) for o in ins.operands)
        callee = resolved or ins.callee
        # snapshot of the cells that by-address arguments point to (before the call)
        pointee = []
        for a in actuals:
            b, o = ptr_key(a) if isinstance(a, tuple) else (a, 0)
            if isinstance(b, tuple) and b[0] == "alloca" and (b, o) in st.store:
                pointee.append(st.store[(b, o)])
            else:
                pointee.append(None)
        res = ("call", callee or "?", ins.id, st.fresh())
        if ins.type == "void":
            res_t = ("void",)
        else:
            res_t = res
        if callee is None:
            kind, which = indirect_kind(ins)
            if kind == "unknown" and getattr(ins, "callee_val", None) is not None:
                # a callback that travelled as a value: a field of the caller's callback table, loaded at the call site of a helper and
                # invoked inside it through a function-pointer parameter
                cv = T(ins.callee_val)
                while isinstance(cv, tuple) and cv[0] == "cast":
                    cv = cv[3]
                if isinstance(cv, tuple) and cv[0] == "ld" and isinstance(cv[1], tuple):
                    cb_, co_ = ptr_key(cv[1])
                    co_ = co_ + (cv[2] if len(cv) > 2 and isinstance(cv[2], int) else 0)
                    lay = self.prog.structs.get("struct.cbor_callbacks")
                    if self.type_of_term(cb_) == "%struct.cbor_callbacks*" and lay and co_ in lay.get("offsets", []):
                        kind, which = "callback", lay["offsets"].index(co_)
            if kind == "alloc" and ins.type != "void":
                res_t = ("call", which, ins.id, res[3])
            ev = Event("call", ins, f, actuals, res_t, len(st.facts), which if kind != "callback" else "callback#%s" % which,
                       kind, dict(pointee=pointee), depth)
            st.events.append(ev)
            if kind == "alloc":
                if which == "_cbor_realloc":
                    # may move/keep the block; contents preserved; treat old block's entries as gone
                    st.kill_reachable([ptr_key(actuals[0])[0]])
                elif which == "_cbor_free":
                    st.kill_reachable([ptr_key(actuals[0])[0]])
            else:
                for a in actuals:
                    b = ptr_key(a)[0] if isinstance(a, tuple) else a
                    if isinstance(b, tuple) and b[0] == "alloca":
                        st.escaped.add(b)
                st.kill_all_nonlocal()
            env[ins.id] = res_t
            return
        if callee.startswith("llvm.dbg"):
            env[ins.id] = ("void",)
            return
        if callee.startswith("llvm.memset"):
            n = actuals[2][1] if is_const(actuals[2]) else None
            st.events.append(Event("memset", ins, f, actuals, None, len(st.facts), callee, "intrinsic", None, depth))
            st.memset(actuals[0], actuals[1], n)
            env[ins.id] = ("void",)
            return
        if callee.startswith("llvm.memcpy") or callee.startswith("llvm.memmove"):
            n = actuals[2][1] if is_const(actuals[2]) else None
            st.events.append(Event("memcpy", ins, f, actuals, None, len(st.facts), callee, "intrinsic", None, depth))
            sb_, so_ = ptr_key(actuals[1])
            cells = []
            if n is not None and n <= 64 and isinstance(sb_, tuple) and sb_[0] == "alloca":
                # assignment of a small aggregate built in a local (compound literal): besides the block copy, the
                # member-wise stores it stands for are recorded, so that `x = (T){a, b}` and `x.f = a; x.g = b` look alike
                cells = sorted((k[1], v, st.stype.get(k)) for k, v in st.store.items() if k[0] == sb_ and so_ <= k[1] < so_ + n)
            st.memcpy(actuals[0], actuals[1], n)
            for off_, v_, ty_ in cells:
                if ty_ is None:
                    continue
                st.events.append(Event("store", ins, f, (mkptr(actuals[0], off_ - so_), v_), None, len(st.facts), None, None, ty_, depth))
            env[ins.id] = ("void",)
            return
        ckind = "lib" if callee in self.prog.funcs else "ext"
        pure = False
        if ckind == "lib" and ins.type != "void":
            S0 = self.eff.summ[callee]
            pure = not S0["writes"] and not S0["allocates"] and not S0["frees"] and not S0["callbacks"] and not S0["ext"]
            if pure:
                pk = (callee, actuals, st.version_for(actuals))
                if pk in st.pure:
                    res_t = st.pure[pk]
                else:
                    st.pure[pk] = res_t
        if ckind == "lib" and not pure and ins.type.endswith("*"):
            # a routine that hands back what a field held when it was called (`item = _cbor_stack_pop(stack)`: the popped record's
            # item): the result is that value - read off the routine's own paths, not assumed
            chain = entry_field_result(self.prog, self.eff, callee)
            if chain is not None and chain[0] < len(actuals):
                t_ = actuals[chain[0]]
                for off_ in chain[1]:
                    p_ = mkptr(t_, off_)
                    t_ = st.load(p_, "i8*", ins)
                    # (the reads the routine makes on the caller's behalf are part of the path, like the caller's own)
                    st.events.append(Event("load", ins, f, (p_,), t_, len(st.facts), None, None, "synthetic", depth))
                res_t = t_
        ev = Event("call", ins, f, actuals, res_t, len(st.facts), callee, ckind, dict(pointee=pointee), depth)
        if callee in self.snapshot_calls:
            ev.extra["state"] = st.clone()   # memory as the callee receives it
        st.events.append(ev)
        if ckind == "lib" and ins.type.endswith("*") and not pure and self.ctor_fields:
            ff = fresh_fields(self.prog, self.eff, callee)
            if ff:
                # the constructor's guarantees about the fresh block (meaningful where the result is not NULL)
                for off_, (v_, ty_) in ff.items():
                    st.do_store(mkptr(res_t, off_), v_, ty_)
        if ckind == "lib":
            S = self.eff.summ[callee]
            kill = []
            for r in S["writes"]:
                if r[0] == "param" and r[1] < len(actuals):
                    a = actuals[r[1]]
                    cells_ = param_write_cells(self.prog, self.eff, callee, r[1]) if isinstance(a, tuple) and not S["callbacks"] else None
                    if cells_ is not None:
                        # a setter: only the cells it stores to change (C: nothing else of the object, nothing behind its pointers)
                        ab_, ao_ = ptr_key(a)
                        for o_, n_ in cells_:
                            st._kill_range(ab_, ao_ + o_, ao_ + o_ + n_)
                        continue
                    kill.append(ptr_key(a)[0] if isinstance(a, tuple) else a)
                elif r[0] == "global":
                    kill.append(("g", r[1]))
                elif r[0] == "unknown":
                    st.kill_all_nonlocal()
            if S["callbacks"]:
                for a in actuals:
                    b = ptr_key(a)[0] if isinstance(a, tuple) else a
                    if isinstance(b, tuple) and b[0] == "alloca":
                        st.escaped.add(b)
                st.kill_all_nonlocal()
            elif kill:
                st.kill_reachable(kill)
        else:
            m = EXTERNAL_MODEL.get(callee)
            if m is None:
                st.kill_all_nonlocal()
            else:
                if callee in ("memcpy", "memmove"):
                    n = actuals[2][1] if is_const(actuals[2]) else None
                    st.memcpy(actuals[0], actuals[1], n)
                    res_t = actuals[0]
                    ev.res = res_t
                    ev.callee = "memcpy"     # memmove is memcpy that also tolerates overlap: one name for the rules
                elif callee == "memset" and len(actuals) >= 3:
                    n = actuals[2][1] if is_const(actuals[2]) else None
                    v_ = actuals[1]
                    while isinstance(v_, tuple) and v_[0] == "cast":
                        v_ = v_[3]
                    st.memset(actuals[0], v_, n)
                    res_t = actuals[0]
                    ev.res = res_t
                else:
                    for i in m["writes"]:
                        if i < len(actuals):
                            st.kill_reachable([ptr_key(actuals[i])[0]])
        env[ins.id] = res_t
