"""C13 - all heap traffic goes through the configured allocator (DESIGN §4 C13)."""
from build import AnalysisBroken
from ir import Inst, Arg, Const, Null, GlobalRef, FuncRef, CExpr, strip_casts, apath, const_int
from effects import indirect_kind, ALLOC_GLOBALS
import rules
import tables
import paths as _P13

ALLOC_FREE_SURFACE_PREFIXES = ("cbor_encode_", "_cbor_encode_", "cbor_serialize_")
ALLOC_FREE_SURFACE = ("cbor_stream_decode", "cbor_serialize", "cbor_serialized_size", "_cbor_encoded_header_size")


def run(ctx, chk):
    prog = ctx.prog()
    eff = ctx.effects(prog)
    chk.explanation = ("who-may-call / effect analysis over the whole-library call graph (IR of all %d units): external "
                       "symbol inventory, allocator-pointer writers, provenance of every released/resized block against "
                       "the constructor table, and transitive allocates/frees summaries of the allocation-free surface"
                       % len(prog.facts["units"]))
    chk.rule("C13.ext", "every external symbol referenced by a library unit is a non-allocating libc function; "
                        "malloc/realloc/free appear only as the initialisers of _cbor_malloc/_cbor_realloc/_cbor_free")
    chk.rule("C13.indirect", "every indirect call is through a load of one of the three allocator pointers, of a field of struct "
                             "cbor_callbacks, or reaches a statically known set of library functions (constant dispatch table, routine "
                             "passed to a unit-internal helper)")
    chk.rule("C13.setter", "the allocator pointers are stored to only in cbor_set_allocs, each from the parameter of "
                           "the matching position; their only other use is load-then-call")
    chk.rule("C13.provenance", "every block passed to _cbor_free/_cbor_realloc is an allocator result obtained in the "
                               "same function, a parameter of an internal helper whose call sites satisfy this rule, or "
                               "a load of an owning field (item.data for a type whose constructors allocate data "
                               "separately or leave it NULL, chunks table, stack top record, the item itself); never "
                               "an interior pointer")
    chk.rule("C13.surface", "allocates(f) and frees(f) are false over all transitive callees for the streaming "
                            "decoder, every cbor_encode_*, cbor_serialize and the per-type serializers, "
                            "cbor_serialized_size")
    chk.rule("C13.control", "positive control: the rule reports the seeded violation in /verif/controls")
    chk.rule("C13.blocks", "every raw allocator block is, on every path, attached / returned / handed over / freed exactly once - "
                           "a block that is dropped is never handed to the installed free (shared with C06.blocks)")
    chk.not_decided += ["double release / use after release of ITEMS (decided under C04, T-release)"]
    import ownership as O
    from props.c06 import check_blocks
    check_blocks(chk, "C13.blocks", prog, O.PathCache(prog, eff), floor=26)
    chk.rule("C13.no-stale-block", "a block handed to the installed free is not left behind in a field of a live object (it would be "
                                   "released or resized a second time): after freeing a block read from a heap field, the field is "
                                   "overwritten or its owner is freed on the same path; the reallocation wrappers are inlined, so a "
                                   "wrapper that frees its argument on failure is judged together with callers that keep the pointer")
    from props.c06 import check_dangling
    check_dangling(chk, "C13.no-stale-block", prog, eff, O.PathCache(prog, eff))

    # ---- rule ext -------------------------------------------------------
    nrefs = 0
    for lib_only in (True, False):
        fired = set()
        for sym, kind, where, fname in rules.ext_refs(prog, lib_only=lib_only):
            is_ctl = not lib_only and (fname.startswith("verif_ctl_"))
            if not lib_only and not is_ctl:
                continue
            if rules.is_intrinsic(sym):
                continue
            if lib_only:
                nrefs += 1
            if sym in ("malloc", "realloc", "free") and kind == "global-init":
                want = {"malloc": "_cbor_malloc", "realloc": "_cbor_realloc", "free": "_cbor_free"}[sym]
                ok = fname == want
                if lib_only:
                    chk.ob("C13.ext", "%s as initialiser of %s" % (sym, fname), ok, where, fn=fname,
                           detail="" if ok else "libc %s installed in the wrong pointer" % sym)
                continue
            if sym in rules.ALLOCATING_LIBC:
                if lib_only:
                    chk.ob("C13.ext", "%s %s in %s" % (kind, sym, fname), False, where, fn=fname,
                           key="%s:%s" % (fname, sym), detail="libc allocation function bypasses the configured allocator")
                else:
                    fired.add(fname)
                continue
            if sym in rules.PURE_LIBC or sym in rules.NON_REENTRANT_LIBC:
                if lib_only:
                    chk.ob("C13.ext", "%s %s in %s" % (kind, sym, fname), True, where, fn=fname, key="%s:%s" % (fname, sym),
                           nontrivial=False)
                continue
            if lib_only:
                raise AnalysisBroken("external symbol %s (%s, %s) is not classified as allocating or non-allocating; "
                                     "add it to rules.PURE_LIBC / ALLOCATING_LIBC with a reason" % (sym, fname, where))
        if not lib_only:
            for ctl in ("verif_ctl_direct_free", "verif_ctl_strdup"):
                chk.ob("C13.control", ctl, ctl in fired, "controls/ctl_alloc.c", detail="" if ctl in fired else "control not reported: rule C13.ext is blind")
    chk.floor("C13.ext", "external references", nrefs, 8)
    # the three initialisers must exist
    for g, sym in (("_cbor_malloc", "malloc"), ("_cbor_realloc", "realloc"), ("_cbor_free", "free")):
        gl = prog.globals.get(g)
        if gl is None:
            raise AnalysisBroken("allocator pointer %s not found" % g)

    # ---- rule indirect -----------------------------------------------------
    n_ind = 0
    for f in prog.lib_funcs():
        for i in f.calls():
            if i.callee is None:
                n_ind += 1
                k, which = indirect_kind(i)
                if k == "unknown":
                    from effects import indirect_targets
                    tg = indirect_targets(prog, f, i)
                    if tg and not any(t_ in ALLOC_GLOBALS for t_ in tg):
                        # a constant dispatch table / a routine passed to a unit-internal helper: library functions only,
                        # whose own allocator traffic is judged where they are defined
                        k, which = "library", ",".join(tg)[:60]
                    else:
                        from effects import callback_param
                        if callback_param(prog, f, i):
                            k, which = "callback", "passed down from the caller's table"
                chk.ob("C13.indirect", "indirect call in %s" % f.name, k != "unknown", i.loc(), fn=f.name,
                       key="%s:%s:%s" % (f.name, k, which), nontrivial=False,
                       detail="" if k != "unknown" else "callee value is neither an allocator pointer, a callback-table field, nor a "
                                                        "statically known set of library functions")
    chk.floor("C13.indirect", "indirect calls", n_ind, 60)

    # ---- rule setter ---------------------------------------------------------
    writers = {}
    n_uses = 0
    for f in prog.funcs.values():
        for i in f.all_insts():
            for pos, o in enumerate(i.operands):
                o = strip_casts(o)
                if isinstance(o, GlobalRef) and o.name in ALLOC_GLOBALS:
                    if f.is_extra:
                        if i.op == "store" and pos == 1:
                            writers.setdefault(o.name, []).append((f, i))
                        continue
                    n_uses += 1
                    if i.op == "store" and pos == 1:
                        writers.setdefault(o.name, []).append((f, i))
                        val = strip_casts(i.operands[0])
                        want = {"_cbor_malloc": 0, "_cbor_realloc": 1, "_cbor_free": 2}[o.name]
                        ok = f.name == "cbor_set_allocs" and isinstance(val, Arg) and val.i == want
                        chk.ob("C13.setter", "store to %s in %s" % (o.name, f.name), ok, i.loc(), fn=f.name,
                               key="%s:store:%s" % (f.name, o.name),
                               detail="" if ok else "allocator pointer written outside cbor_set_allocs or from the wrong parameter")
                    elif i.op == "load" and pos == 0:
                        # the loaded value may only be called
                        bad = [u for u in f.users(i) if not (u.op == "call" and u.callee is None and strip_casts(u.callee_val) is i)]
                        chk.ob("C13.setter", "use of %s in %s" % (o.name, f.name), not bad, i.loc(), fn=f.name,
                               key="%s:load:%s" % (f.name, o.name), nontrivial=False,
                               detail="" if not bad else "allocator pointer value escapes (%r)" % bad[0])
                    else:
                        chk.ob("C13.setter", "use of %s in %s" % (o.name, f.name), False, i.loc(), fn=f.name,
                               key="%s:addr:%s" % (f.name, o.name), detail="address of allocator pointer taken")
    for g in ALLOC_GLOBALS:
        libw = [w for w in writers.get(g, []) if not w[0].is_extra]
        if len(libw) != 1:
            chk.ob("C13.setter", "writers of %s" % g, len(libw) == 1, "src/allocators.c", key="writers:" + g,
                   detail="%d stores to %s in the library (expected exactly the one in cbor_set_allocs)" % (len(libw), g))
    ctlw = [w for w in writers.get("_cbor_malloc", []) if w[0].name == "verif_ctl_swap_malloc"]
    chk.ob("C13.control", "verif_ctl_swap_malloc", bool(ctlw), "controls/ctl_alloc.c")
    chk.floor("C13.setter", "uses of allocator pointers", n_uses, 35)

    # ---- rule provenance ---------------------------------------------------
    off = rules.item_offsets(prog)
    H, PA, IF, _ = ctx.typestate()
    ctors = tables.constructors(prog, eff)
    chk.floor("C13.provenance", "item constructors", len(ctors), 17)
    kinds = tables.data_kind_by_type(ctors)
    types = prog.enum("cbor_type")
    # types reachable only by re-marking (cbor_mark_negint/uint) share the block layout of the type they mark
    marked = {}
    for f in prog.lib_funcs():
        if f.name in ctors:
            continue
        for st in f.all_insts():
            if st.op == "store":
                root, steps = apath(st.operands[1])
                if root[0] == "arg" and steps == (("off", off["type"]),):
                    c = const_int(st.operands[0])
                    if c is None:
                        raise AnalysisBroken("%s stores a non-constant item type" % f.name)
                    marked.setdefault(c, []).append(f.name)
    freeable_types = set()
    for tname, tval in types.items():
        ks = set(kinds.get(tval, set()))
        if tval in marked:
            # int family: layout is that of the constructors reachable by marking (types 0/1 share constructors)
            for other in marked:
                ks |= kinds.get(other, set())
        if not ks:
            raise AnalysisBroken("no constructor found for %s" % tname)
        if ks <= {"null", "separate", "param"}:
            freeable_types.add(tval)
    chk.extra["constructor_table"] = {k: dict(type=v.get("type"), data=v["data"]) for k, v in ctors.items()}
    chk.extra["types_whose_data_may_be_released"] = sorted(freeable_types)

    def item_types(f, block, item_path, depth=0):
        """types the item at `item_path` may have at `block`; for a parameter of an assertion-less internal helper the
        facts established at its call sites are inherited"""
        root, steps = item_path
        own = [a for a in H.get(f.name, []) if root[0] == "arg" and a.get("param") == root[1] and a.get("entry", True)]
        if root[0] == "arg" and not steps and _P13.is_helper(prog, f) and not own and depth < 3:
            acc = set()
            found = False
            for g in prog.lib_funcs():
                for c in g.calls(f.name):
                    if root[1] < len(c.operands):
                        found = True
                        acc |= item_types(g, c.block, apath(c.operands[root[1]]), depth + 1)
            if found:
                local = {p[0] for p in IF.possible(f, block, item_path)}
                return acc & local
        return {p[0] for p in IF.possible(f, block, item_path)}

    def see_through_accessors(f, root, steps):
        """rewrite an access path rooted at the result of a unit-internal accessor (a static function all of whose
        returns are one access path from a parameter, e.g. `(T*)item->data`) into the path from the caller's argument"""
        for _ in range(3):
            if root[0] != "inst":
                break
            c = f.insts[root[1]]
            if c.op == "alloca" and ("load",) not in tuple(steps):
                # a local working copy of a struct (`struct S tmp = *p;`): the location is the corresponding one of *p
                srcs = []
                for m_ in f.all_insts():
                    if m_.op == "call" and (m_.callee or "").startswith("llvm.memcpy") and strip_casts(m_.operands[0]) is c:
                        srcs.append(apath(m_.operands[1]))
                if len(srcs) == 1 and srcs[0][0][0] != "inst":
                    root, steps = srcs[0][0], tuple(srcs[0][1]) + tuple(steps)
                    continue
                break
            h = prog.funcs.get(c.callee) if c.op == "call" and c.callee else None
            if h is None or not _P13.is_helper(prog, h):
                break
            rets = {apath(i.operands[0]) for i in h.all_insts() if i.op == "ret" and i.operands}
            if len(rets) != 1:
                break
            (hroot, hsteps), = rets
            if hroot[0] != "arg" or hroot[1] >= len(c.operands):
                break
            aroot, asteps = apath(c.operands[hroot[1]])
            root, steps = aroot, tuple(asteps) + tuple(hsteps) + tuple(steps)
        return root, steps

    def classify_location(f, root, steps, depth=0):
        """(ok, why) for a block pointer read from the memory location root/steps (an access path in f)"""
        if root[0] == "arg" and _P13.is_helper(prog, f) and depth < 3:
            # a location reached through a parameter of a unit-internal helper: judged at every call site, with the
            # caller's argument substituted for the parameter
            sites = [(g, c) for g in prog.lib_funcs() for c in g.calls(f.name)]
            if sites:
                for g, c in sites:
                    aroot, asteps = see_through_accessors(g, *apath(c.operands[root[1]]))
                    saved = cur_call_box[0]
                    cur_call_box[0] = c
                    try:
                        ok, why = classify_location(g, aroot, tuple(asteps) + tuple(steps), depth + 1)
                    finally:
                        cur_call_box[0] = saved
                    if not ok:
                        return False, "via call at %s: %s" % (c.loc(), why)
                return True, "location reached through a helper's parameter; recognised at all %d call sites" % len(sites)
        # the item itself, loaded from *item_ref in the release routine
        if f.name == "cbor_decref" and root == ("arg", 0) and steps == ():
            return True, "the item block, in the release routine"
        # item.data
        if steps and steps[-1] == ("off", off["data"]):
            # which item, and which types can it have here (dominating type tests + the function's own
            # harvested CBOR_ASSERT precondition)?
            item_path = (root, steps[:-1])
            tys = sorted(item_types(f, cur_call_box[0].block, item_path))
            bad = [t for t in tys if t not in freeable_types]
            if bad:
                names = [n for n, v in types.items() if v in bad]
                return False, ("item.data released/resized where the item may be %s, whose data is an interior "
                               "pointer into the item block" % names)
            return True, "item.data where the item's type is within %s (data separately allocated or NULL)" % tys
        st = prog.structs.get("struct.cbor_indefinite_string_data")
        if steps and steps[-1][0] == "off" and len(steps) >= 2 and steps[-2] == ("load",):
            # field of the block item.data points to: chunks table
            coff = prog.field_offset("cbor_indefinite_string_data", "chunks")
            if steps[-1][1] == coff:
                return True, "chunks table of an indefinite string"
        stack_unit_ = prog.funcs["_cbor_stack_pop"].unit if "_cbor_stack_pop" in prog.funcs else None
        if f.unit == stack_unit_ and root[0] == "arg" and f.params[root[1]]["type"] == "%struct._cbor_stack*" and \
                (steps == () or (len(steps) == 1 and steps[0][0] == "off")):
            return True, "a record held in a field of the decoding stack, inside the stack module"
        return False, "load from unrecognised location %s%s" % (root, list(steps))

    def classify(f, v, depth=0):
        """returns (ok, why)"""
        v0 = strip_casts(v)
        if isinstance(v0, Null):
            return True, "null"
        if isinstance(v0, Inst) and v0.op == "phi":
            for x in v0.operands:
                ok, why = classify(f, x, depth + 1)
                if not ok:
                    return ok, why
            return True, "phi of released-able values"
        if isinstance(v0, Inst) and v0.op == "call":
            rs = eff._vroots(f.name, v0)
            if rs and all(r[0] == "fresh" for r in rs):
                return True, "allocator result in the same function"
            # the result of a side-effect-free accessor whose every return is one load along an access path from a
            # parameter (`cbor_map_handle(item)` is `item->data`): classified as the location it reads
            h = prog.funcs.get(v0.callee) if v0.callee else None
            if h is not None and not h.is_extra and v0.callee in eff.summ and not eff.summ[v0.callee]["writes"] and \
                    not eff.summ[v0.callee]["allocates"] and not eff.summ[v0.callee]["frees"]:
                rets = set()
                for i in h.all_insts():
                    if i.op == "ret" and i.operands:
                        r0 = strip_casts(i.operands[0])
                        rets.add(apath(r0.operands[0]) if isinstance(r0, Inst) and r0.op == "load" else None)
                if len(rets) == 1 and None not in rets:
                    (hroot, hsteps), = rets
                    if hroot[0] == "arg" and hroot[1] < len(v0.operands):
                        aroot, asteps = see_through_accessors(f, *apath(v0.operands[hroot[1]]))
                        return classify_location(f, aroot, tuple(asteps) + tuple(hsteps), depth)
            return False, "result of %s is not a fresh allocator block" % (v0.callee or "indirect call")
        if isinstance(v0, Arg):
            if not f.internal and not f.name.startswith("_cbor_"):
                return False, "parameter %s of exported function %s (caller-owned pointer)" % (v0.name, f.name)
            if depth > 3:
                return False, "helper chain too deep"
            sites = [(g, c) for g in prog.lib_funcs() for c in g.calls(f.name)]
            if not sites:
                return True, "helper without callers"
            for g, c in sites:
                saved = cur_call_box[0]
                cur_call_box[0] = c          # what is known about the item (its type) is what is known at the helper's call site
                try:
                    ok, why = classify(g, c.operands[v0.i], depth + 1)
                finally:
                    cur_call_box[0] = saved
                if not ok:
                    return False, "via call at %s: %s" % (c.loc(), why)
            return True, "parameter of internal helper; all %d call sites pass an owned block" % len(sites)
        if isinstance(v0, Inst) and v0.op == "load":
            root, steps = see_through_accessors(f, *apath(v0.operands[0]))
            return classify_location(f, root, tuple(steps), depth)
        return False, "unrecognised pointer %r" % (v0,)

    cur_call_box = [None]
    n_rel = 0
    ctl_fired = False
    for f in prog.funcs.values():
        for c, g in rules.alloc_calls(f):
            if g == "_cbor_malloc":
                continue
            cur_call_box[0] = c
            ok, why = classify(f, c.operands[0])
            if f.is_extra:
                if f.name == "verif_ctl_free_interior" and not ok:
                    ctl_fired = True
                continue
            n_rel += 1
            chk.ob("C13.provenance", "%s(%s) in %s" % (g, _short(c.operands[0]), f.name), ok, c.loc(), fn=f.name,
                   key="%s:%s:%s" % (f.name, g, _short(c.operands[0])), detail=why)
    chk.floor("C13.provenance", "release/resize sites", n_rel, 12)

    # ---- rule who-frees: a block that sits in a field of a live object is handed to free only by the release routines
    import ownership as O_
    chk.rule("C13.who-frees", "a block read out of a field of an object (item.data, a chunk table, a stack record) is handed to the "
                              "installed free only by the release routine cbor_decref (and the helpers it is split into) and by "
                              "_cbor_stack_pop; every other free is of a block obtained in the same function. A setter or accessor "
                              "that frees what a field holds would release a block its owner - or the client that attached it - "
                              "releases again")
    RELEASERS = {"cbor_decref", "_cbor_stack_pop"} | (O_.static_callees(prog, eff, "cbor_decref") if "cbor_decref" in prog.funcs else set())
    if "_cbor_stack_pop" in prog.funcs:
        # the stack module owns its records: any of its functions may release one
        RELEASERS |= {g_.name for g_ in prog.lib_funcs() if g_.unit == prog.funcs["_cbor_stack_pop"].unit}

    def field_origins(f, v, depth=0, seen=frozenset()):
        """functions in which the freed pointer is read out of a field (a load that is not a plain local variable)"""
        v0 = strip_casts(v)
        if isinstance(v0, Inst) and v0.op == "phi" and v0.id not in seen:
            out = []
            for x in v0.operands:
                out += field_origins(f, x, depth, seen | {v0.id})
            return out
        if isinstance(v0, Inst) and v0.op == "load":
            root, steps = apath(v0.operands[0])
            if root[0] == "inst" and f.insts[root[1]].op == "alloca" and ("load",) not in steps:
                return []     # a local variable
            return [(f, v0)]
        if isinstance(v0, Arg) and _P13.is_helper(prog, f) and depth < 3:
            out = []
            for g in prog.lib_funcs():
                for c in g.calls(f.name):
                    if v0.i < len(c.operands):
                        out += field_origins(g, c.operands[v0.i], depth + 1)
            return out
        return []
    n_wf = 0
    for f in prog.lib_funcs():
        for c, g in rules.alloc_calls(f):
            if g != "_cbor_free":
                continue
            for hf, ld in field_origins(f, c.operands[0]):
                n_wf += 1
                ok = hf.name in RELEASERS
                chk.ob("C13.who-frees", "%s frees a block read from a field in %s" % (f.name, hf.name), ok, c.loc(), fn=f.name,
                       key="whofrees:%s:%s:%d" % (f.name, hf.name, ld.id),
                       detail="" if ok else "%s is neither the release routine nor _cbor_stack_pop, yet the block it frees is one a live "
                                            "object's field (read at %s) still describes" % (hf.name, ld.loc()))
    chk.floor("C13.who-frees", "frees of blocks read from fields", n_wf, 5)
    chk.ob("C13.control", "verif_ctl_free_interior", ctl_fired, "controls/ctl_alloc.c")

    # ---- rule surface -----------------------------------------------------------
    n_surf = 0
    for f in prog.lib_funcs():
        if f.name in ALLOC_FREE_SURFACE or any(f.name.startswith(p) for p in ALLOC_FREE_SURFACE_PREFIXES):
            if f.name == "cbor_serialize_alloc":
                continue
            S = eff.summ[f.name]
            n_surf += 1
            ok = not S["allocates"] and not S["frees"]
            chk.ob("C13.surface", f.name, ok, "%s:%d" % (f.file, f.line), fn=f.name,
                   detail="" if ok else "reaches an allocator call (allocates=%s frees=%s) via %s"
                   % (S["allocates"], S["frees"], _alloc_chain(eff, f.name)))
    chk.floor("C13.surface", "surface functions", n_surf, 30)
    S = eff.summ.get("verif_ctl_alloc_in_encoder")
    chk.ob("C13.control", "verif_ctl_alloc_in_encoder", bool(S and S["allocates"] and S["frees"]), "controls/ctl_alloc.c")
    chk.rule("C13.release", "exactly once, not zero times: when the count reaches zero cbor_decref hands the item and, for every type whose "
             "constructors allocate one, its data block / chunk table to the installed free on every path - also for a container "
             "that is still empty (shared with C04.release)")
    chk.rule("C13.release-exhaustive", "the release switch has an arm for every enumerator of cbor_type")
    from props.c04 import check_release
    import ownership as _Or13
    check_release(chk, prog, eff, _Or13.PathCache(prog, eff), ctors, rules.item_offsets(prog), R="C13.release", RX="C13.release-exhaustive")
    chk.rule("C13.covered", "a slot that receives a counted reference lies below the container's element count when the writing function "
             "returns: the release routine walks exactly [0, count), so a reference parked beyond the count (a key waiting for its "
             "value) is never handed to the installed free when the container is released early (shared with C04.covered)")
    from props.c04 import check_covered
    import ownership as _Ocv13
    check_covered(chk, "C13.covered", prog, eff, _Ocv13.PathCache(prog, eff))
    chk.rule("C13.ref-contract", "the operations that take or hand out references keep the count equal to the number of holders (success: "
             "exactly one reference and one slot; failure: nothing; replace releases the displaced element once): a reference "
             "dropped without one taken lets cbor_decref hand a block to the installed free while a holder remains (shared with "
             "C04.contract)")
    from props.c04 import check_contracts
    import ownership as _Oc13
    check_contracts(chk, "C13.ref-contract", prog, eff, _Oc13.PathCache(prog, eff), rules.item_offsets(prog))
    chk.rule("C13.maker-init", "every constructor writes type, reference count and data pointer of the item it returns on every successful "
             "path (an undefined data pointer is a pointer the installed allocator never produced)")
    from props.c11 import check_makers_define_item
    check_makers_define_item(chk, "C13.maker-init", prog, eff)
    chk.rule("C13.count-width", "the reference count, which alone decides when an item's blocks go to the installed free, is stepped at "
                                "the full 64 bits: no history of feasible length wraps it (a 32-bit counter returns to 1 after 2^32 "
                                "legitimate increments and the next decrement frees a block that still has holders)")
    import ownership as _O13
    rules.check_refcount_width(chk, "C13.count-width", prog, _O13.PathCache(prog, eff))
    chk.count("units", len(prog.facts["units"]))
    chk.count("functions", len(prog.lib_funcs()))
    chk.rule("C13.record-items", "the item a decoding-stack record carries is released (cbor_decref) or handed on (stored into its parent / the "
             "context) on every path that unlinks the record: otherwise the partially built item and every block attached to it "
             "never reach the installed free (each block is handed to the installed free exactly once - not zero times)")
    from props.c06 import check_record_items
    check_record_items(chk, "C13.record-items", prog, eff)
    chk.rule("C13.no-access-after-free", "on every path of every library function (unit-internal helpers and the stack module inlined) no load or "
             "store addresses a block after it was handed to the installed free, and no block is handed to it twice (every block released is still live when released and is not touched afterwards)")
    from props.c06 import check_no_access_after_free
    check_no_access_after_free(chk, "C13.no-access-after-free", prog, eff)
    chk.rule("C13.drain", "every NULL-returning path of cbor_load that follows a decoder call leaves through the drain loop: each round releases "
             "the top item and pops its record, and the loop is left on the stack-empty edge - nothing the decoder built stays behind "
             "(each block goes to the installed free exactly once, not zero times; shared with C01.drain)")
    from props.c01 import check_load_paths
    check_load_paths(chk, prog, eff, R_window=None, R_drain="C13.drain", R_outcome=None)
    chk.rule("C13.balance", "every owned reference is released, handed off or returned exactly once on every path, failure arms included; a raw "
             "free of an item is legal only while it owns no other block: a reference that is dropped, or an item that is freed around its "
             "release routine, keeps its blocks from ever reaching the installed free (shared with C06.release)")
    import ownership as _Ob
    from props.c06 import check_balance
    _cb = _Ob.PathCache(prog, eff)
    _Nb = _Ob.Nullness(prog, eff, _cb)
    check_balance(chk, "C13.balance", prog, eff, _cb, _Nb, _Ob.Balance(prog, eff, _cb, _Nb), tables.constructors(prog, eff), floor=60)
    chk.rule("C13.narrowing", "no 64-bit quantity is converted to a narrower integer type except to take one byte of it or below a range test that makes "
             "the conversion lossless (the size that is allocated is the size that is serialized; shared with C02.narrowing)")
    import rules as _rnw2
    _rnw2.check_narrowing(chk, "C13.narrowing", prog, eff=eff)
    chk.rule("C13.no-orphan", "a block is not dropped by overwriting the only pointer to it: where a library function installs a freshly obtained block in "
             "the data field of an item it did not just create, the block the field held before has been handed to the installed free or "
             "realloc on that path, or is known to be NULL (a growth step that falls back to malloc + copy must still release the old table)")
    import paths as _Pno
    import ownership as _Ono
    data_off_ = rules.item_offsets(prog)["data"]

    def orphan_sites(fn_):
        out_ = []
        for pa_ in _Pno.Executor(prog, eff, inline=_Ono.static_callees(prog, eff, fn_.name), loop_bound=1).run(fn_.name):
            fresh_items = {e_.res for e_ in pa_.events if e_.kind == "call" and e_.ckind == "alloc" and e_.callee == "_cbor_malloc"}
            for k_, e_ in enumerate(pa_.events):
                if e_.kind != "store":
                    continue
                b_, o_ = _Pno.ptr_key(e_.args[0])
                if o_ != data_off_ or b_ in fresh_items or not isinstance(b_, tuple) or b_[0] not in ("arg", "ld"):
                    continue
                v_ = e_.args[1]
                while isinstance(v_, tuple) and v_[0] == "cast":
                    v_ = v_[3]
                if not (isinstance(v_, tuple) and v_[0] == "call" and v_[1] in ("_cbor_malloc", "_cbor_alloc_multiple")):
                    continue
                olds = [x_.res for x_ in pa_.events[:k_] if x_.kind == "load" and _Pno.ptr_key(x_.args[0]) == (b_, data_off_)]
                released = any(x_.kind == "call" and x_.callee in ("_cbor_free", "_cbor_realloc", "_cbor_realloc_multiple") and x_.args and
                               any(_Pno.ptr_key(a_)[0] in olds or a_ in olds for a_ in x_.args[:1] if isinstance(a_, tuple)) and
                               not (x_.callee != "_cbor_free" and pa_.st.known_null(x_.res))
                               for x_ in pa_.events[:k_])
                isnull = any(pa_.st.known_null(o2_) for o2_ in olds)
                out_.append((released or isnull, e_, pa_))
        return out_
    ctlf = prog.funcs.get("verif_ctl_orphan")
    if ctlf is not None:
        chk.ob("C13.no-orphan", "positive control verif_ctl_orphan (a fresh block stored over the old one) is seen",
               any(not ok_ for ok_, _e, _p in orphan_sites(ctlf)), "controls/ctl_state.c", key="ctl:orphan")
    n_or = 0
    for fn_ in prog.lib_funcs():
        if not any(i_.op == "store" for i_ in fn_.all_insts()) or not eff.summ[fn_.name].get("allocates"):
            continue
        if fn_.internal:
            continue
        try:
            sites_ = orphan_sites(fn_)
        except AnalysisBroken:
            continue
        worst_ = {}
        for ok_, e_, pa_ in sites_:
            if e_.ins.id not in worst_ or (worst_[e_.ins.id][0] and not ok_):
                worst_[e_.ins.id] = (ok_, e_, pa_)
        for ok_, e_, pa_ in worst_.values():
            n_or += 1
            chk.ob("C13.no-orphan", "%s: the block replaced at line %d was released, resized or NULL" % (fn_.name, e_.ins.line), ok_, e_.ins.loc(),
                   fn=fn_.name, key="orphan:%s:%d" % (fn_.name, e_.ins.line),
                   detail="" if ok_ else "a freshly obtained block is stored over the item's data pointer while the block it pointed to is neither "
                                         "handed to free / realloc nor known to be NULL", path=pa_.block_lines() if not ok_ else None)
    chk.extra["data_field_replacements"] = n_or
    chk.exhaustive = True


def _short(v):
    v = strip_casts(v)
    if isinstance(v, Inst):
        root, steps = apath(v)
        return "%s%s" % (v.name or v.op, "")
    return repr(v)


def _alloc_chain(eff, name, depth=0):
    f = eff.funcs[name]
    for c, g in rules.alloc_calls(f):
        return "%s -> %s @%s" % (name, g, c.loc())
    if depth > 10:
        return name
    for cal in eff.summ[name]["callees"]:
        T = eff.summ[cal]
        if T["allocates"] or T["frees"]:
            return "%s -> %s" % (name, _alloc_chain(eff, cal, depth + 1))
    return name
