"""C19 - the nesting limit is exact for every configured value and bounds stack use (DESIGN §4 C19)."""
from build import AnalysisBroken, REPO
from ir import Inst, Arg, Const, strip_casts, apath
import os
import re
import paths as P
import recursion
import rules
import tables

QUICK_LIMITS = (None, 3)
THOROUGH_LIMITS = (None, 1, 2, 3, 8, 64, 2048)


def _size_facts(st, S):
    """(eq, lo, hi, excluded) known about the stack size term S on this path; facts recorded on S + c are translated
    (sizes are far below 2^64 - c by the who-may-write invariant, so no wrap is involved)"""
    if S is None:
        return None, 0, (1 << 64) - 1, set()
    eq = st.eqc.get(S)
    lo, hi = st.lo.get(S, 0), st.hi.get(S, (1 << 64) - 1)
    exc = set(st.nec.get(S, ()))
    for t in list(st.lo) + list(st.hi) + list(st.eqc) + list(st.nec):
        if isinstance(t, tuple) and t[0] == "op" and t[1] == "add" and S in (t[3], t[4]):
            c = t[4] if t[3] == S else t[3]
            if not P.is_const(c):
                continue
            c = c[1]
            if t in st.eqc and st.eqc[t] >= c:
                eq = st.eqc[t] - c
            if t in st.lo:
                lo = max(lo, st.lo[t] - c)
            if t in st.hi and st.hi[t] >= c:
                hi = min(hi, st.hi[t] - c)
            for v in st.nec.get(t, ()):
                if v >= c:
                    exc.add(v - c)
    return eq, lo, hi, exc


def check_gate(chk, prog, eff, L, label, rule="C19.gate"):
    f = prog.fn("_cbor_stack_push")
    where = "%s:%d" % (f.file, f.line)
    size_off = prog.field_offset("_cbor_stack", "size")
    top_off = prog.field_offset("_cbor_stack", "top")
    STACK = ("arg", f.param_index("stack")) if "stack" in [p["name"] for p in f.params] else ("arg", 0)
    ps = P.Executor(prog, eff).run("_cbor_stack_push")
    refuse_limit = []
    proceed = []
    for pa in ps:
        st = pa.st
        S = None
        for e in pa.events:
            # the stack's size as this call found it: read from the stack itself or from a local copy of its header
            if e.kind == "load" and (P.ptr_key(e.args[0]) == (STACK, size_off) or
                                     (isinstance(e.res, tuple) and e.res[0] == "ld" and e.res[1] == STACK and e.res[2] == size_off)):
                S = e.res
                break
        mallocs = pa.calls("_cbor_malloc")
        refused = pa.ret == ("c", 0) or st.known_null(pa.ret)
        alloc_refused = any(st.known_null(m.res) for m in mallocs)
        if refused and alloc_refused:
            continue      # the allocator said no: allowed at any depth (C06)
        if refused:
            # refused by the push itself: what does the path know about size?
            eq, lo, hi, exc = _size_facts(st, S)
            if S is None:
                refuse_limit.append(("all", None))
            elif eq is not None:
                refuse_limit.append(("eq", eq))
            else:
                refuse_limit.append(("range", (lo, hi)))
            # (writes to the function's own locals - a working copy of the header - change nothing)
            ok = pa.ret == ("c", 0) and not [e for e in pa.events if (e.kind == "store" or e.kind in ("memcpy", "memset")) and
                                             not (isinstance(P.ptr_key(e.args[0])[0], tuple) and P.ptr_key(e.args[0])[0][0] == "alloca")]
            chk.ob(rule, "%s: refusal returns NULL and changes nothing" % label, ok, where, fn=f.name, key="refuse-clean:" + label)
        else:
            proceed.append((pa, S))
    # refusal set must contain L and no value below L
    def contains(r, v):
        kind, x = r
        if kind == "all":
            return True
        if kind == "eq":
            return x == v
        return x[0] <= v <= x[1]
    has_L = any(contains(r, L) for r in refuse_limit)
    below = [r for r in refuse_limit if (r[0] == "all") or (r[0] == "eq" and r[1] < L) or (r[0] == "range" and r[1][0] < L)]
    chk.ob(rule, "%s: push refuses when the stack already holds L=%d frames" % (label, L), has_L, where, fn=f.name,
           key="gate-at-L:" + label, detail="" if has_L else "no refusal path covers size == %d (refusal conditions: %s)" % (L, refuse_limit))
    chk.ob(rule, "%s: push never refuses below L=%d" % (label, L), not below, where, fn=f.name, key="gate-below-L:" + label,
           detail="" if not below else "refuses for sizes %s although the limit is %d" % (below, L))
    # proceeding paths with size == L must not exist
    for pa, S in proceed:
        can_be_L = True
        st = pa.st
        if S is not None:
            eq, lo, hi, exc = _size_facts(st, S)
            if eq is not None:
                can_be_L = eq == L
            elif L in exc:
                can_be_L = False
            elif not (lo <= L <= hi):
                can_be_L = False
        chk.ob(rule, "%s: no allocation path with size == L" % label, not can_be_L, where, fn=f.name, key="proceed:" + label,
               detail="" if not can_be_L else "a frame can be pushed when the stack already holds %d" % L)
        if pa.ret != ("c", 0):
            # final contents of the stack header (stored field by field or published from a working copy)
            stores = {(STACK, size_off): st.load(P.mkptr(STACK, size_off), "i64", None), (STACK, top_off): st.load(P.mkptr(STACK, top_off), "i8*", None)}
            new = pa.ret
            oksz = stores.get((STACK, size_off)) in (("op", "add", "i64", ("c", 1), S), ("op", "add", "i64", S, ("c", 1)))
            oktop = stores.get((STACK, top_off)) == new
            chk.ob(rule, "%s: success links the frame and counts it (size + 1)" % label, oksz and oktop, where, fn=f.name,
                   key="link:" + label, detail="" if oksz and oktop else "size'=%r top'=%r" % (stores.get((STACK, size_off)), stores.get((STACK, top_off))))
    return len(ps)


def _said_no(facts, r):
    """the call result r, kept in a bool, was found false (`!added`, `added == 0`, `added != 0` false ...)"""
    for t, truth, _ in facts:
        x = t
        if isinstance(t, tuple) and t[0] == "icmp" and t[1] in ("eq", "ne") and t[3] == ("c", 0):
            x = t[2]
            truth = truth if t[1] == "ne" else not truth
        while isinstance(x, tuple) and x[0] == "cast":
            x = x[3]
        if x == r and truth is False:
            return True
    return False


def check_refusal_justified(chk, rule, prog, eff):
    """creation_failed (reported as MEMERROR) is raised by a builder callback only on a path on which something that can
    fail did fail: an allocator-backed constructor returned NULL, the stack push was refused, an insertion returned false
    (or, where the flag is assigned from a call's result, through that assignment).  A guard of its own making - a depth
    or size test the grammar does not ask for - would refuse input that is within the limits."""
    import paths as P
    import ownership as O
    load = prog.fn("cbor_load")
    g = __import__("tables").load_callbacks_global(prog)
    cf_off = prog.field_offset("_cbor_decoder_context", "creation_failed")
    builders = sorted({el.name for el in g["init_val"].elems if hasattr(el, "name")}) + ["_cbor_builder_append"]
    n = 0
    for bn in builders:
        f = prog.fn(bn)
        where = "%s:%d" % (f.file, f.line)
        for k, pa in enumerate(P.Executor(prog, eff, inline=O.static_callees(prog, eff, bn)).run(bn)):
            sets = [e for e in pa.events if e.kind == "store" and P.ptr_key(e.args[0])[1] == cf_off and isinstance(P.ptr_key(e.args[0])[0], tuple) and P.ptr_key(e.args[0])[0][0] == "arg" and e.extra == "i8" and e.args[1] == ("c", 1)]
            if not sets:
                continue
            n += 1
            upto = sets[0].nfacts
            failed = [e for e in pa.events[:pa.events.index(sets[0])] if e.kind == "call" and e.ckind in ("lib", "alloc") and e.res is not None and
                      e.res != ("void",) and (pa.st.known_null(e.res, upto=upto) or {t: v for t, v, _ in pa.facts[:upto]}.get(e.res) is False or
                                              _said_no(pa.facts[:upto], e.res))]
            # the 64-bit length that cannot be a size_t (vacuous on LP64, present on narrower targets)
            wide = any(t[0] == "icmp" and t[1] in ("ugt", "uge") and P.is_const(t[3]) and t[3][1] >= (1 << 32) - 1 and truth for t, truth, _ in pa.facts[:upto])
            ok = bool(failed) or wide
            chk.ob(rule, "%s path %d: creation_failed only after a callee failed" % (bn, k), ok, sets[0].ins.loc(), fn=bn, key="%s:cfj:%d" % (bn, k),
                   detail=("%s failed" % failed[0].callee) if failed else ("length exceeds size_t" if wide else
                           "the flag is raised although no constructor, push or insertion failed on this path: input within the limits is refused"),
                   path=pa.block_lines() if not ok else None)
    chk.floor(rule, "paths that raise creation_failed", n, 20)


def run(ctx, chk):
    prog = ctx.prog()
    eff = ctx.effects(prog)
    chk.explanation = ("interval partition of _cbor_stack_push over stack->size by path enumeration, repeated for several "
                       "generated configurations so that the compared constant is shown to track CBOR_MAX_STACK_SIZE; "
                       "who-may-write on the size field; must-pass-through of _cbor_stack_push in every opener callback "
                       "wired in cbor_load's table; refusal -> release + creation_failed; structural-descent check of every "
                       "recursive SCC (native stack proportional to tree depth <= L).")
    chk.rule("C19.gate", "the set of stack sizes at which _cbor_stack_push refuses contains L and nothing below L; success "
                         "links the new frame and stores size + 1 (L = the value the checker put into configuration.h)")
    chk.rule("C19.plumbing", "CBOR_MAX_STACK_SIZE is a CMake cache variable substituted into configuration.h.in and is not "
                             "redefined by any library source")
    chk.rule("C19.size-writer", "struct _cbor_stack.size is stored to only by the stack module (and by initialisation from "
                                "_cbor_stack_init's result)")
    chk.rule("C19.opener", "in each builder callback that opens a level, every path with a successfully constructed item "
                           "(and, for definite containers, size > 0) calls _cbor_stack_push with that item")
    chk.rule("C19.refusal", "on the push-failed edge the item is released and creation_failed is set")
    chk.rule("C19.descent", "every recursive cycle of the library descends at least one level of the item tree (or pops a "
                            "decoding-stack frame); recursive functions have no variable-size frames")
    chk.not_decided += ["that a depth-L input is accepted 'memory permitting' (language clause of C02)",
                        "MEMERROR mapping of creation_failed is decided under C05"]
    limits = THOROUGH_LIMITS if ctx.tier == "thorough" else QUICK_LIMITS
    npaths = 0
    for lim in limits:
        if lim is None:
            pr, ef = prog, eff
            L = int(prog.values["CBOR_MAX_STACK_SIZE"])
            label = "default(L=%d)" % L
        else:
            pr = ctx.prog(overrides={"CBOR_MAX_STACK_SIZE": lim}, with_controls=False)
            ef = ctx.effects(pr)
            L = lim
            label = "L=%d" % L
        npaths += check_gate(chk, pr, ef, L, label)
    chk.extra["limits_checked"] = [l if l is not None else int(prog.values["CBOR_MAX_STACK_SIZE"]) for l in limits]
    chk.count("gate paths", npaths)

    # plumbing
    tmpl = open(os.path.join(REPO, "src", "cbor", "configuration.h.in")).read()
    ok = re.search(r"#define\s+CBOR_MAX_STACK_SIZE\s+\$\{CBOR_MAX_STACK_SIZE\}", tmpl) is not None
    chk.ob("C19.plumbing", "configuration.h.in defines the macro from the cache variable", ok, "src/cbor/configuration.h.in", nontrivial=False)
    redefs = []
    for root, _, files in os.walk(os.path.join(REPO, "src")):
        for fn in files:
            if fn.endswith((".c", ".h", ".in")):
                txt = open(os.path.join(root, fn), errors="replace").read()
                hits = re.findall(r"#\s*(?:define|undef)\s+CBOR_MAX_STACK_SIZE\b[^\n]*", txt)
                if fn == "configuration.h.in":
                    # the one templated definition is the plumbing itself; anything else (a clamp, an #undef) changes the limit
                    hits = [h for h in hits if not re.match(r"#\s*define\s+CBOR_MAX_STACK_SIZE\s+\$\{CBOR_MAX_STACK_SIZE\}\s*$", h)]
                if hits:
                    redefs.append("%s: %s" % (os.path.relpath(os.path.join(root, fn), REPO), hits[0].strip()))
    chk.ob("C19.plumbing", "no source re-defines CBOR_MAX_STACK_SIZE", not redefs, "src/", detail=str(redefs), nontrivial=False)

    # who may write size
    nst = 0
    for f in prog.lib_funcs():
        for st in f.all_insts():
            if st.op != "store":
                continue
            p = strip_casts(st.operands[1])
            if isinstance(p, Inst) and p.op == "getelementptr" and p.d.get("src_type") == "%struct._cbor_stack" and \
                    len(p.operands) == 3 and isinstance(p.operands[2], Const) and p.operands[2].v == 1:
                nst += 1
                ok = f.unit.endswith("internal/stack.c")
                chk.ob("C19.size-writer", "store to stack.size in %s" % f.name, ok, st.loc(), fn=f.name, key="szw:" + f.name)
            elif isinstance(p, Inst) and p.op == "getelementptr" and "{ %struct._cbor_stack_record*, i64 }" in p.d.get("src_type", ""):
                v = strip_casts(st.operands[0])
                ok = isinstance(v, Inst) and v.op == "extractvalue" and isinstance(v.operands[0], Inst) and v.operands[0].callee == "_cbor_stack_init"
                if isinstance(p.operands[-1], Const) and p.operands[-1].v == 1:
                    nst += 1
                    chk.ob("C19.size-writer", "initialisation of a stack in %s" % f.name, ok, st.loc(), fn=f.name, key="szi:" + f.name)
    chk.floor("C19.size-writer", "stores to the size field", nst, 2)

    # openers: from the callback table of cbor_load
    load = prog.fn("cbor_load")
    g = __import__("tables").load_callbacks_global(prog)
    if g is None:
        raise AnalysisBroken("callback table of cbor_load not found")
    fields = tables.callback_fields(prog)
    wired = {}
    for name, el in zip(fields, g["init_val"].elems):
        wired[name] = getattr(el, "name", None)
    openers = {"array_start": True, "map_start": True, "indef_array_start": False, "indef_map_start": False,
               "byte_string_start": False, "string_start": False, "tag": False}
    cf_off = prog.field_offset("_cbor_decoder_context", "creation_failed")
    stack_off = prog.field_offset("_cbor_decoder_context", "stack")
    for field, sized in openers.items():
        fn = wired.get(field)
        if fn is None or fn not in prog.funcs:
            raise AnalysisBroken("opener callback for field %s not wired to a library function" % field)
        f = prog.fn(fn)
        where = "%s:%d" % (f.file, f.line)
        ps = P.Executor(prog, eff).run(fn)
        nchecked = 0
        for k, pa in enumerate(ps):
            ctors = [e for e in pa.events if e.kind == "call" and e.ckind == "lib" and e.callee.startswith("cbor_new_")]
            if not ctors:
                continue
            item = ctors[0].res
            if not pa.st.known_nonnull(item):
                continue
            if sized:
                SZ = ("arg", 1)
                if pa.st.known_zero_count(SZ):
                    # zero-size container: appended, not pushed
                    app = pa.calls("_cbor_builder_append")
                    chk.ob("C19.opener", "%s path %d: empty container is appended" % (fn, k), bool(app) and app[0].args[0] == item,
                           where, fn=fn, key="%s:empty" % fn)
                    continue
            pushes = pa.calls("_cbor_stack_push")
            okp = len(pushes) == 1 and pushes[0].args[1] == item
            nchecked += 1
            chk.ob("C19.opener", "%s path %d pushes the new item" % (fn, k), okp, where, fn=fn, key="%s:push:%d" % (fn, k),
                   detail="" if okp else "a level is opened without counting it on the decoding stack",
                   path=pa.block_lines() if not okp else None)
            if okp:
                pr_ = pushes[0].res
                if pa.st.known_null(pr_):
                    dec = [e for e in pa.calls("cbor_decref") if e.extra and e.extra["pointee"][0] == item]
                    cfs = [e for e in pa.events if e.kind == "store" and P.ptr_key(e.args[0])[1] == cf_off and isinstance(P.ptr_key(e.args[0])[0], tuple) and P.ptr_key(e.args[0])[0][0] == "arg" and e.args[1] == ("c", 1)]
                    ok = bool(dec) and bool(cfs)
                    chk.ob("C19.refusal", "%s path %d: failed push releases the item and raises creation_failed" % (fn, k), ok, where,
                           fn=fn, key="%s:refusal:%d" % (fn, k),
                           detail="" if ok else "decref of the item: %s, creation_failed set: %s" % (bool(dec), bool(cfs)))
        chk.floor("C19.opener", "successful-constructor paths of %s" % fn, nchecked, 2)

    # descent
    sccs = recursion.check_sccs(prog, eff)
    chk.floor("C19.descent", "recursive SCCs", len(sccs), 6)
    for r in sccs:
        name = "+".join(r["scc"])
        f0 = prog.fn(r["scc"][0])
        where = "%s:%d" % (f0.file, f0.line)
        chk.ob("C19.descent", "SCC {%s}: no variable-size alloca" % name, not r["dynamic_allocas"], where, fn=r["scc"][0], key="vla:" + name)
        unk = [e for e in r["edges"] if e[3] == "unknown"]
        ok = r["cycle"] is None   # edges that neither descend nor pop stay in the graph: any cycle through them is reported
        det = ""
        if r["cycle"]:
            det = "cycle that does not descend: " + " -> ".join("%s@%s" % (a, c.loc()) for a, b, c in r["cycle"])
        elif unk:
            det = "recursive call at %s: %s" % (unk[0][2].loc(), unk[0][4])
        chk.ob("C19.descent", "SCC {%s}: every cycle descends (%d edges)" % (name, len(r["edges"])), ok, where, fn=r["scc"][0],
               key="descent:" + name, detail=det)
    # the operations on a decoded tree complete: they do not give up on account of its depth
    chk.rule("C19.refusal-justified", "a builder callback raises creation_failed (MEMERROR) only where a constructor, the stack push or an "
                                      "insertion failed: nesting within the limit is never refused by a guard of the callback's own")
    check_refusal_justified(chk, "C19.refusal-justified", prog, eff)
    chk.rule("C19.memerror-source", "cbor_load reports MEMERROR only on a path on which the builder's creation_failed flag was read as set: the "
                                    "loader itself never decides that a head nests too deep (shared clause of C05.codes)")
    import paths as P_
    import ownership as O__
    lf_ = prog.fn("cbor_load")
    ri_ = lf_.param_index("result")
    code_off_ = prog.field_offset("cbor_load_result", "error") + prog.field_offset("cbor_error", "code")
    cf_off_ = prog.field_offset("_cbor_decoder_context", "creation_failed")
    MEM_ = prog.enum("cbor_error_code")["CBOR_ERR_MEMERROR"]
    nmem_ = 0
    for k_, pa_ in enumerate(P_.Executor(prog, eff, loop_bound=1).run("cbor_load")):
        codes_ = [e for e in pa_.events if e.kind == "store" and P_.ptr_key(e.args[0]) == (("arg", ri_), code_off_)]
        if not codes_ or codes_[-1].args[1] != ("c", MEM_):
            continue
        nmem_ += 1
        flag_ = any(t[0] == "ld" and t[2] == cf_off_ and isinstance(t[1], tuple) and t[1][0] == "alloca" and truth for t, truth, _ in pa_.facts)
        chk.ob("C19.memerror-source", "cbor_load path %d: MEMERROR follows the creation_failed flag" % k_, flag_, codes_[-1].ins.loc(), fn=lf_.name,
               key="memsrc:%d" % k_, detail="" if flag_ else "MEMERROR is reported although creation_failed was not set: the loader refuses the head on "
               "its own (e.g. by looking at the stack depth and the next byte)", path=pa_.block_lines() if not flag_ else None)
    chk.floor("C19.memerror-source", "paths of cbor_load reporting MEMERROR", nmem_, 1)
    # ... and the converse: a refusal raised by the builder during a decoder step is what cbor_load reports.  After every
    # decoder step that did not itself fail, creation_failed is consulted before cbor_load reports any other cause (running out
    # of input, say) or reads on - whatever the order in which the tests are written
    chk.rule("C19.refusal-first", "after every decoder step that returned FINISHED, cbor_load tests the builder's creation_failed flag before "
                                  "it reports a failure of its own or decodes on: a head refused at level L+1 is MEMERROR also when it is "
                                  "the last byte of the input")
    st_off_ = prog.field_offset("cbor_decoder_result", "status")
    FIN_ = prog.enum("cbor_decoder_status")["CBOR_DECODER_FINISHED"]
    nrf_ = 0
    for k_, pa_ in enumerate(P_.Executor(prog, eff, loop_bound=1, inline=O__.static_callees(prog, eff, "cbor_load")).run("cbor_load")):
        decs_ = [e for e in pa_.events if e.kind == "call" and e.callee == "cbor_stream_decode"]
        if not decs_ or pa_.ret != ("c", 0):
            continue
        last_ = decs_[-1]
        ctx_ = last_.args[4] if len(last_.args) > 4 else None
        after_ = pa_.facts[last_.nfacts:]
        fin_ = False
        for t_, tr_, _x in after_:
            if isinstance(t_, tuple) and t_[0] == "icmp" and t_[1] == "eq" and isinstance(t_[2], tuple) and t_[2][0] == "ld" and t_[2][2] == st_off_ and P_.is_const(t_[3]):
                if t_[3][1] == FIN_ and tr_:
                    fin_ = True
            elif isinstance(t_, tuple) and t_[0] in ("in",) and isinstance(t_[1], tuple) and t_[1][0] == "ld" and t_[1][2] == st_off_ and tr_ and tuple(t_[2]) == (FIN_,):
                fin_ = True
        if not fin_:
            # status known by exclusion (NEDATA and ERROR tested false)
            ex_ = {t_[3][1] for t_, tr_, _x in after_ if isinstance(t_, tuple) and t_[0] == "icmp" and t_[1] == "eq" and isinstance(t_[2], tuple)
                   and t_[2][0] == "ld" and t_[2][2] == st_off_ and P_.is_const(t_[3]) and not tr_}
            fin_ = ex_ >= (set(prog.enum("cbor_decoder_status").values()) - {FIN_})
        if not fin_:
            continue
        nrf_ += 1
        tested_ = any(isinstance(t_, tuple) and t_[0] == "ld" and t_[1] == ctx_ and t_[2] == cf_off_ for t_, _tr, _x in after_) or \
            any(isinstance(t_, tuple) and t_[0] in ("icmp",) and any(isinstance(x_, tuple) and x_[0] == "ld" and x_[1] == ctx_ and x_[2] == cf_off_
                                                                     for x_ in t_[2:4]) for t_, _tr, _x in after_)
        chk.ob("C19.refusal-first", "cbor_load path %d: creation_failed is consulted after the last successful decoder step" % k_, tested_,
               last_.ins.loc(), fn=lf_.name, key="refusalfirst:%d" % k_,
               detail="" if tested_ else "fails after a FINISHED step without having looked at creation_failed: a builder refusal (MEMERROR) is "
                                         "reported as something else", path=pa_.block_lines() if not tested_ else None)
    chk.floor("C19.refusal-first", "failing paths of cbor_load after a FINISHED step", nrf_, 2)
    chk.rule("C19.copy-total", "copying a decoded tree completes: cbor_copy (helpers included) returns NULL only where a callee that "
                               "can fail has failed - never because of how deep the tree is (shared with C11.total)")
    chk.rule("C19.serialize-total", "serializing a decoded tree completes: a serializer returns 0 only where a nested encoder/serializer "
                                    "returned 0 or the buffer size was consulted (shared with C03/C07.total)")
    if True:
        import typestate
        import ownership as O_
        import encoder_rules as ER_
        import serializer_rules as SR_
        from props.c11 import check_total
        H_, PA_, _IF, _x = ctx.typestate()
        cache_ = O_.PathCache(prog, eff)
        CS_ = typestate.CallSites(prog, eff, cache_, H_, PA_)
        check_total(chk, "C19.copy-total", prog, eff, cache_, CS_)
        nt_ = SR_.zero_only_on_short_buffer(chk, "C19.serialize-total", prog, eff, CS_, ER_.public_encoders(prog))
        chk.floor("C19.serialize-total", "serializer paths", nt_, 60)
    chk.rule("C19.insert-refusal", "the insertion routines the builder relies on refuse only when an allocation failed, an overflow guard answered "
             "false or a definite container is full - MEMERROR is never manufactured below the builder (shared with C12.refusal-justified)")
    from props.c12 import check_insert_refusal
    import ownership as _Oir
    check_insert_refusal(chk, "C19.insert-refusal", prog, eff, _Oir.PathCache(prog, eff))
    chk.rule("C19.no-access-after-free", "on every path of every library function (unit-internal helpers and the stack module inlined) no load or "
             "store addresses a block after it was handed to the installed free, and no block is handed to it twice (unwinding at the nesting limit does not walk through released records)")
    from props.c06 import check_no_access_after_free
    check_no_access_after_free(chk, "C19.no-access-after-free", prog, eff)
    chk.rule("C19.push-atomic", "the decoding stack's push either links a record and counts it or refuses and leaves the stack as it was: no field of the "
             "stack header is written on a path of _cbor_stack_push that returns NULL (a refused record allocation must not be counted - "
             "cbor_load unwinds `size` records), and a successful push makes the returned record the top and the depth one larger")
    import rules as _rpa
    _rpa.check_push_atomic(chk, "C19.push-atomic", prog, eff)
    chk.rule("C19.attach", "a chunk callback hands its chunk to the parent as an ordinary item only on paths that know no indefinite string is "
             "open - also when that string sits in the deepest permitted frame (shared with C02.attach)")
    from props.c02 import check_plain_when, wired_builders
    import typestate as _tsW
    _Hw, _PAw, _IFw, _xw = ctx.typestate()
    _cacheW = _Oir.PathCache(prog, eff)
    check_plain_when(chk, "C19.attach", prog, _cacheW, wired_builders(prog), _tsW.CallSites(prog, eff, _cacheW, _Hw, _PAw))
    chk.rule("C19.automaton", "input nested exactly to the limit loads: every level that completes is closed and handed on, also when all levels close in one cascade (shared with C02.automaton)")
    chk.rule("C19.record-items", "the item of every record unlinked from the decoding stack is released or handed on on that path "
             "(shared with C06.record-items)")
    import typestate as _tsA
    import ownership as _OA
    from props.c02 import check_automaton
    from props.c06 import check_record_items
    _H, _PA, _IFa, _xa = ctx.typestate()
    _cacheA = _OA.PathCache(prog, eff)
    check_automaton(chk, "C19.automaton", prog, eff, _cacheA, _tsA.CallSites(prog, eff, _cacheA, _H, _PA))
    check_record_items(chk, "C19.record-items", prog, eff)
    chk.rule("C19.balance", "every owned reference is released, handed off or returned exactly once on every path; a reference the function does not own "
             "is not released (a setter that drops the item it replaces, a refusal that releases what its caller still releases: the block is "
             "used after it is gone; shared with C06.release)")
    import ownership as _Ob
    from props.c06 import check_balance as _cb
    import tables as _tb
    _cbc = _Ob.PathCache(prog, eff)
    _Nb = _Ob.Nullness(prog, eff, _cbc)
    _cb(chk, "C19.balance", prog, eff, _cbc, _Nb, _Ob.Balance(prog, eff, _cbc, _Nb), _tb.constructors(prog, eff), floor=60)
    chk.rule("C19.narrowing", "no 64-bit quantity is converted to a narrower integer type except to take one byte of it or below a range test that makes "
             "the conversion lossless (the depth is compared at its full width; shared with C02.narrowing)")
    import rules as _rnw2
    _rnw2.check_narrowing(chk, "C19.narrowing", prog, eff=eff)
    chk.rule("C19.no-silent-drop", "every opener becomes a frame of the decoding stack (or an item handed to its parent) or stops the load: a head that "
             "is absorbed without a frame is a level the limit never counts (shared with C05.no-silent-drop)")
    from props.c05 import check_no_silent_drop as _nsd19
    _nsd19(chk, "C19.no-silent-drop", prog, eff)
    chk.rule("C19.break", "a break closes the open indefinite item whenever the stack is non-empty, at every depth (shared with C02.break)")
    import typestate as _ts19b
    import ownership as _O19b
    from props.c02 import check_break as _cb19, wired_builders as _wb19
    _H19b, _PA19b, _IF19b, _x19b = ctx.typestate()
    _c19b = _O19b.PathCache(prog, eff)
    _cb19(chk, "C19.break", prog, _c19b, _ts19b.CallSites(prog, eff, _c19b, _H19b, _PA19b), _PA19b, _wb19(prog)["indef_break"])
    chk.exhaustive = True
