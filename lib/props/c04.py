"""C04 - reference counting frees everything exactly once for rule-following clients (DESIGN §4 C04)."""
from build import AnalysisBroken
from ir import Inst, Const, strip_casts
import paths as P
from paths import ptr_key, is_const
import ownership as O
import decoder_rules as DR
import tables
import rules
from props.c06 import check_balance

GETTERS_OWNED = {"cbor_array_get": 0, "cbor_tag_item": 0}


def run(ctx, chk):
    prog = ctx.prog()
    eff = ctx.effects(prog)
    cache = O.PathCache(prog, eff)
    N = O.Nullness(prog, eff, cache)
    B = O.Balance(prog, eff, cache, N)
    ctors = tables.constructors(prog, eff)
    off = rules.item_offsets(prog)
    chk.explanation = ("inductive static argument: (A) every API operation has, on every path, exactly the refcount effect "
                       "its documentation states; (B) the release routine, per type, drops every owned child slot once, "
                       "frees exactly the blocks the constructors of that type allocate and the item last, touching "
                       "nothing afterwards; (C) every library function is itself a balanced client of the operations it "
                       "calls. A, B, C are decided by path enumeration; that they imply the property for every "
                       "rule-following history is an induction stated in DESIGN.md, not machine-checked.")
    chk.rule("C04.contract", "operations that insert an item take exactly +1 on it and store it in one slot on success, and "
                             "neither on failure; reference-returning getters increment exactly the element they return; "
                             "cbor_array_replace drops one reference on the displaced element")
    chk.rule("C04.refcount-writers", "every store to a refcount field is a unit step of that same field (incref / decref / move, "
                                     "possibly inlined) or the constant 1 in a constructor's initialiser")
    chk.rule("C04.release", "cbor_decref, when the count reaches zero: per type, releases each owned child slot (guarded by "
                            "non-NULL where slots may be empty) inside a loop bounded by the container's own count, frees "
                            "data exactly where the constructor table says it is separately owned and never an interior "
                            "pointer, frees the item last and exactly once, then only nulls the caller's pointer; when the "
                            "count stays positive nothing is released")
    chk.rule("C04.release-exhaustive", "the release switch has an arm for every enumerator of cbor_type")
    chk.rule("C04.client", "every library function releases / hands off / returns each reference it owns exactly once on "
                           "every path")
    chk.rule("C04.no-use-after-release", "after dropping its only reference to a fresh item a function does not touch it again")
    chk.not_decided += ["clients that break the ownership rules; aliasing hazards that need the same item on both sides of one "
                        "call (cbor_array_replace(a, i, a[i]) with the array holding the only reference)",
                        "the induction from A/B/C to 'any rule-following history is leak- and double-free-free' is an argument"]

    # ---- (A) contracts -----------------------------------------------------
    check_contracts(chk, "C04.contract", prog, eff, cache, off)

    # ---- refcount writers -----------------------------------------------------
    nw = 0
    for f in prog.lib_funcs():
        for st in f.all_insts():
            if st.op != "store":
                continue
            p = strip_casts(st.operands[1])
            if isinstance(p, Inst) and p.op == "getelementptr" and p.d.get("src_type") == "%struct.cbor_item_t" and \
                    len(p.operands) == 3 and isinstance(p.operands[2], Const) and p.operands[2].v == 1:
                nw += 1
                v = st.operands[0]
                from ir import apath
                unit_step = False
                if isinstance(v, Inst) and v.op == "add":
                    a_, b_ = v.operands
                    c_ = b_ if isinstance(b_, Const) else (a_ if isinstance(a_, Const) else None)
                    o_ = a_ if c_ is b_ else b_
                    if c_ is not None and c_.v in (1, (1 << 64) - 1) and isinstance(o_, Inst) and o_.op == "load" and apath(o_.operands[0]) == apath(p):
                        unit_step = True
                if isinstance(v, Inst) and v.op == "sub":
                    a_, b_ = v.operands
                    if isinstance(b_, Const) and b_.v in (1, (1 << 64) - 1) and isinstance(a_, Inst) and a_.op == "load" and \
                            apath(a_.operands[0]) == apath(p):
                        unit_step = True
                if unit_step:
                    ok = True      # x->refcount = x->refcount +- 1 (incref / decref / move, possibly inlined)
                elif f.name in ctors:
                    ok = isinstance(v, Const) and v.v == 1
                else:
                    ok = False
                chk.ob("C04.refcount-writers", "store to refcount in %s" % f.name, ok, st.loc(), fn=f.name, key="rcw:" + f.name,
                       detail="" if ok else "reference count is set to something other than 1 (fresh item) or itself +- 1")
    chk.floor("C04.refcount-writers", "stores to the refcount field", nw, 10)

    # ---- (B) release ---------------------------------------------------------------
    check_release(chk, prog, eff, cache, ctors, off)
    chk.rule("C04.no-stale-block", "nothing is freed twice through a stale field: after freeing a block read from a heap field the field is "
                                   "overwritten or its owner freed on the same path (reallocation wrappers inlined)")
    from props.c06 import check_dangling
    check_dangling(chk, "C04.no-stale-block", prog, eff, cache)
    chk.rule("C04.covered", "a slot that receives a counted reference lies below the container's element count when the writing "
                            "function returns (the release routine walks exactly [0, count))")
    check_covered(chk, "C04.covered", prog, eff, cache)
    chk.rule("C04.slot-init", "a pair slot that becomes counted has every pointer member (key and value) written on that path: the "
                              "release routine reads both and drops whatever non-NULL value it finds")
    check_slot_init(chk, "C04.slot-init", prog, eff, cache)

    # ---- (C) library as client ------------------------------------------------------
    check_balance(chk, "C04.client", prog, eff, cache, N, B, ctors, floor=60)
    chk.rule("C04.drain", "every NULL-returning path of cbor_load that follows a decoder call leaves through the drain loop, each round "
             "releasing the top item and popping its record: a failed load leaves nothing behind (shared with C01.drain)")
    from props.c01 import check_load_paths
    check_load_paths(chk, prog, eff, R_window=None, R_drain="C04.drain", R_outcome=None)
    nuaf = 0
    for f in prog.lib_funcs():
        if f.name in ("cbor_decref", "cbor_intermediate_decref", "cbor_incref", "cbor_move"):
            continue
        bad = None
        for pa in cache.get(f.name):
            B.analyse(f, pa, owned_params=(0,) if f.name == "_cbor_builder_append" else ())
            if B.uaf:
                bad = (B.uaf[0], pa)
                break
        if any(e.kind == "call" and e.callee == "cbor_decref" for pa in cache.get(f.name) for e in pa.events):
            nuaf += 1
            det = ""
            if bad:
                (t, dead_e, use_e), pa = bad
                det = "item released at %s is used again at %s" % (dead_e.ins.loc(), use_e.ins.loc())
            chk.ob("C04.no-use-after-release", f.name, bad is None, "%s:%d" % (f.file, f.line), fn=f.name, detail=det,
                   path=bad[1].block_lines() if bad else None)
    chk.floor("C04.no-use-after-release", "functions that call cbor_decref", nuaf, 8)
    chk.rule("C04.blocks", "every raw allocator block (stack record, payload buffer, table) is attached / returned / handed over / freed "
                           "exactly once on every path, so that nothing obtained through the allocator remains (shared with C06.blocks)")
    from props.c06 import check_blocks
    check_blocks(chk, "C04.blocks", prog, cache, floor=26)
    chk.rule("C04.no-bypass", "no block is released through libc behind the installed allocator's back")
    rules.check_no_bypass(chk, "C04.no-bypass", prog)
    chk.rule("C04.declared-effects", "a function whose prototype promises `pure` / `const` to the client's compiler neither stores outside its frame "
             "nor allocates, releases or calls back (a reference-taking function promised as pure would have its calls merged: two references handed out, one counted)")
    import rules as _rde
    _rde.check_declared_effects(chk, "C04.declared-effects", prog, eff)
    chk.rule("C04.maker-init", "every constructor writes type, reference count and data pointer of the item it returns on every successful "
             "path (the release routine must find exactly the blocks the item owns)")
    from props.c11 import check_makers_define_item
    check_makers_define_item(chk, "C04.maker-init", prog, eff)
    chk.rule("C04.getters", "each field accessor returns, on every path, the value of the field it stands for (resolved through the struct "
             "types): no guard, clamp or second opinion between the stored value and the caller (the count a client reads is the count the rules maintain)")
    import rules as _rg
    _rg.check_field_getters(chk, "C04.getters", prog, eff, names=('cbor_refcount',))
    chk.rule("C04.signed-compare", "no 64-bit comparison in the library is signed: sizes, lengths, counts, indices and remainders are compared as the unsigned "
             "quantities they are (an index with the top bit set is refused, not used as a negative offset)")
    import rules as _rsc
    _rsc.check_signed_compare(chk, "C04.signed-compare", prog)
    chk.exhaustive = True


def _truth(st, r):
    if r in st.truth:
        return st.truth[r]
    for t, truth in st.truth.items():
        x = t
        while isinstance(x, tuple) and x[0] == "cast":
            x = x[3]
        if x == r:
            return truth
    return None


def _alias_of(pa, t):
    for e in pa.events:
        if e.kind == "call" and e.res == t and e.callee in ("cbor_incref", "cbor_move"):
            return e.args[0]
    return t


_SWAP = {"ugt": "ult", "ult": "ugt", "uge": "ule", "ule": "uge", "sgt": "slt", "slt": "sgt", "sge": "sle", "sle": "sge"}


def check_release(chk, prog, eff, cache, ctors, off, R="C04.release", RX="C04.release-exhaustive"):
    import typestate as _ts
    PA_ = _ts.PredAlgebra(prog)
    CS_ = _ts.CallSites(prog, eff, cache, {}, PA_)
    f = prog.fn("cbor_decref")
    where = "%s:%d" % (f.file, f.line)
    T = prog.enum("cbor_type")
    Tn = {v: k for k, v in T.items()}
    kinds = tables.data_kind_by_type(ctors)
    interior = {t for t, ks in kinds.items() if "interior" in ks}
    # types only reachable by re-marking share the layout of type 0 constructors
    for t in (T["CBOR_TYPE_NEGINT"],):
        if t not in kinds:
            interior.add(t)
    must_free = {t for t in T.values() if t not in interior and kinds.get(t, set()) != {"null"}}
    # arms moved into static helpers are followed; accessors are seen through (a block freed through the pointer that
    # cbor_map_handle(item) returned is item->data)
    ps = cache.get("cbor_decref", inline=O.static_callees(prog, eff, "cbor_decref") | (rules.pure_getters(prog, eff) - {"cbor_decref"}))
    chk.floor(R, "paths of cbor_decref", len(ps), 15)
    seen_types = set()
    nz = 0
    tag_off = off["metadata"] + prog.field_offset("_cbor_tag_metadata", "tagged_item")
    count_getters = {"cbor_bytestring_chunk_count", "cbor_string_chunk_count", "cbor_array_size", "cbor_map_size"}
    handle_getters = {"cbor_bytestring_chunks_handle", "cbor_string_chunks_handle", "cbor_array_handle", "cbor_map_handle"}
    for k, pa in enumerate(ps):
        st = pa.st
        # the item: first load through the parameter
        ITEM = None
        for e in pa.events:
            if e.kind == "load" and ptr_key(e.args[0]) == (("arg", 0), 0):
                ITEM = e.res
                break
        if ITEM is None:
            raise AnalysisBroken("cbor_decref does not load *item_ref")
        frees = [e for e in pa.calls("_cbor_free")]
        decs = [e for e in pa.calls("cbor_decref")]
        nulls = [e for e in pa.events if e.kind == "store" and ptr_key(e.args[0]) == (("arg", 0), 0)]
        # did the count reach zero?
        zero = None
        for t, truth, _ in pa.facts:
            if t[0] != "icmp":
                continue
            pred, a, b = t[1], t[2], t[3]
            if isinstance(a, tuple) and a[0] == "c" and not (isinstance(b, tuple) and b[0] == "c"):
                pred, a, b = _SWAP.get(pred, pred), b, a
            if not (isinstance(b, tuple) and b[0] == "c" and isinstance(a, tuple) and a[0] == "op" and
                    any(isinstance(x, tuple) and x[0] == "ld" and x[1] == ITEM and x[2] == off["refcount"] for x in a[3:5])):
                continue
            # every way of asking an unsigned count "are you 0?"
            z = {("eq", 0): True, ("ne", 0): False, ("ugt", 0): False, ("ule", 0): True, ("ult", 1): True, ("uge", 1): False}.get((pred, b[1]))
            if z is not None:
                zero = truth if z else not truth
        if zero is None:
            raise AnalysisBroken("cbor_decref path %d: no test of the decremented count" % k)
        if not zero:
            ok = not frees and not decs and not nulls
            chk.ob(R, "path %d: count stays positive -> nothing released" % k, ok, where, fn=f.name, key="positive:%d" % k,
                   detail="" if ok else "%d frees, %d child releases, %d stores to *item_ref" % (len(frees), len(decs), len(nulls)))
            continue
        nz += 1
        tys_, _iw, _fw, fl_ = CS_.summary(f, pa, ITEM)
        if not tys_ or len(tys_) == 8:
            # contradictory tests (infeasible) or no type test at all on this path (value outside the enumeration)
            has_type_fact = any((isinstance(k_, tuple) and k_[0] == "ld" and k_[1] == ITEM and k_[2] == off["type"]) for k_ in list(st.inset) + list(st.eqc) + list(st.nec))
            if not tys_ or has_type_fact:
                continue
        types = sorted(tys_)
        if len(types) == 8:
            continue
        seen_types |= set(types)
        tname = "/".join(Tn[t] for t in types)
        # item freed last, once; then only the NULL store
        item_frees = [e for e in frees if e.args[0] == ITEM]
        ok = len(item_frees) == 1 and frees[-1] is item_frees[0]
        chk.ob(R, "path %d (%s): the item block is freed exactly once, after everything else" % (k, tname), ok, where,
               fn=f.name, key="itemlast:%s:%d" % (tname, k))
        if ok:
            idx = pa.events.index(item_frees[0])
            after = [e for e in pa.events[idx + 1:] if e.kind in ("load", "store", "call", "memcpy")
                     and not (e.kind == "store" and ptr_key(e.args[0]) == (("arg", 0), 0) and e.args[1] == ("c", 0))]
            touching = [e for e in after if any(isinstance(a, tuple) and P.derives(a, ITEM) for a in e.args)]
            chk.ob(R, "path %d (%s): nothing touches the item after it is freed" % (k, tname), not touching, where,
                   fn=f.name, key="afterfree:%s:%d" % (tname, k), detail=str(touching[:1]) if touching else "")
            chk.ob(R, "path %d (%s): the caller's pointer is nulled" % (k, tname), len(nulls) == 1 and nulls[0].args[1] == ("c", 0),
                   where, fn=f.name, key="null:%s:%d" % (tname, k))
        # data block
        data_frees = [e for e in frees if e.args[0][0] == "ld" and e.args[0][1] == ITEM and e.args[0][2] == off["data"]]
        for t in types:
            if t in interior:
                ok = not data_frees
                chk.ob(R, "path %d (%s): interior data pointer is not freed" % (k, Tn[t]), ok, where, fn=f.name,
                       key="interior:%s:%d" % (Tn[t], k), detail="" if ok else "frees item->data, which points into the item block")
            elif t in must_free:
                ok = len(data_frees) == 1
                chk.ob(R, "path %d (%s): the data block is freed exactly once" % (k, Tn[t]), ok, where, fn=f.name,
                       key="data:%s:%d" % (Tn[t], k), detail="" if ok else "item->data freed %d times" % len(data_frees))
            else:
                ok = len(data_frees) <= 1
                chk.ob(R, "path %d (%s): data (always NULL) freed at most once" % (k, Tn[t]), ok, where, fn=f.name,
                       key="data:%s:%d" % (Tn[t], k), nontrivial=False)
        # nothing is read out of a block after it has been freed (directly or through a callee that reads the data block)
        for fe in frees[:-1]:
            X = fe.args[0]
            if not (X[0] == "ld" and X[1] == ITEM and X[2] == off["data"]):
                continue
            later = pa.events[pa.events.index(fe) + 1:]
            uaf = None
            for ev in later:
                if ev.kind in ("load", "store") and isinstance(ev.args[0], tuple) and P.derives(ev.args[0], X) and ptr_key(ev.args[0])[0] != ITEM:
                    uaf = "direct access at %s" % ev.ins.loc()
                elif ev.kind == "call" and ev.ckind == "lib" and ITEM in ev.args and ev.callee != "cbor_decref":
                    for q in cache.get(ev.callee):
                        for le in q.events:
                            if le.kind == "load":
                                b_, o_ = ptr_key(le.args[0])
                                if isinstance(b_, tuple) and b_[0] == "ld" and b_[1] == ("arg", 0) and b_[2] == off["data"]:
                                    uaf = "%s() at %s reads inside the data block" % (ev.callee, ev.ins.loc())
                if uaf:
                    break
            chk.ob(R, "path %d (%s): the data block is not read after it is freed" % (k, tname), uaf is None, fe.ins.loc(), fn=f.name,
                   key="uaf:%s:%d" % (tname, k), detail="" if uaf is None else "item->data is freed at %s, then %s" % (fe.ins.loc(), uaf))
        # no block freed twice
        fa = [e.args[0] for e in frees]
        canon = [_canon(a) for a in fa]
        ok = len(set(canon)) == len(canon)
        chk.ob(R, "path %d (%s): no block is freed twice" % (k, tname), ok, where, fn=f.name, key="nodup:%s:%d" % (tname, k),
               detail="" if ok else str(canon))
        # child slots
        iters = [(t, truth) for t, truth, _ in pa.facts if t[0] == "icmp" and t[1] == "ult" and t[2] == ("c", 0)]
        looped = any(truth for t, truth in iters)
        t0 = types[0]
        if t0 in (T["CBOR_TYPE_BYTESTRING"], T["CBOR_TYPE_STRING"]):
            indef = fl_ == {1}
            if indef:
                chunks_frees = [a for a in fa if a[0] == "ld" and a[1][0] == "ld" and a[1][1] == ITEM and a[1][2] == off["data"]]
                chk.ob(R, "path %d (%s indefinite): the chunk table is freed once" % (k, tname), len(chunks_frees) == 1, where,
                       fn=f.name, key="chunks:%s:%d" % (tname, k))
                if looped:
                    ok = len(decs) == 1 and _slot_of(decs[0].args[0], handle_getters, ITEM) and _bound_ok(iters, count_getters, ITEM, off)
                    chk.ob(R, "path %d (%s indefinite): each chunk slot [0, chunk_count) is released" % (k, tname), ok, where,
                           fn=f.name, key="slots:%s:%d" % (tname, k), detail="" if ok else "releases %s" % [d.args[0] for d in decs])
            else:
                chk.ob(R, "path %d (%s definite): no child release" % (k, tname), not decs, where, fn=f.name,
                       key="noslots:%s:%d" % (tname, k))
        elif t0 == T["CBOR_TYPE_ARRAY"]:
            if looped:
                nonnull_known = any(t[0] == "icmp" and t[1] == "eq" and t[3] == ("c", 0) and t[2][0] == "ld" and not truth
                                    for t, truth, _ in pa.facts if isinstance(t[2], tuple) and t[2][0] == "ld" and t[2][1][0] == "idx")
                if decs:
                    ok = len(decs) == 1 and _slot_of(decs[0].args[0], handle_getters, ITEM) and _bound_ok(iters, count_getters, ITEM, off) and nonnull_known
                    chk.ob(R, "path %d (array): each non-NULL slot [0, size) is released" % k, ok, where, fn=f.name,
                           key="slots:array:%d" % k)
                else:
                    empty_known = any(t[0] == "icmp" and t[1] == "eq" and t[3] == ("c", 0) and truth and isinstance(t[2], tuple)
                                      and t[2][0] == "ld" and t[2][1][0] == "idx" for t, truth, _ in pa.facts)
                    chk.ob(R, "path %d (array): a slot is skipped only when it is NULL" % k, empty_known, where, fn=f.name,
                           key="skip:array:%d" % k)
        elif t0 == T["CBOR_TYPE_MAP"]:
            if looped:
                H = decs[0].args[0] if decs else None
                okk = bool(decs) and _slot_of(H, handle_getters, ITEM, allow_plain=True)
                vals = [d for d in decs[1:]]
                ok = okk and len(decs) in (1, 2) and all(ptr_key(v.args[0]) == (ptr_key(H)[0], ptr_key(H)[1] + 8) for v in vals) \
                    and _bound_ok(iters, count_getters, ITEM, off)
                chk.ob(R, "path %d (map): key released, value released unless NULL, for [0, end_ptr)" % k, ok, where, fn=f.name,
                       key="slots:map:%d" % k, detail="" if ok else "releases %s" % [d.args[0] for d in decs])
                if len(decs) == 1:
                    vnull = any(t[0] == "icmp" and t[1] == "eq" and t[3] == ("c", 0) and truth for t, truth, _ in pa.facts
                                if isinstance(t[2], tuple) and t[2][0] == "ld" and t[2][2] == 8 and t[2][1] != ITEM)
                    chk.ob(R, "path %d (map): the value is skipped only when it is NULL" % k, vnull, where, fn=f.name, key="skip:map:%d" % k)
        elif t0 == T["CBOR_TYPE_TAG"]:
            tnull = None
            for t, truth, _ in pa.facts:
                if t[0] == "icmp" and t[1] == "eq" and t[3] == ("c", 0) and t[2][0] == "ld" and t[2][1] == ITEM and t[2][2] == tag_off:
                    tnull = truth
            if tnull is False:
                ok = len(decs) == 1 and ptr_key(decs[0].args[0]) == (ITEM, tag_off)
                chk.ob(R, "path %d (tag): the tagged item is released" % k, ok, where, fn=f.name, key="slots:tag:%d" % k)
            else:
                chk.ob(R, "path %d (tag): nothing to release when no item is attached" % k, not decs and tnull is True, where,
                       fn=f.name, key="skip:tag:%d" % k)
        else:
            chk.ob(R, "path %d (%s): leaf item, no child release" % (k, tname), not decs, where, fn=f.name,
                   key="leaf:%s:%d" % (tname, k))
    missing = [n for n, v in T.items() if v not in seen_types]
    chk.ob(RX, "release switch covers every cbor_type", not missing, where, fn=f.name,
           detail="no arm for %s" % missing if missing else "")
    chk.floor(R, "zero-count paths", nz, 14)


def check_contracts(chk, rule, prog, eff, cache, off):
    """(A) contracts of the operations that take or hand out references: on success exactly one reference and one slot, on
    failure nothing; a getter returns the element with exactly one new reference; a replace releases the displaced element
    exactly once.  Quantified over every path of those operations."""
    # ---- (A) contracts -----------------------------------------------------
    nA = 0
    for name, takes in O.TAKES_REF.items():
        f = prog.fn(name)
        where = "%s:%d" % (f.file, f.line)
        for j, how in takes.items():
            A = ("arg", j)
            for k, pa in enumerate(cache.get(name)):
                eff_n = 0
                cond = []
                stores = 0
                for e in pa.events:
                    if e.kind == "call" and e.ckind == "lib":
                        if e.callee == "cbor_incref" and e.args[0] == A:
                            eff_n += 1
                        elif e.callee in ("cbor_move", "cbor_intermediate_decref") and e.args[0] == A:
                            eff_n -= 1
                        elif e.callee == "cbor_decref" and e.extra and e.extra["pointee"][0] == A:
                            eff_n -= 1
                        elif e.callee in O.TAKES_REF:
                            for kk, hh in O.TAKES_REF[e.callee].items():
                                if kk < len(e.args) and e.args[kk] == A:
                                    if hh == "always":
                                        eff_n += 1
                                        stores += 1
                                    elif _truth(pa.st, e.res) is True or (hh == "nonnull" and pa.st.known_nonnull(e.res)):
                                        eff_n += 1
                                        stores += 1
                                    elif _truth(pa.st, e.res) is False or (hh == "nonnull" and pa.st.known_null(e.res)):
                                        pass
                                    else:
                                        cond.append(e.res)
                    elif e.kind == "store" and (e.args[1] == A or _alias_of(pa, e.args[1]) == A):
                        if ptr_key(e.args[0])[0][0] != "alloca":
                            stores += 1
                    elif e.kind == "store" and ptr_key(e.args[0])[0] == A:
                        d_ = O.refcount_delta(off["refcount"], e)
                        if d_ is not None:
                            eff_n += d_   # incref / move written out as a field update
                # classify outcome
                if how == "always":
                    success = True
                elif how == "bool":
                    success = True if pa.ret == ("c", 1) else (False if pa.ret == ("c", 0) else None)
                    if success is None and isinstance(pa.ret, tuple) and pa.ret[0] == "call" and pa.ret[1] in prog.funcs:
                        # delegated to a callee that cannot fail (all of its paths return true)
                        if all(q.ret == ("c", 1) for q in cache.get(pa.ret[1])):
                            success = True
                            cond = [c for c in cond if c != pa.ret]
                            if any(e.kind == "call" and e.res == pa.ret and any(kk < len(e.args) and e.args[kk] == A for kk in O.TAKES_REF.get(e.callee, {}))
                                   for e in pa.events):
                                eff_n += 1
                                stores += 1
                else:
                    success = False if pa.ret == ("c", 0) else True
                nA += 1
                inst = "%s(arg %d) path %d" % (name, j, k)
                if success is None:
                    # result delegated to a nested operation: effect must be exactly that operation's conditional +1
                    ok = cond == [pa.ret] and eff_n in (0,) or (not cond and False)
                    # a preceding successful step for another argument (cbor_map_add: key added, value delegated) is fine
                    chk.ob(rule, inst + ": delegates success to a nested insert", ok, where, fn=name, key="%s:%d:deleg" % (name, j),
                           detail="" if ok else "unconditional effect %+d, conditional on %s, returns %r" % (eff_n, cond, pa.ret))
                elif success:
                    ok = eff_n == 1 and not cond and stores == 1
                    chk.ob(rule, inst + ": success takes exactly one reference and one slot", ok, where, fn=name,
                           key="%s:%d:succ:%d" % (name, j, k),
                           detail="" if ok else "net refcount effect %+d, stored into %d slot(s)" % (eff_n, stores),
                           path=pa.block_lines() if not ok else None)
                else:
                    ok = eff_n == 0 and not cond and stores == 0
                    chk.ob(rule, inst + ": failure leaves the argument untouched", ok, where, fn=name,
                           key="%s:%d:fail:%d" % (name, j, k),
                           detail="" if ok else "net refcount effect %+d, stored into %d slot(s) although failure is reported" % (eff_n, stores),
                           path=pa.block_lines() if not ok else None)
    # replace: displaced element released once on success
    f = prog.fn("cbor_array_replace")
    for k, pa in enumerate(cache.get("cbor_array_replace")):
        if pa.ret != ("c", 1):
            continue
        rel = [e for e in pa.calls("cbor_intermediate_decref")] + [e for e in pa.calls("cbor_decref")]
        slot_stores = [e for e in pa.events if e.kind == "store" and e.args[1] != ("c", 0) and ptr_key(e.args[0])[0][0] == "idx"]
        ok = len(rel) == 1 and len(slot_stores) == 1
        if ok:
            # the released value was loaded from the very slot that is overwritten
            r = rel[0].args[0]
            ok = r[0] == "ld" and r[1] == ptr_key(slot_stores[0].args[0])[0]
        chk.ob(rule, "cbor_array_replace path %d: displaced element released exactly once" % k, ok, "%s:%d" % (f.file, f.line),
               fn=f.name, key="replace:%d" % k)
        nA += 1
    # getters
    for name in GETTERS_OWNED:
        f = prog.fn(name)
        for k, pa in enumerate(cache.get(name)):
            incs = pa.calls("cbor_incref")
            if pa.ret == ("c", 0):
                ok = not incs
                chk.ob(rule, "%s path %d: refusal takes no reference" % (name, k), ok, "%s:%d" % (f.file, f.line), fn=name,
                       key="%s:null:%d" % (name, k))
            else:
                ok = len(incs) == 1 and pa.ret == incs[0].res and incs[0].args[0][0] == "ld"
                if not incs:
                    # the increment written out as a field update of the returned element
                    steps = [O.refcount_delta(off["refcount"], e) for e in pa.events if e.kind == "store" and ptr_key(e.args[0])[0] == pa.ret]
                    ok = steps == [1] and isinstance(pa.ret, tuple) and pa.ret[0] == "ld"
                chk.ob(rule, "%s path %d: returns the element with exactly one new reference" % (name, k), ok,
                       "%s:%d" % (f.file, f.line), fn=name, key="%s:ref:%d" % (name, k),
                       detail="" if ok else "%d increments; returns %r" % (len(incs), pa.ret))
            nA += 1
    chk.floor(rule, "operation paths", nA, 25)



def check_covered(chk, rule, prog, eff, cache, floor=4):
    """Release coverage: the release routine walks the slots [0, count) of a container (C04.release), so a slot that
    receives a counted reference must lie below the element count when the writing function returns.  For every path
    of every library function that stores a value into an indexed slot of a table and takes a reference to that
    value: the index i was read from a count location whose value at return is i + 1 (or more), or i is count - 1, or
    i < (something read from the container) is a fact of the path."""
    off_rc = prog.field_offset("cbor_item_t", "refcount")
    n = 0

    def plus1(i):
        return (("op", "add", "i64", ("c", 1), i), ("op", "add", "i64", i, ("c", 1)))

    # accessors are seen through: `handle(item)[size(item) - 1]` is `data[end_ptr - 1]`
    getters = rules.pure_getters(prog, eff) - {"cbor_incref", "cbor_move"}
    for f in prog.lib_funcs():
        if f.name in ("cbor_decref", "cbor_incref", "cbor_intermediate_decref", "cbor_move"):
            continue
        where = "%s:%d" % (f.file, f.line)
        for k, pa in enumerate(cache.get(f.name, inline=O.static_callees(prog, eff, f.name) | (getters - {f.name}))):
            st = pa.st
            taken = {e.args[0] for e in pa.events if e.kind == "call" and e.callee == "cbor_incref"}
            # (`slot = cbor_incref(x)`: the routine returns its argument - C04.contracts - so its result is the counted value too)
            taken |= {e.res for e in pa.events if e.kind == "call" and e.callee == "cbor_incref" and e.res is not None}
            taken |= {ptr_key(e.args[0])[0] for e in pa.events if e.kind == "store" and O.refcount_delta(off_rc, e) == 1}
            if not taken:
                continue
            for e in pa.events:
                if e.kind != "store" or e.args[1] not in taken:
                    continue
                b, _o = ptr_key(e.args[0])
                if not (isinstance(b, tuple) and b[0] == "idx" and b[3]):
                    continue
                i = b[3][-1]
                while isinstance(i, tuple) and i[0] == "cast":
                    i = i[3]
                n += 1
                ok, why = False, "slot index %s is not related to an element count" % DR.fmt_term(i)
                if isinstance(i, tuple) and i[0] == "ld":
                    loc = (i[1], i[2])
                    finals = [x.args[1] for x in pa.events if x.kind == "store" and ptr_key(x.args[0]) == loc]
                    final = finals[-1] if finals else i
                    ok = final in plus1(i) or st.rel_gt(final, i)
                    why = "the slot index is the element count %s, which is %s when the function returns: the new reference lies outside " \
                          "[0, count) and the release routine will never drop it" % (DR.fmt_term(i), DR.fmt_term(final) if finals else "unchanged")
                elif isinstance(i, tuple) and i[0] == "op" and i[1] in ("add", "sub") and i[4] in (("c", 1), ("c", (1 << 64) - 1)) and \
                        isinstance(i[3], tuple) and i[3][0] == "ld" and ((i[1] == "sub") == (i[4] == ("c", 1))):
                    c = i[3]
                    finals = [x.args[1] for x in pa.events if x.kind == "store" and ptr_key(x.args[0]) == (c[1], c[2])]
                    ok = not finals or st.rel_gt(finals[-1], i)
                    why = "slot count-1 written, but the count is then changed to %s" % (DR.fmt_term(finals[-1]) if finals else "")
                if not ok:
                    for t, truth, _ in pa.facts:
                        if t[0] == "icmp" and i in (t[2], t[3]):
                            x = t[3] if t[2] == i else t[2]
                            if isinstance(x, tuple) and x[0] in ("ld", "call") and st.rel_gt(x, i):
                                ok = True
                chk.ob(rule, "%s path %d: the slot that receives a counted reference is below the element count at return" % (f.name, k), ok,
                       e.ins.loc(), fn=f.name, key="%s:covered:%d" % (f.name, e.ins.id), detail="" if ok else why,
                       path=pa.block_lines() if not ok else None)
    chk.floor(rule, "slot stores of newly referenced values", n, floor)


def check_slot_init(chk, rule, prog, eff, cache, floor=2):
    """Release reads every pointer member of every counted slot (key, and value when non-NULL): a slot of a struct
    element type that becomes counted - the count location moves from i to i + 1 on the path - must have EVERY pointer
    member of slot i written on that path (a bulk clear counts only if it provably starts at slot i or at the old
    capacity's first byte and is not relied upon across calls).  A member left as the allocator returned it is a
    reference the library never took but will release."""
    n = 0

    def plus1(i):
        return (("op", "add", "i64", ("c", 1), i), ("op", "add", "i64", i, ("c", 1)))

    # accessors are seen through: `handle(item)[size(item) - 1]` is `data[end_ptr - 1]`
    getters = rules.pure_getters(prog, eff) - {"cbor_incref", "cbor_move"}
    for f in prog.lib_funcs():
        if f.name in ("cbor_decref", "cbor_incref", "cbor_intermediate_decref", "cbor_move"):
            continue
        for k, pa in enumerate(cache.get(f.name, inline_static=True)):
            slots = {}
            for e in pa.events:
                if e.kind != "store":
                    continue
                b, o = ptr_key(e.args[0])
                if isinstance(b, tuple) and b[0] == "idx" and b[3] and isinstance(b[2], str) and b[2].startswith("%struct.") and not b[2].endswith("*"):
                    i = b[3][-1]
                    while isinstance(i, tuple) and i[0] == "cast":
                        i = i[3]
                    slots.setdefault((b[2], i), (e, set()))[1].add(o)
            for (ty, i), (e, offs) in slots.items():
                if not (isinstance(i, tuple) and i[0] == "ld"):
                    continue
                counted = any(x.kind == "store" and ptr_key(x.args[0]) == (i[1], i[2]) and x.args[1] in plus1(i) for x in pa.events)
                if not counted:
                    continue
                try:
                    members = prog.struct_members(ty[len("%struct."):])
                except AnalysisBroken:
                    continue
                need = {m["offset_bits"] // 8: m["name"] for m in members if m["type"].endswith("*")}
                missing = [nm for o_, nm in sorted(need.items()) if o_ not in offs]
                n += 1
                chk.ob(rule, "%s path %d: every pointer member of the %s slot that becomes counted is written" % (f.name, k, ty[len("%struct."):]),
                       not missing, e.ins.loc(), fn=f.name, key="%s:slotinit:%d" % (f.name, e.ins.id),
                       detail="" if not missing else "member %s of the new slot keeps whatever the allocator returned; the release routine reads it "
                                                     "(and drops a reference the library never took when it is not NULL)" % ", ".join(missing),
                       path=pa.block_lines() if missing else None)
    chk.floor(rule, "struct slots that become counted", n, floor)


def _canon(t):
    """drop the load sequence numbers so that two loads of the same field compare equal"""
    if isinstance(t, tuple) and t[0] == "ld":
        return ("ld", _canon(t[1]), t[2])
    if isinstance(t, tuple):
        return tuple(_canon(x) if isinstance(x, tuple) else x for x in t)
    return t


def _slot_of(p, handle_getters, ITEM, allow_plain=False):
    """p points into the slot table of ITEM: idx(handle(ITEM), (c 0)) or handle(ITEM)+const"""
    b, o = ptr_key(p)
    if b[0] == "idx":
        inner = b[1]
        ok_idx = b[3] == (("c", 0),)
    elif allow_plain:
        inner, ok_idx = b, True
    else:
        return False
    if inner[0] == "call" and inner[1] in handle_getters:
        return ok_idx
    if inner[0] == "ld" and P.derives(inner, ITEM):
        return ok_idx
    return False


def _bound_ok(iters, count_getters, ITEM, off):
    for t, truth in iters:
        b = t[3]
        if b[0] == "call" and b[1] in count_getters:
            continue
        if b[0] == "ld" and b[1] == ITEM and b[2] == off["metadata"] + 8:
            continue
        # chunk_count read through the data block (the accessor, seen through): offset 0 of *(item->data)
        if b[0] == "ld" and b[2] == 0 and isinstance(b[1], tuple) and b[1][0] == "ld" and b[1][1] == ITEM and b[1][2] == off["data"]:
            continue
        return False
    return bool(iters)
