"""C09 - feeding a stream in fragments yields the same events as one-shot decoding (DESIGN §4 C09)."""
import decoder_rules as DR


def run(ctx, chk):
    prog = ctx.prog()
    eff = ctx.effects(prog)
    chk.explanation = ("the property quantifies over arrival histories of a client loop; the library's share is a per-call "
                       "contract, decided on all paths of the loop-free decoder: (1) statelessness (re-decoding from the last "
                       "consumed offset is the same function application), (2) prefix monotonicity (every read lies below "
                       "the claimed total and the buffer length influences the outcome only through claim comparisons, so a "
                       "FINISHED result is identical on any longer buffer with the same prefix), (3) every wait asks for "
                       "strictly more than is buffered and no more than the pending item occupies, without wrapping.")
    chk.rule("C09.stateless", "the decoder and its callees allocate nothing, write no global, own no static")
    chk.rule("C09.prefix", "source_size is used only as claim_bytes' 'provided' argument, and 'provided' only in the comparison")
    chk.rule("C09.claim-before-read", "every read of the buffer lies below the bytes claimed so far")
    chk.rule("C09.read", "FINISHED: read = claimed bytes = head (+payload) length; required = 0")
    chk.rule("C09.nedata", "NEDATA: read = 0, no callback, required = claimed + failing amount under the test "
                           "'amount > provided - claimed' (strictly more than buffered, never more than the item)")
    chk.rule("C09.nedata-wrap", "required cannot wrap: bounded length, or overflow test / saturation on the path")
    chk.rule("C09.claim", "claim sequence is head byte, argument bytes, payload")
    chk.not_decided += ["equality of event sequences over all fragmentations as such: it follows from the three clauses by "
                        "induction on cut points, which is an argument; examples/streaming_parser.c is read as documentation of the "
                        "client protocol only"]
    DR.stateless(chk, "C09.stateless", prog, eff)
    n = DR.size_only_feeds_claims(chk, "C09.prefix", prog)
    chk.floor("C09.prefix", "uses of source_size", n, 20)
    chk.rule("C09.action", "the event delivered for each head is the RFC 8949 tokenisation's: callback kind, argument width / loader / "
                           "bias and constants agree with the reference for all 256 initial bytes (shared with C08.action)")
    chk.rule("C09.payload", "string payload window is source+head .. +length")
    n = DR.per_byte(chk, "C09", prog, eff, {"read", "nedata", "nedata-wrap", "claim", "claim-before-read", "action", "payload"})
    chk.floor("C09.read", "per-byte obligations", n, 900)
    chk.rule("C09.stateless", "the decoder is a function of its arguments: nothing reachable from cbor_stream_decode writes an object with static storage "
             "(no memo of the previous call, no flag that survives it) - the answer for a buffer does not depend on what was decoded before "
             "(transitive write sets from the effects engine; shared with C17.no-global-write)")
    import rules as _rst
    _rst.check_stateless(chk, "C09.stateless", prog, eff, ('cbor_stream_decode',))
    chk.exhaustive = True
