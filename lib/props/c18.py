"""C18 - read-only operations never write to the items they inspect (DESIGN §4 C18)."""
from build import AnalysisBroken
from ir import Inst, Arg, strip_casts

# functions that take a const item but, per their documentation, hand out a NEW
# reference ("Increases the reference count of the underlying item"); the
# property excludes them.  Their only permitted write is that increment.
HANDS_OUT_REFERENCE = {
    "cbor_array_get": "arrays.h: 'Increases the reference count of the underlying item'",
    "cbor_tag_item": "tags.h: 'Increases the reference count of the underlying item'",
}


def run(ctx, chk):
    _run(ctx, chk, ctx.prog(), "")
    if ctx.tier == "thorough":
        # the configuration without the pretty printer has a different function and global inventory
        _run(ctx, chk, ctx.prog(overrides={"CBOR_PRETTY_PRINTER": 0}), "[CBOR_PRETTY_PRINTER=0] ")
        chk.extra["configurations"] = ["default", "CBOR_PRETTY_PRINTER=0"]


def _run(ctx, chk, prog, tag):
    eff = ctx.effects(prog)
    if tag:
        base = chk

        class _Tagged:
            """view of the Check that prefixes instances and keys with the configuration"""
            def __getattr__(self, a):
                return getattr(base, a)

            def __setattr__(self, a, v):
                setattr(base, a, v)

            def ob(self, rule, instance, ok, where="", detail="", nontrivial=True, fn="", key=None, path=None):
                return base.ob(rule, tag + instance, ok, where, detail, nontrivial, fn, tag + (key or instance), path)

            def floor(self, rule, what, count, minimum):
                return base.floor(rule, tag + what, count, max(1, minimum * 3 // 4))

            def rule(self, name, text):
                if name not in base.rules:
                    base.rule(name, text)
        chk = _Tagged()
    chk.explanation = ("deep interprocedural effect analysis (E1): for every exported function with a "
                       "`const cbor_item_t*` parameter (qualifier read from the function's debug-info signature), no "
                       "store in the function or any transitive callee targets memory derived from that parameter "
                       "(the item, its data block, any child reached through it). A transient write (increment then "
                       "decrement) is a write; the verdict is independent of optimisation level and schedule.")
    chk.rule("C18.readonly", "writes_through(f, p) is false for every exported f and every parameter p declared "
                             "`const cbor_item_t*` (deep: item, data block, children), except the documented "
                             "reference-returning getters")
    chk.rule("C18.getter-exception", "a documented reference-returning getter writes to the inspected item only by the "
                                     "single cbor_incref of the element it returns")
    chk.rule("C18.control", "positive control: a const-item function with a (transient) write is reported")
    chk.not_decided += ["functions whose item parameter is not const-qualified (cbor_copy, cbor_describe, setters) are not "
                        "subjects of this property"]

    nsub = 0
    for f in sorted(prog.funcs.values(), key=lambda x: x.name):
        if f.internal or f.di_types is None:
            continue
        sret = 1 if (f.params and f.params[0].get("sret")) else 0
        for di, t in enumerate(f.di_types[1:]):
            if t != "const cbor_item_t*":
                continue
            pi = di + sret
            w = eff.writes_through(f.name, pi)
            wit = eff.write_witness(f.name, ("param", pi)) if w else []
            chain = " -> ".join("%s@%s" % (fn, ins.loc()) for fn, ins, _ in wit)
            pathl = ["%s: %r (%s)" % (fn, ins, kind) for fn, ins, kind in wit]
            if f.is_extra:
                if f.name.startswith("verif_ctl_const_write"):
                    chk.ob("C18.control", f.name, w, "controls/ctl_state.c", detail=chain)
                continue
            nsub += 1
            where = "%s:%d" % (f.file, f.line)
            if f.name in HANDS_OUT_REFERENCE:
                # only write sites: calls to cbor_incref
                sites = eff.summ[f.name]["write_sites"].get(("param", pi), [])
                def is_incr(si):
                    if si.op == "call" and si.callee == "cbor_incref":
                        return True
                    if si.op == "store":
                        from ir import Inst as _I, Const as _C, apath as _ap
                        v_, p_ = si.operands
                        if isinstance(v_, _I) and v_.op == "add" and any(isinstance(o_, _C) and o_.v == 1 for o_ in v_.operands):
                            o_ = [x for x in v_.operands if not isinstance(x, _C)]
                            return bool(o_) and isinstance(o_[0], _I) and o_[0].op == "load" and _ap(o_[0].operands[0]) == _ap(p_)
                    return False
                ok = all(is_incr(s_) for s_ in sites) and len(sites) <= 1
                chk.ob("C18.getter-exception", f.name, ok, where, fn=f.name,
                       detail=HANDS_OUT_REFERENCE[f.name] + ("" if ok else "; but writes via %s" % chain))
                continue
            chk.ob("C18.readonly", "%s(%s)" % (f.name, f.params[pi]["name"]), not w, where, fn=f.name,
                   key="%s:%s" % (f.name, wit[-1][0] if wit else ""),
                   detail=("writes to the inspected item: " + chain) if w else "", path=pathl,
                   nontrivial=bool(eff.summ[f.name]["callees"]) or w)
    chk.floor("C18.readonly", "const-item subjects", nsub, 40)
    chk.rule("C18.declared-effects", "a function whose prototype promises `pure` / `const` to the client's compiler neither stores outside "
                                     "its frame nor allocates, releases or calls back")
    import rules as _rde
    _rde.check_declared_effects(chk, "C18.declared-effects", prog, eff)
    chk.count("functions", len(prog.lib_funcs()))
    chk.rule("C18.signed-compare", "no 64-bit comparison in the library is signed: sizes, lengths, counts, indices and remainders are compared as the unsigned "
             "quantities they are (a refused lookup touches nothing)")
    import rules as _rsc
    _rsc.check_signed_compare(chk, "C18.signed-compare", prog)
    chk.exhaustive = True
