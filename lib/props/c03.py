"""C03 - serialization emits exactly the RFC 8949 encoding of the tree and round-trips (DESIGN §4 C03)."""
from build import AnalysisBroken
import paths as P
from paths import ptr_key, is_const
import encoder_rules as ER
import decoder_rules as DR
import ownership as O
import tables
import typestate
from props.c10 import mirror

WIDTH_BYTES = {0: 1, 1: 2, 2: 4, 3: 8}


def strip(t):
    while isinstance(t, tuple) and t[0] == "cast":
        t = t[3]
    return t


def check_width(chk, rule, prog, eff, cache, H, PA, CS, families=None):
    """each width arm of the leaf serializers hands the value read by the getter of THAT width, unconverted, to the
    encoder of THAT width (shared by C03.width and C15.width-serialize)"""
    ITEM = ("arg", 0)
    nw = 0
    for name, fam in (families or (("cbor_serialize_uint", ("int", 0x00)), ("cbor_serialize_negint", ("int", 0x20)), ("cbor_serialize_float_ctrl", ("float", 0xE0)))):
        g = prog.fn(name)
        gw = "%s:%d" % (g.file, g.line)
        widths_seen = set()
        for k, pa in enumerate(cache.get(name)):
            encs = [e for e in pa.events if e.kind == "call" and e.ckind == "lib" and e.callee.startswith("cbor_encode_")]
            if not encs:
                continue
            tys_, iw_, fw_, _fl = CS.summary(g, pa, ITEM, upto=encs[0].nfacts)
            w = sorted(iw_ if fam[0] == "int" else fw_)
            if len(w) != 1:
                continue
            w = w[0]
            if len(encs) != 1 or pa.ret != encs[0].res:
                chk.ob(rule, "%s width %d" % (name, w), False, gw, fn=name, key="%s:%d" % (name, w), detail="arm does not return a single encoder's result")
                continue
            enc = encs[0]
            spec = ER.SPEC.get(enc.callee)
            getter_term = enc.args[0]
            gt = strip(getter_term)
            ok = spec is not None and gt[0] == "call" and enc.args[1:] == (("arg", 1), ("arg", 2))
            det = ""
            if ok:
                # getter precondition: same width, same family
                ge = [e for e in pa.events if e.kind == "call" and e.res == gt][0]
                pre = H.get(ge.callee, [])
                pts = set(typestate.DOMAIN)
                for a in pre:
                    if a.get("param") == 0:
                        ap = PA.atom_points(a)
                        if ap is not None:
                            pts &= ap
                widx = 1 if fam[0] == "int" else 2
                gws = sorted({p[widx] for p in pts})
                okg = gws == [w] and ge.args[0] == ("arg", 0)
                # encoder: width and offset
                mode, off, nbytes = spec
                if fam[0] == "int":
                    oke = mode == "fixed" and off == fam[1] and nbytes == WIDTH_BYTES[w]
                else:
                    oke = off == 0xE0 and ((w == 0 and mode == "fixed" and nbytes == 1) or (w > 0 and mode == "float" and nbytes == WIDTH_BYTES[w]))
                # no conversion between getter and encoder
                okc = getter_term == gt or (getter_term[0] == "cast" and getter_term[1] in ("zext",) and False)
                ok = okg and oke and okc
                det = "" if ok else "getter %s (widths %s), encoder %s %s, unconverted: %s" % (ge.callee, gws, enc.callee, spec, okc)
            widths_seen.add(w)
            nw += 1
            chk.ob(rule, "%s width %d -> %s" % (name, w, enc.callee), ok, gw, fn=name, key="%s:%d" % (name, w), detail=det)
        chk.ob(rule, "%s covers all four widths" % name, widths_seen == {0, 1, 2, 3}, gw, fn=name, key="%s:all" % name,
               detail="arms for %s" % sorted(widths_seen))
    chk.floor(rule, "width arms", nw, 9 if families is None else 3)



def check_int_makers(chk, rule, prog, eff):
    Tt = prog.enum("cbor_type")
    IWd = prog.enum("cbor_int_width")
    nim = 0
    for kind_, tname in (("uint", "CBOR_TYPE_UINT"), ("negint", "CBOR_TYPE_NEGINT")):
        for bits_ in (8, 16, 32, 64):
            fn_ = "cbor_build_%s%d" % (kind_, bits_)
            if fn_ not in prog.funcs:
                continue
            g_ = prog.funcs[fn_]
            for k_, r_ in enumerate(tables.result_states(prog, eff, fn_)):
                d_ = r_["desc"]
                if d_ is None:
                    continue
                nim += 1
                pay = (d_.get("payload") or {})
                val = pay.get("i%d" % bits_)
                ok_ = d_["type"] == ("c", Tt[tname]) and d_["meta0"] == ("c", IWd["CBOR_INT_%d" % bits_]) and val == ("arg", 0) and \
                    set(pay) == {"i%d" % bits_}
                chk.ob(rule, "%s path %d: a %d-bit %s holding the parameter" % (fn_, k_, bits_, kind_), ok_, "%s:%d" % (g_.file, g_.line),
                       fn=fn_, key="intmaker:%s:%d" % (fn_, k_),
                       detail="" if ok_ else "type %s, width %s, payload %s" % (DR.fmt_term(d_["type"]) if d_["type"] else None,
                                                                              DR.fmt_term(d_["meta0"]) if d_["meta0"] else None,
                                                                              {a: DR.fmt_term(b) for a, b in pay.items()}))
    chk.floor(rule, "integer builder results", nim, 8)


def run(ctx, chk):
    prog = ctx.prog()
    eff = ctx.effects(prog)
    H, PA, IF, _ = ctx.typestate()
    chk.explanation = ("the serializer is dispatch + tables: path enumeration of cbor_serialize and the per-type serializers "
                       "checks that each type/width arm reaches the serializer / getter / encoder of that type and width "
                       "(preconditions harvested from the library's own assertions, predicate semantics evaluated from IR), "
                       "the encoder tables are compared with the RFC 8949 head reference for all 2^64 values, indefinite "
                       "framing and member order are checked on every path, and every emitted initial byte is linked to "
                       "the decoder arm that inverts it.")
    chk.rule("C03.dispatch", "cbor_serialize has an arm for every cbor_type and each arm returns the result of the serializer "
                             "whose own precondition is exactly that type, on the same item, buffer and size")
    chk.rule("C03.width", "in the integer / float serializers each width arm calls the getter whose precondition is that width "
                          "and the encoder of that width and major type, passing the getter's value unconverted")
    chk.rule("C03.guard", "an encoder refuses (0) only a buffer that is too small for the head it has to write, writes exactly the bytes it "
                          "reports and nothing on refusal: with a buffer of exactly the serialized size every tree is emitted (shared with "
                          "C07.guard)")
    chk.rule("C03.offset", "encoders emit the RFC initial byte (major-type offset | additional information)")
    chk.rule("C03.shortest", "lengths, counts and tag numbers use the shortest head; integers and floats their stored width")
    chk.rule("C03.bytes", "arguments are big-endian")
    chk.rule("C03.framing", "definite items: start(count of the item) then members; indefinite: indefinite start, members, "
                            "break; tags: tag head then the tagged item")
    chk.rule("C03.order", "members are emitted in storage order: slot 0 then slot 1 (array), key then value of pair 0 then pair 1 "
                          "(map), chunk 0 then chunk 1 (strings)")
    chk.rule("C03.nan", "NaN of each width is emitted as the canonical quiet NaN")
    chk.rule("C03.mirror", "every initial byte an encoder emits is decoded by the arm of the same kind and width, consuming "
                           "exactly the bytes written (structural core of the round trip)")
    chk.not_decided += ["tree equality of load(serialize(t)) and byte equality of re-serialization as executed facts: they follow "
                        "from dispatch/table/mirror agreement by structural induction, which is an argument",
                        "half-precision value arithmetic (C15)"]
    T = prog.enum("cbor_type")
    Tn = {v: k for k, v in T.items()}
    cache = O.PathCache(prog, eff)
    for n_, s_ in prog.structs.items():
        if "size" in s_:
            _ELEM["%" + n_] = s_["size"]
    CS = typestate.CallSites(prog, eff, cache, H, PA)
    ITEM = ("arg", 0)

    # ---- dispatch
    f = prog.fn("cbor_serialize")
    where = "%s:%d" % (f.file, f.line)
    seen = set()
    for k, pa in enumerate(cache.get("cbor_serialize")):
        calls = [e for e in pa.events if e.kind == "call" and e.ckind == "lib" and e.callee.startswith("cbor_serialize_")]
        if not calls:
            continue   # arm for a value outside the enumeration
        ty = sorted(CS.summary(f, pa, ITEM, upto=calls[0].nfacts)[0])
        if not ty:
            continue   # contradictory type tests: the path is infeasible
        ok = len(ty) == 1 and len(calls) == 1 and pa.ret == calls[0].res and calls[0].args == (("arg", 0), ("arg", 1), ("arg", 2))
        det = ""
        if ok:
            pre = H.get(calls[0].callee, [])
            pts = set(typestate.DOMAIN)
            for a in pre:
                if a.get("param") == 0 and a.get("entry", True):
                    ap = PA.atom_points(a)
                    if ap is not None:
                        pts &= ap
            tys = sorted({p[0] for p in pts})
            ok = tys == ty
            det = "" if ok else "arm for %s calls %s whose precondition admits %s" % (Tn[ty[0]], calls[0].callee, [Tn[t] for t in tys])
            seen.add(ty[0])
        chk.ob("C03.dispatch", "arm %s" % ([Tn[t] for t in ty],), ok, where, fn=f.name, key="arm:%s" % ty, detail=det)
    missing = [n for n, v in T.items() if v not in seen]
    chk.ob("C03.dispatch", "exhaustive over cbor_type", not missing, where, fn=f.name, detail="no arm for %s" % missing if missing else "")

    # ---- width arms
    check_width(chk, "C03.width", prog, eff, cache, H, PA, CS)

    # ---- encoder tables
    encs = ER.public_encoders(prog)
    for n in encs:
        res, np_ = ER.check_encoder(prog, eff, n)
        for rule, inst, ok, w, detail in res:
            if rule in ("offset", "shortest", "cover", "bytes", "nan"):
                r = {"cover": "shortest"}.get(rule, rule)
                chk.ob("C03." + r, inst, ok, w, fn=n, detail=detail)
            elif rule == "guard":
                chk.ob("C03.guard", inst, ok, w, fn=n, detail=detail)

    # ---- framing and order
    cache2 = {n: P.Executor(prog, eff, loop_bound=2, inline=O.static_callees(prog, eff, n)).run(n) for n in
              ("cbor_serialize_bytestring", "cbor_serialize_string", "cbor_serialize_array", "cbor_serialize_map", "cbor_serialize_tag")}
    FR = {
        "cbor_serialize_bytestring": dict(defpred="cbor_bytestring_is_definite", dstart="cbor_encode_bytestring_start", dcount="cbor_bytestring_length",
                                          istart="cbor_encode_indef_bytestring_start", member="cbor_serialize_bytestring", handle="cbor_bytestring_chunks_handle"),
        "cbor_serialize_string": dict(defpred="cbor_string_is_definite", dstart="cbor_encode_string_start", dcount="cbor_string_length",
                                      istart="cbor_encode_indef_string_start", member="cbor_serialize_string", handle="cbor_string_chunks_handle"),
        "cbor_serialize_array": dict(defpred="cbor_array_is_definite", dstart="cbor_encode_array_start", dcount="cbor_array_size",
                                     istart="cbor_encode_indef_array_start", member="cbor_serialize", handle="cbor_array_handle"),
        "cbor_serialize_map": dict(defpred="cbor_map_is_definite", dstart="cbor_encode_map_start", dcount="cbor_map_size",
                                   istart="cbor_encode_indef_map_start", member="cbor_serialize", handle="cbor_map_handle"),
    }
    nfr = 0
    for name, spec in FR.items():
        g = prog.fn(name)
        gw = "%s:%d" % (g.file, g.line)
        for k, pa in enumerate(cache2[name]):
            if pa.ret == ("c", 0):
                continue
            nested = [e for e in pa.events if e.kind == "call" and e.ckind == "lib" and
                      (e.callee.startswith("cbor_encode_") or e.callee.startswith("cbor_serialize"))]
            tys_all, _iw, _fw, fl = CS.summary(g, pa, ITEM)
            if not tys_all:
                continue   # contradictory flavour/type tests (e.g. a field test and a predicate call that disagree): infeasible path
            definite = True if fl == {0} else (False if fl == {1} else None)
            if definite is None or not nested:
                chk.ob("C03.framing", "%s path %d: flavour is tested" % (name, k), False, gw, fn=name, key="%s:flav:%d" % (name, k))
                continue
            nfr += 1
            first, last = nested[0], nested[-1]
            members = nested[1:] if definite else nested[1:-1]
            if definite:
                cnt = strip(first.args[0])
                ok = first.callee == spec["dstart"] and cnt[0] == "call" and cnt[1] == spec["dcount"] and \
                    [e for e in pa.events if e.kind == "call" and e.res == cnt][0].args[0] == ("arg", 0) and \
                    all(m.callee != "cbor_encode_break" for m in nested)
                det = "" if ok else "definite item starts with %s(%s) / emits a break" % (first.callee, DR.fmt_term(first.args[0]))
            else:
                ok = first.callee == spec["istart"] and last.callee == "cbor_encode_break" and len(nested) >= 2 and \
                    all(m.callee != "cbor_encode_break" for m in nested[:-1])
                det = "" if ok else "indefinite item is framed by %s ... %s" % (first.callee, last.callee)
            chk.ob("C03.framing", "%s path %d (%s, %d members)" % (name, k, "definite" if definite else "indefinite", len(members)), ok, gw,
                   fn=name, key="%s:frame:%s:%d" % (name, definite, len(members)), detail=det, path=pa.block_lines() if not ok else None)
            # members: all are `member` calls on consecutive slots
            if name in ("cbor_serialize_bytestring", "cbor_serialize_string") and definite:
                continue
            slots = []
            okm = True
            for m in members:
                if m.callee not in (spec["member"], "cbor_serialize"):   # the type's own serializer or the generic dispatcher
                    okm = False
                    break
                slots.append(m.args[0])
            exp = _expected_slots(name, spec, pa, len(members))
            oko = okm and exp is not None and [_canon_slot(s) for s in slots] == exp
            chk.ob("C03.order", "%s path %d: %d member(s) in storage order" % (name, k, len(members)), oko, gw, fn=name,
                   key="%s:order:%s:%d" % (name, definite, len(members)),
                   detail="" if oko else "members %s, expected %s" % ([_canon_slot(s) for s in slots], exp), path=pa.block_lines() if not oko else None)
    chk.floor("C03.framing", "successful composite paths", nfr, 12)
    # tag
    g = prog.fn("cbor_serialize_tag")
    tagged_off = prog.field_offset("cbor_item_t", "metadata") + prog.field_offset("_cbor_tag_metadata", "tagged_item")
    for k, pa in enumerate(cache2["cbor_serialize_tag"]):
        if pa.ret == ("c", 0):
            continue
        nested = [e for e in pa.events if e.kind == "call" and e.ckind == "lib" and (e.callee.startswith("cbor_encode_") or e.callee.startswith("cbor_serialize"))]
        v = strip(nested[0].args[0]) if nested else None
        value_off = prog.field_offset("cbor_item_t", "metadata") + prog.field_offset("_cbor_tag_metadata", "value")
        # the tag number: the accessor's result, or the field the accessor reads
        is_value = v is not None and ((v[0] == "call" and v[1] == "cbor_tag_value" and
                                       any(e.kind == "call" and e.res == v and e.args[0] == ("arg", 0) for e in pa.events)) or
                                      (v[0] == "ld" and v[1] == ("arg", 0) and v[2] == value_off))
        ok = len(nested) == 2 and nested[0].callee == "cbor_encode_tag" and is_value and nested[1].callee == "cbor_serialize"
        child = nested[1].args[0] if ok else None
        okc = ok and ((child[0] == "ld" and child[1] == ("arg", 0) and child[2] == tagged_off) or
                      (child[0] == "call" and child[1] in ("cbor_move", "cbor_tag_item")))
        chk.ob("C03.framing", "cbor_serialize_tag path %d: tag head then the tagged item" % k, ok and okc, "%s:%d" % (g.file, g.line), fn=g.name,
               key="tag:%d" % k)

    # ---- totality: every tree can be serialized
    import serializer_rules as SR
    chk.rule("C03.total", "a serializer (exported or unit-internal helper with the buffer/buffer_size convention) returns 0 only "
                          "on a path where a nested encoder/serializer returned 0 or a comparison against buffer_size was decided; "
                          "a successful result is the unmodified result of one such call or a sum with a positive summand - so "
                          "every tree, including empty chunk lists and empty containers, has an encoding")
    nt = SR.zero_only_on_short_buffer(chk, "C03.total", prog, eff, CS, encs)
    chk.floor("C03.total", "serializer paths", nt, 60)

    # ---- mirror
    by_byte, pre, outs = tables.dispatch(prog, eff)
    names, enumv = DR.status_names(prog)
    ext_cache = {}

    def loader_ext(name):
        if name not in ext_cache:
            ext_cache[name] = tables.read_extent(prog, name, 0)
        return ext_cache[name]
    chk.rule("C03.simple", "assigned simple values decode; unassigned ones are outside the property's domain")
    nm = mirror(chk, "C03.mirror", "C03.simple", prog, eff, encs, by_byte, enumv, loader_ext)
    chk.floor("C03.mirror", "encoder byte -> decoder arm links", nm, 200)
    # ---- the simple values an item carries are the RFC's: the serializer emits 0xE0 + the stored number (C03.offset), so
    # the number the makers store IS the wire value
    chk.rule("C03.simple-wire", "the item made for false / true / null / undefined carries the RFC 8949 simple value 20 / 21 / 22 / 23 "
                                "(what cbor_build_bool, cbor_set_bool, cbor_new_null and cbor_new_undef store, evaluated for each "
                                "argument value) - the serializer emits 0xE0 + that number")
    import termeval
    ctrl_off = tables.item_offsets(prog)["metadata"] + prog.field_offset("_cbor_float_ctrl_metadata", "ctrl")
    nsw = 0
    for fn_, argv, want, what in (("cbor_build_bool", 0, 20, "false"), ("cbor_build_bool", 1, 21, "true"),
                                  ("cbor_new_null", None, 22, "null"), ("cbor_new_undef", None, 23, "undefined")):
        if fn_ not in prog.funcs:
            continue
        g_ = prog.funcs[fn_]
        for k_, r_ in enumerate(tables.result_states(prog, eff, fn_)):
            d_ = r_["desc"]
            if d_ is None:
                continue
            env_ = {("arg", 0): argv} if argv is not None else {}
            # only the paths taken for this argument value (an if/else on the argument gives one path per truth value)
            feasible = True
            for t_, tr_, _i in r_["path"].facts:
                try:
                    if bool(termeval.evaluate(t_, env_, {})) != tr_:
                        feasible = False
                        break
                except Exception:
                    continue      # a condition on something else (the allocation result)
            if not feasible:
                continue
            nsw += 1
            try:
                got = termeval.evaluate(d_["ctrl"], env_, {}) if d_["ctrl"] is not None else None
            except Exception:
                got = None
            ok_ = got == want and d_["type"] == ("c", 7)
            chk.ob("C03.simple-wire", "%s(%s) path %d: the item carries simple value %d (%s)" % (fn_, "" if argv is None else argv, k_, want, what),
                   ok_, "%s:%d" % (g_.file, g_.line), fn=fn_, key="sw:%s:%s:%d" % (fn_, argv, k_),
                   detail="" if ok_ else "stores %s, i.e. %s: serialized as 0x%02X where RFC 8949 has 0x%02X for %s"
                   % (DR.fmt_term(d_["ctrl"]) if d_["ctrl"] is not None else "nothing", got, 0xE0 + (got or 0), 0xE0 + want, what))
    if "cbor_set_bool" in prog.funcs:
        g_ = prog.funcs["cbor_set_bool"]
        for k_, pa_ in enumerate(cache.get("cbor_set_bool", inline_static=True)):
            for e_ in pa_.events:
                if e_.kind == "store" and P.ptr_key(e_.args[0]) == (("arg", 0), ctrl_off):
                    for argv, want in ((0, 20), (1, 21)):
                        feasible = True
                        for t_, tr_, _i in pa_.facts:
                            try:
                                if bool(termeval.evaluate(t_, {("arg", 1): argv}, {})) != tr_:
                                    feasible = False
                                    break
                            except Exception:
                                continue
                        if not feasible:
                            continue
                        nsw += 1
                        try:
                            got = termeval.evaluate(e_.args[1], {("arg", 1): argv}, {})
                        except Exception:
                            got = None
                        chk.ob("C03.simple-wire", "cbor_set_bool(item, %d) path %d stores simple value %d" % (argv, k_, want), got == want,
                               e_.ins.loc(), fn="cbor_set_bool", key="sw:set:%d:%d" % (argv, k_),
                               detail="" if got == want else "stores %s" % got)
    chk.floor("C03.simple-wire", "maker results evaluated", nsw, 6)
    # ---- integer makers: the item a builder returns carries the width it is named for and the whole value
    chk.rule("C03.int-makers", "cbor_build_uintN / cbor_build_negintN return an integer item of type UINT / NEGINT whose width is N and "
                               "whose N-bit payload is the parameter itself (a builder that stores fewer bytes than the width it marks "
                               "leaves the rest to the allocator, and the serializer emits them)")
    check_int_makers(chk, "C03.int-makers", prog, eff)
    # ---- payload bytes are written by a byte-exact primitive
    chk.rule("C03.payload-copy", "the only external routines that receive the output buffer are memcpy / memmove: a payload is emitted "
                                 "byte for byte, whatever it contains (a string routine stops at the first NUL)")
    npc = 0
    for f_ in SR.subjects(prog):
        BUF_ = ("arg", f_.param_index("buffer"))
        for k_, pa_ in enumerate(cache.get(f_.name, inline_static=True)):
            for e_ in pa_.events:
                if e_.kind == "call" and e_.ckind == "ext" and any(isinstance(a_, tuple) and P.derives(a_, BUF_) for a_ in e_.args):
                    npc += 1
                    ok_ = e_.callee in ("memcpy", "memmove")
                    chk.ob("C03.payload-copy", "%s: %s writes the payload" % (f_.name, e_.callee), ok_, e_.ins.loc(), fn=f_.name,
                           key="paycopy:%s:%s:%d" % (f_.name, e_.callee, e_.ins.id),
                           detail="" if ok_ else "%s is not a byte-exact copy (it interprets the bytes)" % e_.callee)
                elif e_.kind == "memcpy" and isinstance(e_.args[0], tuple) and P.derives(e_.args[0], BUF_):
                    npc += 1
    chk.floor("C03.payload-copy", "bulk writes into the output buffer", npc, 2)
    # ---- the decoder accepts what the serializer can emit for a tree within the nesting limit
    chk.rule("C03.gate", "the decoding stack accepts a frame at every depth below the configured limit and refuses exactly at it, so a "
                         "tree nested exactly CBOR_MAX_STACK_SIZE deep loads back (shared with C19.gate)")
    from props.c19 import check_gate
    L_ = int(prog.values["CBOR_MAX_STACK_SIZE"])
    check_gate(chk, prog, eff, L_, "default(L=%d)" % L_, rule="C03.gate")
    chk.rule("C03.frame-push", "every tree the serializer can emit within the nesting limit loads back: a definite container gets a frame "
             "of the decoding stack only with a positive outstanding count - an empty one is complete at once and takes no "
             "nesting level (shared with C01.frame-invariants)")
    from props.c01 import check_push_positive
    check_push_positive(chk, "C03.frame-push", prog, cache)
    chk.rule("C03.opener-capacity", "a definite array / map is created with exactly the element count its head declares (the constructor "
             "that allocates the slot table receives the callback's size argument unchanged): a capped preallocation makes the "
             "insertion of the remaining members fail, so the serializer's own output no longer loads")
    load_ = prog.fn("cbor_load")
    g_ = __import__("tables").load_callbacks_global(prog)
    noc = 0
    ctors_ = tables.constructors(prog, eff)     # the constructors that allocate a slot table of their own
    for el in (g_["init_val"].elems if g_ and g_.get("init_val") is not None else []):
        fn_ = getattr(el, "name", None)
        if not fn_ or fn_ not in prog.funcs:
            continue
        cb_ = prog.funcs[fn_]
        if len(cb_.params) != 2 or cb_.params[1]["type"] != "i64":
            continue
        for k_, pa_ in enumerate(cache.get(fn_, inline_static=True)):
            for e_ in pa_.events:
                if e_.kind == "call" and e_.ckind == "lib" and e_.callee in prog.funcs and prog.funcs[e_.callee].ret_type == "%struct.cbor_item_t*" \
                        and len(e_.args) == 1 and prog.funcs[e_.callee].params and prog.funcs[e_.callee].params[0]["type"] == "i64" \
                        and ctors_.get(e_.callee, {}).get("data") == "separate":
                    a_ = e_.args[0]
                    while isinstance(a_, tuple) and a_[0] == "cast":
                        a_ = a_[3]
                    noc += 1
                    ok_ = a_ == ("arg", 1)
                    chk.ob("C03.opener-capacity", "%s path %d: %s receives the declared count" % (fn_, k_, e_.callee), ok_, e_.ins.loc(), fn=fn_,
                           key="opcap:%s:%s" % (fn_, e_.callee), detail="" if ok_ else "capacity requested: %s" % DR.fmt_term(e_.args[0]))
    chk.floor("C03.opener-capacity", "definite constructors called by the openers", noc, 2)
    chk.rule("C03.getters", "each field accessor returns, on every path, the value of the field it stands for (resolved through the struct "
             "types): no guard, clamp or second opinion between the stored value and the caller (what is serialized is what the tree stores)")
    import rules as _rg
    _rg.check_field_getters(chk, "C03.getters", prog, eff, names=('cbor_string_length', 'cbor_bytestring_length', 'cbor_string_handle', 'cbor_bytestring_handle', 'cbor_string_chunk_count', 'cbor_bytestring_chunk_count', 'cbor_string_chunks_handle', 'cbor_bytestring_chunks_handle', 'cbor_array_size', 'cbor_map_size', 'cbor_array_handle', 'cbor_map_handle', 'cbor_tag_value', 'cbor_ctrl_value', 'cbor_float_get_width', 'cbor_int_get_width', 'cbor_typeof'))
    chk.rule("C03.capacity-field", "a block installed as a container's storage comes with its element capacity, and a recorded capacity is the one the "
             "installed block was requested with: the slots between count and capacity exist (the serializer walks `allocated`-bounded storage it trusts; shared with C12.capacity-field)")
    import ownership as _Ocf
    from props.c12 import check_capacity_field as _ccf
    _ccf(chk, "C03.capacity-field", prog, eff, _Ocf.PathCache(prog, eff))
    chk.rule("C03.set-handle", "the set-handle routines attach what they are given on every path - data pointer and length become the arguments, with no "
             "early way out for a block the item already holds - and obtain or release no memory (what is serialized is the payload and length last attached)")
    import rules as _rsh
    _rsh.check_set_handle(chk, "C03.set-handle", prog, eff)
    # the size the allocating serializer asks for is part of what "serialization emits": a tree whose size comes out as 0 is not
    # serialized at all by cbor_serialize_alloc (shared with C07.size-*)
    chk.rule("C03.size-leaf", "cbor_serialized_size returns for every leaf type/width the length the matching encoder writes (shared with C07)")
    chk.rule("C03.size-header", "_cbor_encoded_header_size partitions the values exactly like the shortest-form selector (shared with C07)")
    chk.rule("C03.size-sum", "composite sizes are header (or 2 for indefinite) plus members, combined only through the signalling add: an empty "
                             "indefinite item is 2 bytes, never the overflow signal (shared with C07)")
    from props.c07 import check_size as _check_size3
    _check_size3(chk, prog, eff, cache, H, prefix="C03")
    chk.rule("C03.narrowing", "no 64-bit quantity is converted to a narrower integer type except to take one byte of it or below a range test that makes "
             "the conversion lossless (the head, the space test and the copy all use the item's whole length; shared with C02.narrowing)")
    import rules as _rnw2
    _rnw2.check_narrowing(chk, "C03.narrowing", prog, eff=eff)
    chk.rule("C03.decoded-payload", "what is loaded back is what was written: the string builders copy exactly the `length` payload bytes the decoder "
             "claimed - not a prefix, not one more (shared with C01.payload-copy)")
    import ownership as _Opc
    _npc = DR.payload_reads(chk, "C03.decoded-payload", prog, eff, _Opc.PathCache(prog, eff))
    chk.floor("C03.decoded-payload", "payload reads in the string builders", _npc, 2)
    chk.exhaustive = True


_ELEM = {}


def _elem_size(ty):
    if ty in _ELEM:
        return _ELEM[ty]
    if ty and ty.endswith("*"):
        return 8
    return None


def _canon_slot(t):
    """(handle getter, byte offset of the slot inside the table)"""
    if t[0] == "ld":
        b, o = t[1], t[2]
        if isinstance(b, tuple) and b[0] == "idx":
            inner = b[1]
            idx = b[3][-1] if b[3] else None
            h = inner[1] if inner[0] == "call" else "ld"
            esz = _elem_size(b[2])
            return (h, esz * idx[1] + o) if idx and idx[0] == "c" and esz else (h, "?")
        if isinstance(b, tuple) and b[0] == "call":
            return (b[1], o)
        if isinstance(b, tuple) and b[0] == "p" and b[1][0] == "call":
            return (b[1][1], b[2] + o)
    return ("?", repr(t)[:60])


def _expected_slots(name, spec, pa, n):
    h = spec["handle"]
    if name == "cbor_serialize_map":
        if n % 2:
            return None
        out = []
        for i in range(n // 2):
            out += [(h, 16 * i), (h, 16 * i + 8)]   # struct cbor_pair: key at +0, value at +8
        return out
    return [(h, 8 * i) for i in range(n)]
