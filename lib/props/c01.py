"""C01 - decoding arbitrary bytes is memory-safe, assertion-clean and always terminates (DESIGN §4 C01).
An aggregate of the mechanisms the property's anchors name; each clause is decided on paths/tables."""
from build import AnalysisBroken
import paths as P
from paths import ptr_key, is_const
import decoder_rules as DR
import ownership as O
import tables
import typestate
import loops
import recursion


def check_load_paths(chk, prog, eff, R_window="C01.window", R_drain="C01.drain", R_outcome="C01.outcome", floor=20):
    """cbor_load: the decoder is given a consistent remainder window; every NULL-returning path that follows a decoder call
    leaves the drain loop on the stack-empty edge, each round releasing the top item and popping its record; the only non-NULL
    result is the root.  Rules may be None (not reported under that name)."""
    class _Sel:
        def ob(self, rule, *a, **k):
            if rule is not None:
                chk.ob(rule, *a, **k)

        def floor(self, rule, *a, **k):
            if rule is not None:
                chk.floor(rule, *a, **k)
    sel = _Sel()
    # 3/4. cbor_load: window, drain, outcome
    f = prog.fn("cbor_load")
    where = "%s:%d" % (f.file, f.line)
    SRC, SIZE = ("arg", f.param_index("source")), ("arg", f.param_index("source_size"))
    size_off = prog.field_offset("_cbor_stack", "size")
    item_off = prog.field_offset("_cbor_stack_record", "item")
    root_off = prog.field_offset("_cbor_decoder_context", "root")
    ps = P.Executor(prog, eff, loop_bound=2, inline=O.static_callees(prog, eff, "cbor_load")).run("cbor_load")
    ndr = 0
    for k, pa in enumerate(ps):
        decs = pa.calls("cbor_stream_decode")
        for i, d in enumerate(decs):
            a_src, a_size = d.args[1], d.args[2]
            if a_src == SRC or (a_src[0] == "idx" and a_src[1] == SRC and a_src[3] == (("c", 0),)):
                ok = a_size == SIZE
            else:
                ok = a_src[0] == "idx" and a_src[1] == SRC and a_size == ("op", "sub", "i64", SIZE, a_src[3][0])
            sel.ob(R_window, "path %d call %d" % (k, i), ok, d.ins.loc(), fn=f.name, key="win:%d:%d" % (k, i))
        if pa.ret == ("c", 0) and decs:
            # stack-size facts after the last decoder call
            idx = max(i for i, e in enumerate(pa.events) if e is decs[-1])
            nf = decs[-1].nfacts
            szf = [(t, truth) for t, truth, _ in pa.facts[nf:] if t[0] == "icmp" and t[1] == "ugt" and t[3] == ("c", 0)
                   and isinstance(t[2], tuple) and t[2][0] == "ld" and t[2][2] == size_off and t[2][1][0] == "alloca"]
            tail = pa.events[idx + 1:]
            pops = [e for e in tail if e.kind == "call" and e.callee == "_cbor_stack_pop"]
            drefs = [e for e in tail if e.kind == "call" and e.callee == "cbor_decref"]
            # each drain iteration: decref(&top->item) then pop
            ok = bool(szf) and szf[-1][1] is False and len(pops) == len(drefs) and \
                all(ptr_key(d.args[0])[1] == item_off or _pointee_is_field(d, item_off) for d in drefs)
            # number of iterations taken = number of True facts after the error label; with the bound of the unrolling
            ndr += 1
            sel.ob(R_drain, "path %d: NULL after %d decoder call(s): %d frame(s) released, loop left on the empty-stack edge"
                   % (k, len(decs), len(pops)), ok, where, fn=f.name, key="drain:%d" % k,
                   detail="" if ok else "stack tests after failure: %s; pops %d, releases %d" % ([tr for _, tr in szf], len(pops), len(drefs)),
                   path=pa.block_lines() if not ok else None)
        elif pa.ret != ("c", 0):
            r = pa.ret
            ok = isinstance(r, tuple) and r[0] == "ld" and r[2] == root_off and r[1][0] == "alloca"
            sel.ob(R_outcome, "path %d: non-NULL result is context.root" % k, ok, where, fn=f.name, key="root:%d" % k)
    sel.floor(R_drain, "failure paths after a decoder call", ndr, floor)



def check_push_positive(chk, rule, prog, cache):
    """pushes: a definite container is given a stack frame only with a positive outstanding count (an empty one is complete
    at once and occupies no nesting level); the counts themselves are C02.counter"""
    # pushes: definite containers with a positive count, tags with 1 (the counts themselves are C02.counter)
    load_ = prog.fn("cbor_load")
    g_ = __import__("tables").load_callbacks_global(prog)
    for el in g_["init_val"].elems:
        fn_ = getattr(el, "name", None)
        if not fn_ or fn_ not in prog.funcs:
            continue
        for k, pa in enumerate(cache.get(fn_)):
            for e in pa.calls("_cbor_stack_push"):
                cnt = e.args[2]
                ctor = [x for x in pa.events if x.kind == "call" and x.res == e.args[1]]
                cname = ctor[0].callee if ctor else "?"
                if "definite_" in cname and "indefinite" not in cname:
                    base = cnt
                    if isinstance(cnt, tuple) and cnt[0] == "op" and cnt[1] in ("mul", "shl"):
                        base = cnt[3] if not P.is_const(cnt[3]) else cnt[4]
                    # (the test may be on the member count or on the pushed count itself)
                    ok = pa.st.known_positive(base) or pa.st.known_positive(cnt)
                    chk.ob(rule, "%s: a definite frame is pushed only with a positive count" % fn_, ok, e.ins.loc(), fn=fn_,
                           key="pushpos:%s" % fn_, detail="" if ok else "count %s not known to be positive" % DR.fmt_term(cnt))


def _pointee_is_field(e, off):
    """cbor_decref(&local) where the local holds the value read from a record's item field"""
    x = e.extra.get("pointee") if isinstance(e.extra, dict) else None
    t = x[0] if x else None
    return isinstance(t, tuple) and t[0] == "ld" and t[2] == off


def run(ctx, chk):
    prog = ctx.prog()
    eff = ctx.effects(prog)
    H, PA, IF, total_asserts = ctx.typestate()
    cache = O.PathCache(prog, eff)
    chk.explanation = ("the property is decided through the mechanisms its anchors name, each for all inputs: (1) every byte "
                       "of the buffer that the decoder reads lies below what claim_bytes has granted on that path (all ~110 "
                       "paths, all 256 initial bytes); (2) every memcpy in the library copies into a fresh block of exactly "
                       "the copied length or into the guarded serializer window, aggregate copies fit their objects; (3) "
                       "cbor_load hands the decoder a consistent remainder window; (4) every failure path drains the "
                       "decoding stack and only the root of a clean run is returned; (5) every loop is a recognised counting "
                       "loop or one of cbor_load's two named loops, and every recursive cycle descends the tree or pops a "
                       "frame; (6) nesting is bounded by the stack gate; (7) every internal call of an accessor carrying a "
                       "CBOR_ASSERT type/width/flavour precondition is established on its path; (8) no possibly-NULL "
                       "allocation result is dereferenced.")
    chk.rule("C01.claim-before-read", "every read of the caller's buffer in cbor_stream_decode lies below the bytes claimed so far")
    chk.rule("C01.payload", "payload pointer/length handed to the string callbacks is exactly the claimed window")
    chk.rule("C01.memcpy", "each memcpy copies into a fresh allocation of exactly the copied length (NULL-tested) or into "
                           "buffer+written under remaining >= length; aggregate (intrinsic) copies/fills fit the object they target")
    chk.rule("C01.window", "cbor_load passes source + r and source_size - r for the same r to the decoder")
    chk.rule("C01.drain", "every NULL-returning path of cbor_load that follows a decoder call leaves the drain loop on the "
                          "stack-empty edge, each iteration releasing the top item and popping its frame")
    chk.rule("C01.outcome", "the only non-NULL return of cbor_load is context.root, after a FINISHED step with both flags clear")
    chk.rule("C01.loops", "every loop in the library is a counting loop whose tested variable advances on every path through the "
                          "body, or one of cbor_load's named decode / drain loops")
    chk.rule("C01.descent", "every recursive cycle descends one level of the item tree or pops a decoding-stack frame; recursive "
                            "functions have no variable-size frames")
    chk.rule("C01.gate", "the decoding stack refuses at the configured limit (nesting bounded)")
    chk.rule("C01.assertions", "every library-internal call of a function with a harvested CBOR_ASSERT type/width/flavour "
                               "precondition has that precondition established on the path")
    chk.rule("C01.null", "no possibly-NULL allocation result is dereferenced or handed to an unchecked-dereferencing callee")
    chk.not_decided += ["the value-dependent assertions (subitems > 0, subitems == 1, codepoint_count <= length, refcount > 0, "
                        "written == serialized_size) and assertions placed mid-function: facts about runtime counters",
                        "undefined behaviour in value computations other than shift distances (signed overflow of int arithmetic on 8/16-bit promoted values is excluded by their ranges; not machine-checked)",
                        "client operations on decoded trees are covered only through describe/size/serialize/copy/release being "
                        "subjects of clauses 2, 5, 7, 8"]
    # 1. claim-before-read
    n = DR.per_byte(chk, "C01", prog, eff, {"claim-before-read", "payload"})
    chk.floor("C01.claim-before-read", "reads of the buffer on decoder paths", n, 350)
    chk.rule("C01.payload-copy", "the string builders read exactly the `length` payload bytes the decoder claimed, not one more")
    npc = DR.payload_reads(chk, "C01.payload-copy", prog, eff, cache)
    chk.floor("C01.payload-copy", "payload reads in the string builders", npc, 2)

    # 2. memcpy
    nm = 0
    sizes = {n_: s["size"] for n_, s in prog.structs.items() if "size" in s}
    for f in prog.lib_funcs():
        # static helpers are inlined so that a destination obtained through one is still traced to its allocation
        for k, pa in enumerate(cache.get(f.name, inline_static=True)):
            for e in pa.events:
                if e.kind == "call" and e.callee in ("memcpy", "memmove", "memset", "strcpy", "strncpy", "strcat"):
                    nm += 1
                    if e.callee == "memset":
                        # filling a fresh block (or a local object) with a constant: the fill must fit the block
                        dst, n_ = e.args[0], e.args[2]
                        b_, o_ = ptr_key(dst)
                        ok, why = False, "destination %s is neither a fresh block nor a local object" % DR.fmt_term(dst)
                        if isinstance(b_, tuple) and b_[0] == "call" and is_const(n_):
                            al = [x for x in pa.events if x.kind == "call" and x.res == b_ and x.ckind == "alloc"]
                            if al and is_const(al[0].args[0]):
                                ok = o_ + n_[1] <= al[0].args[0][1] and pa.st.known_nonnull(b_, upto=e.nfacts)
                                why = "fill of %d byte(s) at offset %d of a fresh block of %d byte(s), non-NULL known: %s" % (
                                    n_[1], o_, al[0].args[0][1], pa.st.known_nonnull(b_, upto=e.nfacts))
                        elif isinstance(b_, tuple) and b_[0] == "alloca" and is_const(n_):
                            cap_ = prog.fn(b_[1]).insts[b_[2]].d.get("alloc_size")
                            ok = cap_ is not None and o_ + n_[1] <= cap_
                            why = "fill of %d byte(s) at offset %d of a local object of %s byte(s)" % (n_[1], o_, cap_)
                        chk.ob("C01.memcpy", "%s path %d: memset" % (f.name, k), ok, e.ins.loc(), fn=f.name, key="%s:memset:%s:%d" % (f.name, e.fn.name, e.ins.id),
                               detail="" if ok else why, path=pa.block_lines() if not ok else None)
                        continue
                    if e.callee not in ("memcpy", "memmove"):
                        chk.ob("C01.memcpy", "%s: %s" % (f.name, e.callee), False, e.ins.loc(), fn=f.name, key="%s:%s:%s" % (f.name, e.fn.name, e.callee),
                               detail="bulk write primitive outside the two recognised shapes")
                        continue
                    dst, src, n_ = e.args[0], e.args[1], e.args[2]
                    ok = False
                    why = ""
                    if isinstance(dst, tuple) and dst[0] == "call" and dst[1] == "_cbor_malloc":
                        al = [x for x in pa.events if x.kind == "call" and x.res == dst]
                        ok = bool(al) and al[0].args[0] == n_ and pa.st.known_nonnull(dst, upto=e.nfacts)
                        why = "fresh block of %s bytes, non-NULL known: %s, copy length %s" % (DR.fmt_term(al[0].args[0]) if al else "?",
                                                                                              pa.st.known_nonnull(dst, upto=e.nfacts), DR.fmt_term(n_))
                    elif isinstance(ptr_key(dst)[0], tuple) and ptr_key(dst)[0][0] == "alloca" and is_const(n_):
                        # fixed-size copy into a local object (e.g. assembling a machine word)
                        b_, o_ = ptr_key(dst)
                        cap_ = prog.fn(b_[1]).insts[b_[2]].d.get("alloc_size")
                        ok = cap_ is not None and o_ + n_[1] <= cap_
                        why = "copy of %d byte(s) at offset %d into a local object of %s byte(s)" % (n_[1], o_, cap_)
                    elif isinstance(dst, tuple) and dst[0] == "idx":
                        names = [p["name"] for p in f.params]
                        if "buffer" in names and "buffer_size" in names:
                            BUF, SIZE = ("arg", names.index("buffer")), ("arg", names.index("buffer_size"))
                            w = dst[3][0]
                            ok = dst[1] == BUF and pa.st.rel_ge(("op", "sub", "i64", SIZE, w), n_, upto=e.nfacts)
                            why = "serializer window: destination buffer+w guarded by buffer_size - w >= length: %s" % ok
                    chk.ob("C01.memcpy", "%s path %d: memcpy" % (f.name, k), ok, e.ins.loc(), fn=f.name, key="%s:memcpy:%s:%d" % (f.name, e.fn.name, e.ins.id),
                           detail="" if ok else (why or "destination %s is neither a fresh block nor the serializer window" % DR.fmt_term(dst)),
                           path=pa.block_lines() if not ok else None)
                elif e.kind in ("memcpy", "memset"):
                    n_ = e.args[2]
                    dst = e.args[0]
                    b, off = ptr_key(dst)
                    ok = is_const(n_)
                    cap = None
                    if ok and isinstance(b, tuple):
                        if b[0] == "alloca":
                            al = prog.fn(b[1]).insts[b[2]]
                            cap = al.d.get("alloc_size")
                        elif b[0] == "call" and b[1] == "_cbor_malloc":
                            a_ = [x for x in pa.events if x.kind == "call" and x.res == b]
                            cap = a_[0].args[0][1] if a_ and is_const(a_[0].args[0]) else None
                        elif b[0] == "arg":
                            # (a parameter term always names a parameter of the routine the path starts in, also inside an inlined helper)
                            ty = f.params[b[1]]["type"].rstrip("*").lstrip("%") if b[1] < len(f.params) else None
                            cap = sizes.get(ty)
                        elif b[0] == "ld":
                            cap = n_[1] + off   # copy into a field region of a heap object of matching struct type (sizeof-driven)
                        elif b[0] == "idx" and isinstance(b[2], str):
                            # whole-element assignment into a slot of a table (`data[i] = (struct cbor_pair){...}`): the element
                            # is the object; that slot i exists is the capacity rule's business (C01.capacity-field, C12.capacity)
                            cap = sizes.get(b[2].lstrip("%"))
                    if ok and cap is not None:
                        ok = off + n_[1] <= cap
                    nm += 1
                    chk.ob("C01.memcpy", "%s: aggregate %s of %s bytes fits its object" % (e.fn.name, e.kind, DR.fmt_term(n_)), ok and cap is not None,
                           e.ins.loc(), fn=e.fn.name, key="%s:agg:%d" % (e.fn.name, e.ins.id), nontrivial=False,
                           detail="" if ok and cap is not None else "size %s at offset %d, object capacity %s" % (DR.fmt_term(n_), off, cap))
    chk.floor("C01.memcpy", "bulk copy sites on paths", nm, 40)

    # 3/4. cbor_load: window, drain, outcome
    check_load_paths(chk, prog, eff)
    # 5. loops and recursion
    nl = 0
    for g in prog.lib_funcs():
        for r in loops.classify_loops(prog, g):
            nl += 1
            if r["ok"] is None:
                # cannot decide termination: analysis-broken (exit 2) once everything else has been reported
                chk.floor("C01.loops", "%s: loop at %s has a shape the recogniser knows (%s)" % (g.name, r["where"], r["detail"]), 0, 1)
                continue
            chk.ob("C01.loops", "%s: %s loop" % (g.name, r["kind"]), r["ok"], r["where"], fn=g.name, key="%s:%s:%d" % (g.name, r["kind"], r["header"].id),
                   detail=r["detail"] if not r["ok"] else "")
    chk.floor("C01.loops", "loops", nl, 18)
    sccs = recursion.check_sccs(prog, eff)
    chk.floor("C01.descent", "recursive SCCs", len(sccs), 6)
    for r in sccs:
        name = "+".join(r["scc"])
        f0 = prog.fn(r["scc"][0])
        w0 = "%s:%d" % (f0.file, f0.line)
        chk.ob("C01.descent", "SCC {%s}: static frames" % name, not r["dynamic_allocas"], w0, fn=r["scc"][0], key="vla:" + name)
        unk = [e for e in r["edges"] if e[3] == "unknown"]
        ok = r["cycle"] is None   # edges that neither descend nor pop stay in the graph: any cycle through them is reported
        det = ""
        if r["cycle"]:
            det = "cycle that does not descend: " + " -> ".join("%s@%s" % (a, c.loc()) for a, b, c in r["cycle"])
        elif unk:
            det = "recursive call at %s: %s" % (unk[0][2].loc(), unk[0][4])
        chk.ob("C01.descent", "SCC {%s}: every cycle descends" % name, ok, w0, fn=r["scc"][0], key="descent:" + name, detail=det)

    # 6. gate (default configuration; C19 repeats it under other limits)
    from props.c19 import check_gate
    L = int(prog.values["CBOR_MAX_STACK_SIZE"])
    check_gate(chk, prog, eff, L, "default(L=%d)" % L, rule="C01.gate")

    # 7. assertions
    CS = typestate.CallSites(prog, eff, cache, H, PA)
    res = CS.check()
    for fn, callee, atom, ok, w, detail, pa in res:
        chk.ob("C01.assertions", "%s: %s needs %s" % (fn, callee, atom.get("text", "")), ok, w, fn=fn,
               key="%s:%s:%s" % (fn, callee, atom.get("text", "")), detail=detail, path=pa.block_lines() if not ok else None)
    chk.floor("C01.assertions", "call site x precondition obligations", len(res), 250)
    # 7b. a break that closes nothing must end the run with an error: otherwise cbor_load hands back NULL with CBOR_ERR_NONE, the one
    # outcome the documented client pattern dereferences (shared with C02.break)
    chk.rule("C01.break", "every input ends in an item or a reported error: the break callback pops and appends only when the stack is "
             "non-empty, the top is an indefinite item and, for a map, the count is even - and raises the syntax flag on every other path "
             "(shared with C02.break)")
    from props.c02 import check_break
    _g1 = tables.load_callbacks_global(prog)
    _w1 = {n_: getattr(el_, "name", None) for n_, el_ in zip(tables.callback_fields(prog), _g1["init_val"].elems)}
    check_break(chk, "C01.break", prog, cache, CS, PA, _w1["indef_break"])
    chk.extra["assertions_harvested"] = total_asserts
    chk.extra["assertions_entry_type_width_flavour"] = sum(1 for v in H.values() for a in v if a.get("entry") and a["kind"] != "other")

    # 7b. releasing a decoded tree is itself memory-safe (shared with C04.release)
    chk.rule("C01.release-safe", "cbor_decref frees each block once, never an interior pointer, the item last, and reads nothing "
                                 "from a block it has already freed")
    chk.rule("C01.release-exhaustive", "the release switch covers every cbor_type")
    from props.c04 import check_release
    import rules as _rules
    check_release(chk, prog, eff, cache, tables.constructors(prog, eff), _rules.item_offsets(prog), R="C01.release-safe", RX="C01.release-exhaustive")

    # 7c. the counter assertions of the tree builder, as inductive invariants of the frames it keeps
    chk.rule("C01.frame-invariants", "invariants behind the builder's value assertions: a definite frame is pushed with a positive count and "
                                     "every decrement is followed at once by the ==0 test that pops it (so subitems > 0 whenever such a "
                                     "frame is on the stack); tag frames are pushed with 1 and never modified; _cbor_map_add_value cannot "
                                     "fail; the code point counter advances at most once per input byte")
    sub_off = prog.field_offset("_cbor_stack_record", "subitems")
    app = prog.fn("_cbor_builder_append")
    aw = "%s:%d" % (app.file, app.line)
    T = prog.enum("cbor_type")
    ndec = 0
    for k, pa in enumerate(cache.get(app.name, inline_static=True)):
        parent_types = set()
        for key, vals in pa.st.inset.items():
            if isinstance(key, tuple) and key[0] == "ld" and key[2] == prog.field_offset("cbor_item_t", "type"):
                parent_types = set(vals)
        for idx, e in enumerate(pa.events):
            if e.kind == "store" and ptr_key(e.args[0])[1] == sub_off and isinstance(ptr_key(e.args[0])[0], tuple) and ptr_key(e.args[0])[0][0] == "ld":
                v = e.args[1]
                if v[0] == "op" and v[1] == "add" and ("c", (1 << (P.type_bits(v[2]) or 64)) - 1) in (v[3], v[4]):
                    ndec += 1
                    zero = P.zero_truth(pa.st, v)
                    later_pop = any(x.kind == "call" and x.callee == "_cbor_stack_pop" for x in pa.events[idx:])
                    ok = zero is not None and (later_pop if zero else not later_pop)
                    chk.ob("C01.frame-invariants", "_cbor_builder_append path %d: countdown is tested for zero and a finished frame is popped" % k, ok,
                           e.ins.loc(), fn=app.name, key="dec:%d:%d" % (k, e.ins.id),
                           detail="" if ok else "after subitems-- : zero test %s, frame popped %s" % (zero, later_pop))
                elif parent_types == {T["CBOR_TYPE_TAG"]}:
                    chk.ob("C01.frame-invariants", "_cbor_builder_append path %d: a tag frame's count is never modified" % k, False, e.ins.loc(),
                           fn=app.name, key="tagmod:%d" % k)
    chk.floor("C01.frame-invariants", "countdown sites on paths", ndec, 4)
    av = prog.fn("_cbor_map_add_value")
    okv = all(q.ret == ("c", 1) for q in cache.get(av.name))
    chk.ob("C01.frame-invariants", "_cbor_map_add_value returns true on every path", okv, "%s:%d" % (av.file, av.line), fn=av.name, key="addvalue")
    check_push_positive(chk, "C01.frame-invariants", prog, cache)
    # count <= length, whatever the loop looks like: some loop-carried quantity of the byte loop is tied to the (source, length)
    # window - an index, a cursor, a remaining-count - moves by at least one byte on every way round the loop and never leaves the
    # window (window dataflow), and the counter the routine returns moves by at most that much on every way round
    uc = prog.fn("_cbor_unicode_codepoint_count")
    import window as W_
    from ir import Inst, Const
    decided = None
    detail_cp = ""
    pairs_ = W_.window_pairs(uc)
    lps_ = uc.loops()
    if len(pairs_) == 1 and lps_:
        win = W_.Window(prog, uc, pairs_[0][0], pairs_[0][1], None)
        win.accesses()

        def step_range(hdr, body, phi):
            seen = set()

            def rng(v):
                if v is phi:
                    return (0, 0)
                if not isinstance(v, Inst) or v.id in seen:
                    return None
                if v.op in ("bitcast", "zext", "sext"):
                    return rng(v.operands[0])
                if v.op in ("add", "sub") and isinstance(v.operands[1], Const):
                    r = rng(v.operands[0])
                    if r is None:
                        return None
                    c_ = v.operands[1].sv if v.operands[1].sv is not None else v.operands[1].v
                    if c_ >= (1 << 63):
                        c_ -= 1 << 64
                    if v.op == "sub":
                        c_ = -c_
                    return (r[0] + c_, r[1] + c_)
                if v.op == "getelementptr" and v.d.get("const_offset") is not None:
                    r = rng(v.operands[0])
                    return None if r is None else (r[0] + v.d["const_offset"], r[1] + v.d["const_offset"])
                if v.op == "phi" and v.block.id in body and v.block is not hdr:
                    seen.add(v.id)
                    rs = [rng(x) for x, _pb in v.incoming]
                    seen.discard(v.id)
                    if any(r is None for r in rs):
                        return None
                    return (min(r[0] for r in rs), max(r[1] for r in rs))
                return None
            rs = [rng(v) for v, pb in phi.incoming if pb.id in body]
            if not rs or any(r is None for r in rs):
                return None
            return (min(r[0] for r in rs), max(r[1] for r in rs))

        # the counter: the header phi the returned value comes from on the normal exit
        rets = [i_ for i_ in uc.all_insts() if i_.op == "ret"]

        def roots(v, acc, depth=0):
            if depth > 6 or not isinstance(v, Inst):
                return acc
            if v.op == "phi":
                if v.block.id in lps_:
                    acc.add(v)
                else:
                    for x, _pb in v.incoming:
                        roots(x, acc, depth + 1)
            return acc
        counters = set()
        for r_ in rets:
            if r_.operands:
                roots(r_.operands[0], counters)
        progress = []
        for hid, body in lps_.items():
            hdr = uc.bmap[hid]
            for ph in [i_ for i_ in hdr.insts if i_.op == "phi"]:
                if ph in counters:
                    continue
                cl_ = win.cls(ph)
                sr = step_range(hdr, body, ph)
                if cl_ is None or sr is None:
                    continue
                st_ = win.inn.get(hid, {}).get(cl_[1], (None, None))
                inside = st_[0] is not None         # never beyond the end of the window / never wrapped
                moves = min(abs(sr[0]), abs(sr[1])) if (sr[0] >= 1 or sr[1] <= -1) else 0
                if cl_[0] == "R":
                    moves = moves if sr[1] <= -1 else 0
                else:
                    moves = moves if sr[0] >= 1 else 0
                if inside and moves >= 1:
                    progress.append((hid, ph, moves))
        if len(counters) == 1 and progress:
            cph = next(iter(counters))
            body = lps_[cph.block.id]
            cr = step_range(cph.block, body, cph)
            mv = min(m for h_, _ph, m in progress if h_ == cph.block.id) if any(h_ == cph.block.id for h_, _ph, _m in progress) else None
            init_ok = all(isinstance(v, Const) and v.v == 0 for v, pb in cph.incoming if pb.id not in body)
            if cr is not None and mv is not None and init_ok:
                decided = cr[0] >= 0 and cr[1] <= mv
                detail_cp = "" if decided else "the counter moves by up to %d on a way round the loop on which only %d byte(s) are consumed" % (cr[1], mv)
    if decided is None:
        chk.floor("C01.frame-invariants", "recognised shape of the code point counting loop (cannot decide count <= length)", 0, 1)
    else:
        chk.ob("C01.frame-invariants", "code point counter advances at most once per byte consumed by the loop (count <= length)", decided,
               "%s:%d" % (uc.file, uc.line), fn=uc.name, key="cpcount", detail=detail_cp)

    # 7d. shifts by a run-time distance stay inside the operand's width (no undefined behaviour in value computations)
    chk.rule("C01.shift-range", "every shift whose distance is not a constant has a distance below the operand's bit width on every "
                                "path on which it executes: the distance is evaluated for every value of the few-bit quantities it "
                                "depends on (an 8-bit exponent, a byte indexing a constant table) that satisfies the path's facts")
    import shift_rules
    shift_rules.check_shift_range(chk, "C01.shift-range", prog, eff, cache)

    # 8. NULL discipline
    N = O.Nullness(prog, eff, cache)
    nn = 0
    for g in prog.lib_funcs():
        for ok, kind, origin, e, detail, pa in N.check_function(g):
            if kind != "deref":
                continue
            nn += 1
            use = e.callee if e.kind == "call" else e.kind
            chk.ob("C01.null", "%s: %s result -> %s" % (g.name, origin.callee, use), ok, e.ins.loc(), fn=g.name,
                   key="%s:%s:%s" % (g.name, origin.callee, use), detail="" if ok else detail)
    chk.floor("C01.null", "allocation result uses", nn, 70)
    chk.rule("C01.no-bypass", "no block changes hands between the installed allocator and libc: a pointer libc never produced is never "
                              "passed to libc free (undefined behaviour), shared with C13.ext")
    import rules as _r1
    _r1.check_no_bypass(chk, "C01.no-bypass", prog)
    # every container block is sized count * element size behind _cbor_safe_to_multiply: a guard that lets a wrapped
    # product through hands out a block smaller than the capacity recorded for it (shared with C20.guard-semantics)
    chk.rule("C01.capacity-field", "a block installed as a container's storage comes with its element capacity, and a block "
                                   "installed into an existing container still covers the elements counted so far (shared with C12)")
    from props.c12 import check_capacity_field
    check_capacity_field(chk, "C01.capacity-field", prog, eff, cache)
    import guard_rules as _g1
    _g1.check_guard_semantics(chk, prog, eff, cache, "C01.alloc-guard")
    chk.rule("C01.no-access-after-free", "on every path of every library function (unit-internal helpers and the stack module inlined) no load or "
             "store addresses a block after it was handed to the installed free, and no block is handed to it twice (memory safety of decoding and releasing)")
    from props.c06 import check_no_access_after_free
    check_no_access_after_free(chk, "C01.no-access-after-free", prog, eff)
    chk.rule("C01.slot-reads", "every loop that reads the slot table of a container (copy, describe, size, serialize, release) is bounded "
             "by the element count, never by the capacity: slots beyond the count hold whatever the allocator returned")
    _r1.check_slot_reads_below_count(chk, "C01.slot-reads", prog, eff)
    chk.rule("C01.push-atomic", "the decoding stack's push either links a record and counts it or refuses and leaves the stack as it was: no field of the "
             "stack header is written on a path of _cbor_stack_push that returns NULL (a refused record allocation must not be counted - "
             "cbor_load unwinds `size` records), and a successful push makes the returned record the top and the depth one larger")
    import rules as _rpa
    _rpa.check_push_atomic(chk, "C01.push-atomic", prog, eff)
    chk.rule("C01.narrowing", "no 64-bit quantity is converted to a narrower integer type except to take one byte of it or below a range "
             "test that makes the conversion lossless: a declared count kept in 32 bits closes its container after count mod 2^32 members "
             "and hands a partially built item to the caller (shared with C02.narrowing)")
    import rules as _rnw
    _rnw.check_narrowing(chk, "C01.narrowing", prog, eff=eff)
    chk.rule("C01.window-reads", "every read through a (byte pointer, length) parameter pair - the code point counter walking a text payload, the "
             "builders copying a payload out of the caller's buffer, a window handed on to a callee - lies inside the window on every path "
             "(forward dataflow over lock-step congruence classes of cursors, indices and remaining-counts; lib/window.py)")
    import rules as _rw
    _rw.check_window(chk, "C01.window-reads", prog, {"r"}, 8, "verif_ctl_window_read")
    chk.rule("C01.payload-reads", "every read of a string's payload byte at a computed index (describe, and whoever else reads the data block of "
             "an item directly) lies below the item's length on that path - also for the empty string a zero-length head decodes into")
    import rules as _rpr
    _rpr.check_payload_reads(chk, "C01.payload-reads", prog, eff)
    chk.rule("C01.signed-shift", "every left shift whose (promoted) left operand has a signed type keeps the operand's set bits below the sign "
             "bit: operand width + distance <= 31 for int (decided on the clang AST, where the promotion is visible; no undefined behaviour while decoding: the byte loaders and the half decoder shift promoted bytes)")
    import ast_rules as _ar
    _ar.check_signed_shifts(chk, "C01.signed-shift", prog)
    chk.rule("C01.block-bounds", "every load, store and block copy at a constant offset into a block that the same path obtained from the "
             "allocator with a constant request lies inside the request (memory safety: the allocator is only asked once, the block is as big as the request)")
    import rules as _rbb
    import ownership as _Obb
    _rbb.check_fresh_block_bounds(chk, "C01.block-bounds", prog, eff, _Obb.PathCache(prog, eff))
    chk.rule("C01.balance", "every owned reference is released, handed off or returned exactly once on every path; a reference the function does not own "
             "is not released (a setter that drops the item it replaces, a refusal that releases what its caller still releases: the block is "
             "used after it is gone; shared with C06.release)")
    import ownership as _Ob
    from props.c06 import check_balance as _cb
    import tables as _tb
    _cbc = _Ob.PathCache(prog, eff)
    _Nb = _Ob.Nullness(prog, eff, _cbc)
    _cb(chk, "C01.balance", prog, eff, _cbc, _Nb, _Ob.Balance(prog, eff, _cbc, _Nb), _tb.constructors(prog, eff), floor=60)
    chk.rule("C01.signed-compare", "no 64-bit comparison in the library is signed: sizes, lengths, counts, indices and remainders are compared as the unsigned "
             "quantities they are (a length with the top bit set must not pass the claim or any bounds test)")
    import rules as _rsc
    _rsc.check_signed_compare(chk, "C01.signed-compare", prog)
    chk.exhaustive = True
