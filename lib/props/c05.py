"""C05 - decode failures are reported definitively, with the right code and position (DESIGN §4 C05)."""
from build import AnalysisBroken
import paths as P
import tables
import decoder_rules as DR


import ownership as _Osd


def check_no_silent_drop(chk, rule, prog, eff):
    """every path through every builder callback wired in cbor_load (and _cbor_builder_append) ends in a hand-off of the
    item or raises an error flag: a decoded head never vanishes (else the enclosing container would take what FOLLOWS)"""
    f = prog.fn("cbor_load")
    cf_off = prog.field_offset("_cbor_decoder_context", "creation_failed")
    se_off = prog.field_offset("_cbor_decoder_context", "syntax_error")
    root_off = prog.field_offset("_cbor_decoder_context", "root")
    g = __import__("tables").load_callbacks_global(prog)
    if g is None:
        raise AnalysisBroken("cbor_load.callbacks not found")
    builders = sorted({el.name for el in g["init_val"].elems if hasattr(el, "name")})
    chk.floor(rule, "builder callbacks", len(builders), 24)
    nb = 0
    for bn in builders + ["_cbor_builder_append"]:
        bf = prog.fn(bn)
        bwhere = "%s:%d" % (bf.file, bf.line)
        for k, pa in enumerate(P.Executor(prog, eff, inline=_Osd.static_callees(prog, eff, bn)).run(bn)):
            cf = se = False
            handoff = []
            for e in pa.events:
                if e.kind == "store":
                    b_, off = P.ptr_key(e.args[0])
                    if e.extra == "i8" and e.args[1] == ("c", 1):
                        if off == cf_off:
                            cf = True
                        elif off == se_off:
                            se = True
                    if off == root_off and bn == "_cbor_builder_append" and e.args[1] == ("arg", 0):
                        handoff.append("root")
                    if e.extra == "i8" and off == cf_off and isinstance(e.args[1], tuple) and e.args[1][0] == "cast":
                        # ctx->creation_failed = !_cbor_map_add_value(..): value-dependent flag
                        handoff.append("flag-from-result")
                elif e.kind == "call" and e.ckind == "lib":
                    if e.callee == "_cbor_builder_append":
                        handoff.append("append")
                    elif e.callee == "_cbor_stack_push" and pa.st.known_nonnull(e.res):
                        handoff.append("push")
                    elif e.callee in ("cbor_bytestring_add_chunk", "cbor_string_add_chunk", "cbor_array_push", "_cbor_map_add_key",
                                      "_cbor_map_add_value", "cbor_tag_set_item"):
                        r = e.res
                        if e.callee == "cbor_tag_set_item" or pa.st.truth.get(r) is True or pa.st.truth.get(("cast", "trunc", "i1", r)) is True \
                                or _truthy(pa.st, r):
                            handoff.append(e.callee)
            ok = cf or se or bool(handoff)
            nb += 1
            chk.ob(rule, "%s path %d" % (bn, k), ok, bwhere, fn=bn, key="%s:%d" % (bn, k),
                   detail="" if ok else "the item is neither handed off nor is an error flag raised", path=pa.block_lines() if not ok else None)
    chk.floor(rule, "builder paths", nb, 50)
    return builders


def run(ctx, chk):
    prog = ctx.prog()
    eff = ctx.effects(prog)
    chk.explanation = ("path enumeration of cbor_load (decode loop unrolled 0/1 extra time) and of all builder callbacks: "
                       "must-define of every result field on every NULL-returning path, the status/flag -> error-code table "
                       "extracted from the path facts and compared with the property's table, position = bytes read, read "
                       "advanced only by FINISHED results, and 'no silent drop' in every builder path.")
    chk.rule("C05.fields", "on every path of cbor_load that returns NULL, error.code, error.position and read have each been written")
    chk.rule("C05.codes", "cause -> code: empty input NODATA; remainder exhausted with open stack NOTENOUGHDATA; decoder NEDATA "
                          "NOTENOUGHDATA; decoder ERROR MALFORMATED; creation_failed MEMERROR; syntax_error SYNTAXERROR")
    chk.rule("C05.status-exhaustive", "the switch on the decoder status has an arm for every enumerator of cbor_decoder_status")
    chk.rule("C05.position", "the position reported equals the value of read at the failure; read is modified only by adding "
                             "the read count of a FINISHED decoder result")
    chk.rule("C05.null-on-error", "every path that detects a failure returns NULL, and every non-NULL return is the root on a "
                                  "path where neither flag is raised and the last status was FINISHED")
    chk.rule("C05.no-silent-drop", "every path through every builder callback (and _cbor_builder_append) ends in a hand-off "
                                   "(append / successful push / successful add_chunk / root), or raises creation_failed, or "
                                   "raises syntax_error")
    chk.rule("C05.reserved", "reserved/unsupported initial bytes return ERROR having consumed nothing (T-dispatch)")
    chk.rule("C05.nedata", "a head or payload that does not fit the buffer is reported by the decoder as NEDATA (which cbor_load maps "
                           "to NOTENOUGHDATA) under the non-wrapping test 'needed > provided - claimed': necessary for 'a truncated "
                           "item is never given a hard error'")
    chk.rule("C05.nedata-wrap", "the pending-length arithmetic of the decoder cannot wrap")
    chk.rule("C05.action", "a supported head is never answered ERROR, whatever length it declares (a truncated item is NOTENOUGHDATA - MALFORMATED is "
             "for reserved and unsupported initial bytes), and a reserved one is never decoded (shared with C08.action)")
    chk.rule("C05.claim", "claims are head byte, argument bytes, payload")
    chk.rule("C05.nothing-left", "cbor_load, the builder callbacks and _cbor_builder_append release or hand off every reference and "
                                 "raw block they own on every path (shared with C04.client / C06.blocks)")
    chk.not_decided += ["'every proper prefix of an acceptable item gives NOTENOUGHDATA, never a hard error' quantifies over the accepted language",
                        "'nothing left allocated' is decided under C01 rule 4 / C04 / C06"]
    f = prog.fn("cbor_load")
    where = "%s:%d" % (f.file, f.line)
    src_i, size_i, res_i = f.param_index("source"), f.param_index("source_size"), f.param_index("result")
    RES, SIZE = ("arg", res_i), ("arg", size_i)
    err_off = prog.field_offset("cbor_load_result", "error")
    read_off = prog.field_offset("cbor_load_result", "read")
    pos_off = err_off + prog.field_offset("cbor_error", "position")
    code_off = err_off + prog.field_offset("cbor_error", "code")
    cf_off = prog.field_offset("_cbor_decoder_context", "creation_failed")
    se_off = prog.field_offset("_cbor_decoder_context", "syntax_error")
    root_off = prog.field_offset("_cbor_decoder_context", "root")
    st_status = prog.field_offset("cbor_decoder_result", "status")
    st_read = prog.field_offset("cbor_decoder_result", "read")
    EC = prog.enum("cbor_error_code")
    DS = prog.enum("cbor_decoder_status")
    ECn = {v: k for k, v in EC.items()}
    want = {"empty": EC["CBOR_ERR_NODATA"], "exhausted": EC["CBOR_ERR_NOTENOUGHDATA"], "nedata": EC["CBOR_ERR_NOTENOUGHDATA"],
            "error": EC["CBOR_ERR_MALFORMATED"], "creation_failed": EC["CBOR_ERR_MEMERROR"], "syntax_error": EC["CBOR_ERR_SYNTAXERROR"]}

    import ownership as _O5
    ps = P.Executor(prog, eff, arith_events=True).run("cbor_load")
    chk.floor("C05.fields", "paths of cbor_load", len(ps), 20)
    statuses_seen = set()
    seen_causes = set()
    for k, pa in enumerate(ps):
        st = pa.st
        decodes = pa.calls("cbor_stream_decode")
        ctx_cell = decodes[0].args[4] if decodes else None
        dres_cells = set()
        for d in decodes:
            dres_cells.add(P.ptr_key(d.args[0])[0])
        # classify by facts, in order
        cause = None
        last_status = None
        excluded_status = set()
        flags = {}
        nonempty = infeasible = False
        for (t, truth, ins) in pa.facts:
            if t == ("icmp", "eq", SIZE, ("c", 0)) and truth:
                cause = "empty"
            elif t == ("icmp", "eq", SIZE, ("c", 0)):
                nonempty = True
            elif t[0] == "icmp" and len(t) == 4 and ((t[2] == SIZE and ((t[1] == "ugt" and not truth) or (t[1] == "ule" and truth))) or
                                                     (t[3] == SIZE and ((t[1] == "ult" and not truth) or (t[1] == "uge" and truth)))):
                # source_size <= read, however the comparison is spelled; against a read count that is still the constant 0
                # it says "the input is empty" (the two exits merged into one test)
                if ("c", 0) in (t[2], t[3]):
                    if nonempty:
                        infeasible = True      # the input was found non-empty earlier on this path
                    cause = "empty"
                else:
                    cause = "exhausted"
            elif t[0] in ("in", "notin") and t[1][0] == "ld" and t[1][2] == st_status:
                if t[0] == "in" and len(t[2]) == 1:
                    v = t[2][0]
                    last_status = v
                    if v == DS["CBOR_DECODER_NEDATA"]:
                        cause = "nedata"
                    elif v == DS["CBOR_DECODER_ERROR"]:
                        cause = "error"
                    else:
                        cause = None
                else:
                    last_status = "other"
                    cause = None
            elif t[0] == "icmp" and t[1] == "eq" and isinstance(t[2], tuple) and t[2][0] == "ld" and t[2][2] == st_status and P.is_const(t[3]) \
                    and isinstance(t[2][1], tuple) and t[2][1][0] == "alloca":
                v = t[3][1]
                if truth:
                    last_status = v
                    excluded_status = set()
                    cause = "nedata" if v == DS["CBOR_DECODER_NEDATA"] else ("error" if v == DS["CBOR_DECODER_ERROR"] else None)
                else:
                    excluded_status.add(v)
                    if excluded_status >= set(DS.values()):
                        last_status = "other"   # a value outside the enumeration: unreachable given C08.status
                        cause = None
            elif t[0] == "ld" and ctx_cell is not None and t[1] == ctx_cell:
                if t[2] == cf_off:
                    flags["cf"] = truth
                    if truth:
                        cause = "creation_failed"
                elif t[2] == se_off:
                    flags["se"] = truth
                    if truth:
                        cause = "syntax_error"
        if last_status not in (None, "other"):
            statuses_seen.add(last_status)
        if infeasible:
            continue
        if last_status == "other":
            continue  # status outside the enumeration: unreachable given C08.status; not an obligation
        # "nothing has been read yet" asked of a count that already includes what a decoder call consumed: that call finished an
        # item, so it consumed at least the initial byte (C08.read), and the sum cannot wrap (it stays within the buffer: C01.window)
        dr_read = prog.field_offset("cbor_decoder_result", "read")

        def _has_consumed(t, depth=0):
            if not isinstance(t, tuple) or depth > 6:
                return False
            if t[0] == "ld" and t[2] == dr_read and t[1] in dres_cells:
                return True
            return t[0] == "op" and t[1] == "add" and any(_has_consumed(x, depth + 1) for x in t[3:5])
        if any(t[0] == "icmp" and t[1] in ("eq", "ne") and t[3] == ("c", 0) and isinstance(t[2], tuple) and t[2][0] == "op" and
               _has_consumed(t[2]) and truth == (t[1] == "eq") for t, truth, _ in pa.facts):
            continue
        is_null = pa.ret == ("c", 0)
        if cause is not None:
            seen_causes.add(cause)
            chk.ob("C05.null-on-error", "path %d (%s) returns NULL" % (k, cause), is_null, where, fn=f.name, key="null:%s:%d" % (cause, k),
                   detail="" if is_null else "failure %s detected but %r is returned" % (cause, pa.ret), path=pa.block_lines() if not is_null else None)
        if is_null:
            for name, off in (("error.code", code_off), ("error.position", pos_off), ("read", read_off)):
                ok = st.is_defined(P.mkptr(RES, off))
                chk.ob("C05.fields", "path %d (%s): %s written" % (k, cause, name), ok, where, fn=f.name, key="field:%s:%s" % (cause, name),
                       detail="" if ok else "result->%s keeps the caller's bytes on this failure path" % name,
                       path=pa.block_lines() if not ok else None)
            if cause is None:
                chk.ob("C05.codes", "path %d: NULL without a recognised cause" % k, False, where, fn=f.name, key="cause:%d" % k,
                       path=pa.block_lines())
                continue
            code = st.load(P.mkptr(RES, code_off), "i32", None)
            ok = code == ("c", want[cause])
            chk.ob("C05.codes", "path %d: %s -> %s" % (k, cause, ECn[want[cause]]), ok, where, fn=f.name, key="code:%s" % cause,
                   detail="" if ok else "reports %s" % (ECn.get(code[1], code) if P.is_const(code) else code,))
            pos = st.load(P.mkptr(RES, pos_off), "i64", None)
            rd = st.load(P.mkptr(RES, read_off), "i64", None)
            ok = pos == rd
            chk.ob("C05.position", "path %d (%s): position = read" % (k, cause), ok, where, fn=f.name, key="pos:%s:%d" % (cause, k),
                   detail="" if ok else "position=%s read=%s" % (DR.fmt_term(pos), DR.fmt_term(rd)))
        else:
            ok = (pa.ret[0] == "ld" and ctx_cell is not None and pa.ret[1] == ctx_cell and pa.ret[2] == root_off
                  and flags.get("cf") is False and flags.get("se") is False and last_status == DS["CBOR_DECODER_FINISHED"])
            chk.ob("C05.null-on-error", "path %d: non-NULL return is context.root after a clean FINISHED step" % k, ok, where, fn=f.name,
                   key="root:%d" % k, detail="" if ok else "returns %r (flags %s, last status %s)" % (pa.ret, flags, last_status))
        # read bookkeeping: the running total only grows by FINISHED read counts (wherever it is kept)
        _valid, problems = DR.running_read(prog, pa, RES, read_off)
        bad = {id(e): txt for e, txt in problems}
        for e in pa.events:
            if (e.kind == "store" and P.ptr_key(e.args[0]) == (RES, read_off)) or \
                    (e.kind == "arith" and e.callee == "add" and any(isinstance(x, tuple) and x[0] == "ld" and x[2] == st_read and
                                                                     isinstance(x[1], tuple) and x[1][0] == "alloca" for x in e.args)):
                ok = id(e) not in bad
                chk.ob("C05.position", "path %d: read advanced by a FINISHED result only" % k, ok, e.ins.loc(), fn=f.name,
                       key="readadv:%d:%s:%d" % (k, e.kind, e.ins.line), detail="" if ok else bad[id(e)])
    missing = [k_ for k_, v_ in DS.items() if v_ not in statuses_seen]
    chk.ob("C05.status-exhaustive", "every enumerator of cbor_decoder_status is distinguished on some path of cbor_load", not missing, where,
           fn=f.name, detail="no path handles %s" % missing if missing else "")
    for c in want:
        if c == "exhausted":
            continue   # the explicit remainder test is optional: an empty remainder yields NEDATA from the decoder itself
        chk.ob("C05.codes", "cause '%s' has a path" % c, c in seen_causes, where, fn=f.name, key="has:" + c, nontrivial=False)

    # reserved bytes
    by_byte, pre, outs = tables.dispatch(prog, eff)
    nres = 0
    for b in range(256):
        if tables.ref_dispatch(b) == ("error",):
            nres += 1
            os_ = by_byte[b]
            ok = bool(os_) and all(o["status"] == ("c", DS["CBOR_DECODER_ERROR"]) and o["read"] == ("c", 0) and o["required"] == ("c", 0)
                                   and not o["callbacks"] for o in os_)
            chk.ob("C05.reserved", "byte 0x%02X" % b, ok, "src/cbor/streaming.c", fn="cbor_stream_decode", key="res:%02X" % b)
    chk.floor("C05.reserved", "reserved bytes", nres, 30)

    # builders: no silent drop
    builders = check_no_silent_drop(chk, "C05.no-silent-drop", prog, eff)
    # truncation is reported as NEDATA, without wrapping
    n_ = DR.per_byte(chk, "C05", prog, eff, {"nedata", "nedata-wrap", "claim", "action"}, by_byte=by_byte)
    chk.floor("C05.nedata", "per-byte truncation obligations", n_, 250)
    # nothing left allocated
    import ownership as O
    from props.c06 import check_balance, check_blocks
    cache_ = O.PathCache(prog, eff)
    N_ = O.Nullness(prog, eff, cache_)
    B_ = O.Balance(prog, eff, cache_, N_)
    subjects = builders + ["_cbor_builder_append", "cbor_load"]
    check_balance(chk, "C05.nothing-left", prog, eff, cache_, N_, B_, tables.constructors(prog, eff), fnames=subjects, floor=20)
    from props.c04 import check_covered
    chk.rule("C05.nothing-left-covered", "the references a partially built container holds are all within the range its release "
                                         "walks: a slot that receives a counted reference lies below the element count when the "
                                         "writing function returns (else a failed load leaks the pending element)")
    check_covered(chk, "C05.nothing-left-covered", prog, eff, cache_)
    chk.rule("C05.gate", "MEMERROR for nesting is given exactly at the head that would open level L+1: the stack refuses at size L and "
                         "nowhere below (shared with C19.gate)")
    chk.rule("C05.refusal-justified", "creation_failed (reported as MEMERROR) is raised only where a constructor, the stack push or an "
                                      "insertion failed (shared with C19)")
    chk.rule("C05.no-bypass", "nothing is released through libc behind the installed allocator's back (it would stay allocated from the "
                              "installed allocator's point of view)")
    from props.c19 import check_gate, check_refusal_justified
    L_ = int(prog.values["CBOR_MAX_STACK_SIZE"])
    check_gate(chk, prog, eff, L_, "default(L=%d)" % L_, rule="C05.gate")
    check_refusal_justified(chk, "C05.refusal-justified", prog, eff)
    import rules as _r5
    _r5.check_no_bypass(chk, "C05.no-bypass", prog)
    chk.rule("C05.blocks", "the failure arm of every constructor is clean: each raw block is attached / returned / handed over / freed "
                           "exactly once on every path and never read again after it was freed (shared with C06.blocks) - a refused "
                           "second allocation yields NULL and nothing else")
    from props.c06 import check_blocks
    check_blocks(chk, "C05.blocks", prog, cache_, floor=26)
    chk.rule("C05.record-items", "the item a decoding-stack record carries is released (cbor_decref) or handed on (stored into its parent / the "
             "context) on every path that unlinks the record: otherwise the partially built item and every block attached to it "
             "never reach the installed free (a failed load leaves nothing allocated)")
    from props.c06 import check_record_items
    check_record_items(chk, "C05.record-items", prog, eff)
    chk.rule("C05.insert-refusal", "the insertion routines the builder relies on refuse only when an allocation failed, an overflow guard answered "
             "false or a definite container is full - MEMERROR is never manufactured below the builder (shared with C12.refusal-justified)")
    from props.c12 import check_insert_refusal
    import ownership as _Oir
    check_insert_refusal(chk, "C05.insert-refusal", prog, eff, _Oir.PathCache(prog, eff))
    chk.rule("C05.no-access-after-free", "on every path of every library function (unit-internal helpers and the stack module inlined) no load or "
             "store addresses a block after it was handed to the installed free, and no block is handed to it twice (a failed load behaves the same under every conforming allocator)")
    from props.c06 import check_no_access_after_free
    check_no_access_after_free(chk, "C05.no-access-after-free", prog, eff)
    chk.rule("C05.capacity-field", "a declared count that cannot be stored is refused, not wrapped: the block installed as a container's "
             "storage is requested with exactly the element count recorded as its capacity, through the guarded multiply "
             "(shared with C12.capacity-field; `2 * n` slots of half the size wraps before the guard sees it)")
    from props.c12 import check_capacity_field
    check_capacity_field(chk, "C05.capacity-field", prog, eff, cache_)
    chk.rule("C05.break", "SYNTAXERROR is raised for every break that closes nothing: the break callback pops and appends only when "
             "the stack is non-empty, the top is an indefinite item and, for a map, the count is even; _cbor_is_indefinite is true "
             "exactly for indefinite strings / arrays / maps (shared with C02.break)")
    import typestate as _ts5
    from props.c02 import check_break
    _H5, _PA5, _IF5, _x5 = ctx.typestate()
    _g5 = __import__("tables").load_callbacks_global(prog)
    _w5 = {n_: getattr(el_, "name", None) for n_, el_ in zip(tables.callback_fields(prog), _g5["init_val"].elems)}
    check_break(chk, "C05.break", prog, cache_, _ts5.CallSites(prog, eff, cache_, _H5, _PA5), _PA5, _w5["indef_break"])
    chk.rule("C05.attach", "what the grammar forbids is refused where it is attached: every call the builders make to an operation with an asserted "
             "type / flavour precondition establishes it on the path, so a child that is not a definite chunk of the open string's kind "
             "(a nested indefinite string, for one) reaches the syntax-error arm instead of being added (shared with C02.attach)")
    from props.c02 import check_builder_preconditions
    check_builder_preconditions(chk, "C05.attach", _ts5.CallSites(prog, eff, cache_, _H5, _PA5), _w5)
    chk.rule("C05.drain", "every NULL-returning path of cbor_load that follows a decoder call leaves through the drain loop: each round releases "
             "the top item and pops its record, and the loop is left on the stack-empty edge - nothing the decoder built stays behind "
             "(a failed load leaves nothing allocated; shared with C01.drain)")
    from props.c01 import check_load_paths
    check_load_paths(chk, prog, eff, R_window=None, R_drain="C05.drain", R_outcome=None)
    chk.rule("C05.push-atomic", "the decoding stack's push either links a record and counts it or refuses and leaves the stack as it was: no field of the "
             "stack header is written on a path of _cbor_stack_push that returns NULL (a refused record allocation must not be counted - "
             "cbor_load unwinds `size` records), and a successful push makes the returned record the top and the depth one larger")
    import rules as _rpa
    _rpa.check_push_atomic(chk, "C05.push-atomic", prog, eff)
    chk.rule("C05.narrowing", "no 64-bit quantity is converted to a narrower integer type except to take one byte of it or below a range "
             "test that makes the conversion lossless: with a declared count kept in 32 bits a truncated container is reported as "
             "complete instead of NOTENOUGHDATA (shared with C02.narrowing)")
    import rules as _rnw
    _rnw.check_narrowing(chk, "C05.narrowing", prog, eff=eff)
    chk.rule("C05.stateless", "the decoder is a function of its arguments: nothing reachable from cbor_load / cbor_stream_decode writes an object with static storage "
             "(no memo of the previous call, no flag that survives it) - the answer for a buffer does not depend on what was decoded before "
             "(transitive write sets from the effects engine; shared with C17.no-global-write)")
    import rules as _rst
    _rst.check_stateless(chk, "C05.stateless", prog, eff, ('cbor_load', 'cbor_stream_decode'))
    chk.exhaustive = True


def _truthy(st, r):
    for t, truth in st.truth.items():
        x = t
        while isinstance(x, tuple) and x[0] == "cast":
            x = x[3]
        if x == r:
            return truth
        # ... or kept in a bool and asked `!= 0` / `== 0`
        if isinstance(t, tuple) and t[0] == "icmp" and t[1] in ("eq", "ne") and t[3] == ("c", 0):
            x = t[2]
            while isinstance(x, tuple) and x[0] == "cast":
                x = x[3]
            if x == r:
                return truth if t[1] == "ne" else not truth
    return False
