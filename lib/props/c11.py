"""C11 - cbor_copy yields an equal, fully independent tree and leaves the source intact (DESIGN §4 C11)."""
from build import AnalysisBroken
import paths as P
from paths import ptr_key, is_const
import ownership as O
import tables
import typestate
import decoder_rules as DR
from props.c06 import check_balance

INSERTERS = dict(O.TAKES_REF)


def strip(t):
    while isinstance(t, tuple) and t[0] == "cast":
        t = t[3]
    return t


def derived_set(prog, eff, pa, root):
    """terms on this path whose value comes from memory reachable from `root` (the source item)"""
    D = {root}

    def is_d(t):
        if t in D:
            return True
        if isinstance(t, tuple):
            b = ptr_key(t)[0]
            if b in D:
                return True
            if t[0] in ("ld", "idx", "p") and any(is_d(x) for x in t[1:] if isinstance(x, tuple)):
                return True
        return False
    for e in pa.events:
        if e.kind == "load" and is_d(e.args[0]):
            D.add(e.res)
        elif e.kind == "call" and e.ckind == "lib" and e.res != ("void",):
            S = eff.summ[e.callee]
            for r in S["ret"]:
                if r[0] == "param" and r[1] < len(e.args) and is_d(e.args[r[1]]):
                    D.add(e.res)
    return D, is_d


def copy_subjects(prog, eff):
    """the copy routine and every unit-internal helper it is split into (whatever they are called)"""
    return ["cbor_copy"] + sorted(n for n in eff.transitive_callees("cbor_copy")
                                  if n in prog.funcs and prog.funcs[n].internal and prog.funcs[n].unit == prog.fn("cbor_copy").unit)


def makers(prog, eff):
    """exported routines that build and return a new item (they allocate): constructors, builders, the copy routine"""
    return sorted(f.name for f in prog.lib_funcs() if not f.internal and f.ret_type == "%struct.cbor_item_t*" and
                  eff.summ[f.name]["allocates"] and f.name not in ("cbor_load",))


def check_makers_define_item(chk, rule, prog, eff, floor=20):
    """Every routine that allocates and returns a new item leaves no field of the item header to the allocator: type,
    reference count and the data pointer are all written on every successful path (the release routine reads all three -
    it frees `data` unconditionally)."""
    n = 0
    for name in makers(prog, eff):
        g = prog.fn(name)
        if g.back_edges() or name in eff.transitive_callees(name):
            continue        # cbor_copy and friends: composed of the leaf makers judged here
        try:
            states = tables.result_states(prog, eff, name)
        except P.PathCapExceeded:
            continue
        for k, rs in enumerate(states):
            d = rs["desc"]
            if d is None:
                continue
            r = rs["item"]
            if not (isinstance(r, tuple) and r[0] == "call" and any(e.kind == "call" and e.res == r and e.ckind == "alloc" for e in rs["path"].events)):
                continue    # hands on an item made by another maker
            n += 1
            missing = [fld for fld in ("type", "refcount", "data") if d.get(fld) is None]
            chk.ob(rule, "%s path %d: type, reference count and data pointer of the new item are all written" % (name, k), not missing,
                   "%s:%d" % (g.file, g.line), fn=name, key="makerinit:%s:%d" % (name, k),
                   detail="" if not missing else "%s left as the allocator returned it; cbor_decref reads it (and hands `data` to the installed free)"
                   % ", ".join(missing), path=rs["path"].block_lines() if missing else None)
    chk.floor(rule, "fresh items returned by makers", n, floor)


def check_total(chk, rule, prog, eff, cache, CS, floor=10, with_makers=True):
    in_context = set()
    for g_ in prog.lib_funcs():
        in_context |= O.static_callees(prog, eff, g_.name)
    SUBJECTS = [n for n in copy_subjects(prog, eff) if n not in in_context]    # helpers are judged where they are inlined
    if with_makers:
        # the refusal of a builder the copy delegates to counts as "a callee failed" only because the builder is held to
        # the same rule: it returns NULL only where the allocator (or another maker, or an insertion) refused
        SUBJECTS += [n for n in makers(prog, eff) if n not in SUBJECTS]
    fallible = set(SUBJECTS) | set(O.TAKES_REF) | {"_cbor_alloc_multiple", "_cbor_realloc_multiple", "_cbor_stack_push"}
    SRC = ("arg", 0)
    ntot = 0
    for name in SUBJECTS:
        f = prog.fn(name)
        where = "%s:%d" % (f.file, f.line)
        has_item = bool(f.params) and f.params[0]["type"].endswith("cbor_item_t*")
        if not f.ret_type.endswith("*"):
            continue    # predicates / bool helpers are judged where their result makes a pointer-returning routine give up (inlined)
        for k, pa in enumerate(cache.get(name, inline_static=True)):
            r = pa.ret
            if r is None:
                continue
            gave_up = r == ("c", 0) or pa.st.known_null(r)
            if not gave_up:
                continue
            if isinstance(r, tuple) and r[0] == "call":
                continue   # the callee's own refusal handed on unchanged
            ntot += 1
            failed = [e for e in pa.events if e.kind == "call" and (e.ckind == "alloc" or (e.ckind == "lib" and e.callee in fallible)) and
                      e.res is not None and e.res != ("void",) and
                      (pa.st.known_null(e.res) or pa.st.truth.get(e.res) is False or pa.st.eqc.get(e.res) == 0)]
            outside = has_item and not CS.summary(f, pa, SRC)[0]
            ok = bool(failed) or outside
            chk.ob(rule, "%s path %d: gives up only after a callee failed" % (name, k), ok, where, fn=name, key="%s:total:%d" % (name, k),
                   detail=("%s failed" % failed[0].callee) if failed else ("type outside the enumeration" if outside else
                           "returns NULL / false although no allocation or insertion failed on this path: a well-formed tree is refused"),
                   path=pa.block_lines() if not ok else None)
    chk.floor(rule, "refusal paths of the copy routine and of the makers", ntot, floor)


def run(ctx, chk):
    prog = ctx.prog()
    eff = ctx.effects(prog)
    H, PA, IF, _ = ctx.typestate()
    cache = O.PathCache(prog, eff)
    N = O.Nullness(prog, eff, cache)
    B = O.Balance(prog, eff, cache, N)
    ctors = tables.constructors(prog, eff)
    chk.explanation = ("provenance and typestate over every path of cbor_copy and its two helpers: nothing loaded from the "
                       "source is inserted into, stored into or returned as part of the result (only fresh copies are); a "
                       "source pointer is only handed to callees that neither capture nor return it; every reference taken "
                       "on a source child is given back and every child copy is released after insertion (the container "
                       "holds the only reference); each type arm rebuilds the same type, flavour, width, count source and "
                       "member order.")
    chk.rule("C11.no-alias", "a value derived from the source is never inserted into a container, attached as a handle, stored "
                             "into the result, or returned; callees that receive a source pointer neither capture nor return it "
                             "(except the identity/getter chain feeding the recursive copy)")
    chk.rule("C11.fresh-insert", "what is inserted into the result is a fresh copy (result of cbor_copy / a constructor)")
    chk.rule("C11.balance", "reference balance on every path: source children +1/-1, child copies released after insertion")
    chk.rule("C11.shape", "each type arm builds the same type and flavour: definite -> definite constructor with the source's own "
                          "count, indefinite -> indefinite constructor; integers/floats by builder and getter of one width; "
                          "negative integers re-marked; tag number passed through; members copied in storage order")
    chk.rule("C11.exhaustive", "the copy switch has an arm for every cbor_type")
    chk.rule("C11.well-formed", "the copy is a well-formed container that can be modified afterwards: whenever cbor_copy (helpers inlined) "
                                "installs a freshly (re)allocated block as storage, the capacity field is written with it")
    chk.not_decided += ["byte-equality of the two serializations as an executed fact (follows from shape + C03 by induction)",
                        "failure arms are decided under C06"]
    T = prog.enum("cbor_type")
    Tn = {v: k for k, v in T.items()}
    SRC = ("arg", 0)
    CS = typestate.CallSites(prog, eff, cache, H, PA)
    # the copy routine and every unit-internal helper it is split into (whatever they are called)
    SUBJECTS = ["cbor_copy"] + sorted(n for n in eff.transitive_callees("cbor_copy")
                                      if n in prog.funcs and prog.funcs[n].internal and prog.funcs[n].unit == prog.fn("cbor_copy").unit)
    # ---- aliasing / freshness
    nins = 0
    # (a helper that is inlined into cbor_copy's paths is judged there, where it is known which of its arguments come from the source:
    # its own first parameter may just as well be the fresh result it is asked to fill)
    inlined_ = O.static_callees(prog, eff, "cbor_copy")
    for name in SUBJECTS:
        if name != "cbor_copy" and name in inlined_:
            continue
        f = prog.fn(name)
        where = "%s:%d" % (f.file, f.line)
        for k, pa in enumerate(cache.get(name, inline_static=True)):
            D, is_d = derived_set(prog, eff, pa, SRC)
            for e in pa.events:
                if e.kind == "call" and e.ckind == "lib":
                    if e.callee in INSERTERS:
                        for j in INSERTERS[e.callee]:
                            if j < len(e.args):
                                nins += 1
                                a = e.args[j]
                                fresh = isinstance(a, tuple) and a[0] == "call" and O.returns_owned(a[1])
                                chk.ob("C11.no-alias", "%s path %d: %s inserts a non-source value" % (name, k, e.callee), not is_d(a), e.ins.loc(),
                                       fn=name, key="%s:%s:%d:alias" % (name, e.callee, e.ins.line),
                                       detail="" if not is_d(a) else "a node of the SOURCE tree is inserted into the copy (shared, not copied)")
                                chk.ob("C11.fresh-insert", "%s path %d: %s inserts a fresh copy" % (name, k, e.callee), fresh, e.ins.loc(),
                                       fn=name, key="%s:%s:%d:fresh" % (name, e.callee, e.ins.line), detail="" if fresh else "inserted value %s" % DR.fmt_term(a))
                    elif e.callee.endswith("_set_handle"):
                        bad = any(is_d(a) for a in e.args[1:])
                        chk.ob("C11.no-alias", "%s path %d: %s attaches a non-source buffer" % (name, k, e.callee), not bad, e.ins.loc(), fn=name,
                               key="%s:%s:%d" % (name, e.callee, e.ins.line))
                    else:
                        # a source pointer handed to a callee: must not be captured; may be returned only by getters/identity
                        S = eff.summ[e.callee]
                        for j, a in enumerate(e.args):
                            if isinstance(a, tuple) and is_d(a) and prog.fn(e.callee).params[j]["type"].endswith("*"):
                                captured = any(v == ("param", j) for (t, v) in S["stores"])
                                chk.ob("C11.no-alias", "%s: %s does not capture the source pointer it receives" % (name, e.callee), not captured,
                                       e.ins.loc(), fn=name, key="%s:%s:%d:capture" % (name, e.callee, j),
                                       detail="" if not captured else "%s stores its argument %d into longer-lived memory" % (e.callee, j))
                elif e.kind == "store" and isinstance(e.args[1], tuple) and is_d(e.args[1]) and e.args[1] != ("c", 0):
                    b = ptr_key(e.args[0])[0]
                    if isinstance(b, tuple) and b[0] != "alloca":
                        chk.ob("C11.no-alias", "%s path %d: source-derived value stored into heap memory" % (name, k), False, e.ins.loc(), fn=name,
                               key="%s:store:%d" % (name, e.ins.line), detail="stores %s" % DR.fmt_term(e.args[1]))
            r = pa.ret
            if r is not None and r != ("c", 0):
                chk.ob("C11.no-alias", "%s path %d: the returned tree is not the source" % (name, k), not is_d(r), where, fn=name,
                       key="%s:ret:%d" % (name, k), detail="" if not is_d(r) else "returns a pointer into the source tree")
    chk.floor("C11.fresh-insert", "insertions on paths", nins, 10)

    # ---- representation invariant of what is returned (shared with C12.capacity-field)
    from props.c12 import check_capacity_field
    check_capacity_field(chk, "C11.well-formed", prog, eff, cache, floor=8)

    # ---- totality: NULL only because something that can fail did fail
    chk.rule("C11.total", "cbor_copy (and the unit-internal helpers it is split into) gives up - returns NULL / false - only on a path on "
                          "which a callee that can fail (a constructor, builder, nested copy, insertion) is known to have failed, or "
                          "for a type value outside the enumeration: every well-formed tree can be copied, memory permitting")
    check_total(chk, "C11.total", prog, eff, cache, CS)

    # ---- balance
    check_balance(chk, "C11.balance", prog, eff, cache, N, B, ctors, fnames=SUBJECTS, floor=8)

    # ---- shape
    # the routine that dispatches on the type: cbor_copy itself, or - when cbor_copy is a thin wrapper - the
    # unit-internal routine it hands its argument to (followed through at most three wrappers)
    MAIN = "cbor_copy"
    for _w in range(3):
        ps_ = cache.get(MAIN, inline_static=True)
        if len(ps_) == 1 and isinstance(ps_[0].ret, tuple) and ps_[0].ret[0] == "call" and ps_[0].ret[1] in prog.funcs and \
                prog.funcs[ps_[0].ret[1]].internal:
            ev_ = [e for e in ps_[0].events if e.kind == "call" and e.res == ps_[0].ret]
            if ev_ and ev_[0].args and ev_[0].args[0] == SRC:
                MAIN = ps_[0].ret[1]
                continue
        break
    COPY_CALLS = {"cbor_copy", MAIN}
    chk.extra["copy_dispatch_routine"] = MAIN
    f = prog.fn(MAIN)
    where = "%s:%d" % (f.file, f.line)
    seen = set()

    def getter_call(pa, t, name):
        # the value must arrive unchanged: a narrowing on the way (a 64-bit count or tag number through a 32-bit local) is
        # not "the value of the source"
        u = t
        while isinstance(u, tuple) and u[0] == "cast":
            if u[1] == "trunc":
                return False
            u = u[3]
        t = strip(t)
        if not (isinstance(t, tuple) and t[0] == "call" and t[1] == name):
            return False
        ev = [e for e in pa.events if e.kind == "call" and e.res == t]
        return bool(ev) and ev[0].args[0] == SRC
    SPEC = {
        T["CBOR_TYPE_BYTESTRING"]: dict(pred="cbor_bytestring_is_definite", new_indef="cbor_new_indefinite_bytestring", ins="cbor_bytestring_add_chunk",
                                        handle="cbor_bytestring_chunks_handle"),
        T["CBOR_TYPE_STRING"]: dict(pred="cbor_string_is_definite", new_indef="cbor_new_indefinite_string", ins="cbor_string_add_chunk",
                                    handle="cbor_string_chunks_handle"),
        T["CBOR_TYPE_ARRAY"]: dict(pred="cbor_array_is_definite", new_def="cbor_new_definite_array", count="cbor_array_size",
                                   new_indef="cbor_new_indefinite_array", ins="cbor_array_push"),
        T["CBOR_TYPE_MAP"]: dict(pred="cbor_map_is_definite", new_def="cbor_new_definite_map", count="cbor_map_size",
                                 new_indef="cbor_new_indefinite_map", ins="cbor_map_add"),
    }
    for k, pa in enumerate(cache.get(MAIN, inline_static=True)):
        tys_, _iw, _fw, fl_ = CS.summary(f, pa, SRC)
        ty = sorted(tys_)
        if len(ty) != 1:
            continue   # infeasible (empty) or default arm
        t = ty[0]
        seen.add(t)
        if pa.ret == ("c", 0):
            continue
        inst = "path %d (%s)" % (k, Tn[t])
        calls = [e for e in pa.events if e.kind == "call" and e.ckind == "lib"]
        if t in (T["CBOR_TYPE_UINT"], T["CBOR_TYPE_NEGINT"], T["CBOR_TYPE_FLOAT_CTRL"]):
            pass   # leaf arms are decided on the state of the returned item (below)
        elif t == T["CBOR_TYPE_TAG"]:
            bt = [e for e in calls if e.callee == "cbor_build_tag"]
            cp = [e for e in calls if e.callee in COPY_CALLS]
            ok = len(bt) == 1 and len(cp) == 1 and getter_call(pa, bt[0].args[0], "cbor_tag_value") and bt[0].args[1] == cp[0].res and pa.ret == bt[0].res
            if ok:
                src = cp[0].args[0]
                chain = [e for e in calls if e.res == src]
                ok = bool(chain) and chain[0].callee in ("cbor_move", "cbor_tag_item")
            chk.ob("C11.shape", inst + ": tag(value of source, copy of the tagged item)", ok, where, fn=f.name, key="shape:tag")
        else:
            sp = SPEC[t]
            definite = True if fl_ == {0} else (False if fl_ == {1} else None)
            if definite is None:
                chk.ob("C11.shape", inst + ": flavour tested", False, where, fn=f.name, key="shape:flav:%d:%d" % (t, k))
                continue
            if t in (T["CBOR_TYPE_BYTESTRING"], T["CBOR_TYPE_STRING"]) and definite:
                bname = "cbor_build_bytestring" if t == T["CBOR_TYPE_BYTESTRING"] else "cbor_build_stringn"
                hname = "cbor_bytestring_handle" if t == T["CBOR_TYPE_BYTESTRING"] else "cbor_string_handle"
                lname = "cbor_bytestring_length" if t == T["CBOR_TYPE_BYTESTRING"] else "cbor_string_length"
                b = [e for e in calls if e.callee == bname]
                ok = len(b) == 1 and getter_call(pa, b[0].args[0], hname) and getter_call(pa, b[0].args[1], lname) and pa.ret == b[0].res
                chk.ob("C11.shape", inst + " definite: %s(handle, length) of the source" % bname, ok, where, fn=f.name, key="shape:defstr:%d" % t)
                continue
            ctor = [e for e in calls if e.callee.startswith("cbor_new_")]
            if definite:
                ok = len(ctor) == 1 and ctor[0].callee == sp["new_def"] and getter_call(pa, ctor[0].args[0], sp["count"]) and pa.ret == ctor[0].res
                chk.ob("C11.shape", inst + " definite: %s(count of the source)" % sp["new_def"], ok, where, fn=f.name, key="shape:def:%d:%d" % (t, k))
            else:
                ok = len(ctor) == 1 and ctor[0].callee == sp["new_indef"] and pa.ret == ctor[0].res
                chk.ob("C11.shape", inst + " indefinite: %s()" % sp["new_indef"], ok, where, fn=f.name, key="shape:indef:%d:%d" % (t, k))
            # members: every insertion goes into the new container, in source order
            ins = [e for e in calls if e.callee == sp["ins"]]
            cps = [e for e in calls if e.callee in COPY_CALLS]
            okm = all(e.args[0] == ctor[0].res for e in ins) if ctor else False
            if t == T["CBOR_TYPE_MAP"]:
                okm = okm and all(len(cps) >= 2 and e.args[1] == cps[2 * i].res and e.args[2] == cps[2 * i + 1].res for i, e in enumerate(ins))
                # key read at +0, value at +8 of the same pair
                if len(cps) < 2 * len(ins):
                    okm = False    # an entry whose key and value are not both the result of their own copy
                for i in range(len(ins) if okm else 0):
                    ka, va = cps[2 * i].args[0], cps[2 * i + 1].args[0]
                    okm = okm and ka[0] == "ld" and va[0] == "ld" and ptr_key(("p", ka[1], ka[2]) if ka[2] else ka[1])[0] == ptr_key(("p", va[1], va[2]) if va[2] else va[1])[0] \
                        and va[2] - ka[2] == 8
            else:
                okm = okm and all(i < len(cps) and e.args[1] == cps[i].res for i, e in enumerate(ins))
            if ins:
                chk.ob("C11.shape", inst + ": %d member(s) copied in order into the new container" % len(ins), okm, where, fn=f.name,
                       key="shape:members:%d:%s:%d" % (t, definite, len(ins)))
    missing = [n for n, v in T.items() if v not in seen]
    chk.ob("C11.exhaustive", "copy switch covers every cbor_type", not missing, where, fn=f.name, detail="no arm for %s" % missing if missing else "")
    # leaf arms (integers, floats, simple values): decided on the STATE of the item cbor_copy returns, with its static
    # helpers and the constructors/setters inlined - independent of how the copy is coded
    IW = prog.enum("cbor_int_width")
    FW = prog.enum("cbor_float_width")
    off_ = {m["name"]: m["offset_bits"] // 8 for m in prog.struct_members("cbor_item_t")}
    helpers = O.static_callees(prog, eff, MAIN)
    seen_leaf = set()
    nleaf = 0
    for k, rs in enumerate(tables.result_states(prog, eff, MAIN, extra_inline=helpers)):
        pa, d = rs["path"], rs["desc"]
        tys_, iw_, fw_, _fl = CS.summary(f, pa, SRC)
        ty = sorted(tys_)
        leaf_types = {T["CBOR_TYPE_UINT"], T["CBOR_TYPE_NEGINT"], T["CBOR_TYPE_FLOAT_CTRL"]}
        if len(ty) != 1 or ty[0] not in leaf_types or d is None:
            continue
        t0 = ty[0]
        w = sorted(fw_ if t0 == T["CBOR_TYPE_FLOAT_CTRL"] else iw_)
        if len(w) != 1:
            w = None
        nleaf += 1
        det = []

        def same_as_source(v, const, src_off):
            return v == ("c", const) or (isinstance(v, tuple) and v[0] == "ld" and v[1] == SRC and v[2] == src_off)
        if not same_as_source(d["type"], t0, off_["type"]):
            det.append("type of the copy is %s, source is %s" % (d["type"], Tn[t0]))
        if d["refcount"] != ("c", 1):
            det.append("reference count of the copy is %s, must be exactly 1" % (DR.fmt_term(d["refcount"]) if d["refcount"] is not None else "never initialised"))
        if w is not None and len(w) == 1:
            if not same_as_source(d["meta0"], w[0], off_["metadata"]):
                det.append("width of the copy is %s, source width is %d" % (d["meta0"], w[0]))
            seen_leaf.add((t0 == T["CBOR_TYPE_FLOAT_CTRL"], w[0]))
            is_ctrl = t0 == T["CBOR_TYPE_FLOAT_CTRL"] and w[0] == FW["CBOR_FLOAT_0"]
            if is_ctrl:
                # a simple value: the copy carries the source's own number, whatever it is (not only the four the decoder makes)
                ctrl_off = off_["metadata"] + prog.field_offset("_cbor_float_ctrl_metadata", "ctrl")
                cv = strip(d["ctrl"]) if d["ctrl"] is not None else None
                src_terms = [e.res for e in pa.events if e.kind == "load" and ptr_key(e.args[0]) == (SRC, ctrl_off)]
                okc = False
                if cv is not None:
                    if cv in src_terms:
                        okc = True
                    elif isinstance(cv, tuple) and cv[0] == "call":
                        ev = [e for e in pa.events if e.kind == "call" and e.res == cv]
                        okc = bool(ev) and ev[0].args and ev[0].args[0] == SRC and not eff.summ.get(ev[0].callee, {}).get("writes") and \
                            ev[0].callee == "cbor_ctrl_value"
                    elif is_const(cv):
                        okc = any(pa.st.eqc.get(t_) == cv[1] for t_ in src_terms)
                if not okc:
                    det.append("simple value of the copy is %s, not the value read from the source" % (DR.fmt_term(d["ctrl"]) if d["ctrl"] is not None else "not set"))
            if not is_ctrl:
                if d["data_kind"] != "interior":
                    det.append("payload pointer of the copy is %s (must point into the copy's own block)" % d["data_kind"])
                pays = d.get("payload") or {}
                src_read = False
                for pty, pay in pays.items():
                    p0 = strip(pay)
                    if p0[0] == "call":
                        ev = [e for e in pa.events if e.kind == "call" and e.res == p0]
                        if ev and ev[0].args and ev[0].args[0] == SRC:
                            pre = [a for a in H.get(ev[0].callee, []) if a.get("param") == 0 and a.get("entry", True) and a["kind"] == "eq"]
                            src_read = any(a["const"] == w[0] for a in pre)
                    elif p0[0] == "ld" and p0[1][0] == "ld" and p0[1][1] == SRC and p0[1][2] == off_["data"] and p0[2] == 0:
                        src_read = True
                if not src_read:
                    det.append("payload of the copy is not the value read from the source at its own width")
        elif not (isinstance(d["meta0"], tuple) and d["meta0"][0] == "ld" and d["meta0"][1] == SRC and d["meta0"][2] == off_["metadata"]):
            det.append("the width of the source is neither examined nor copied")
        chk.ob("C11.shape", "cbor_copy leaf path %d (%s, width %s): fresh item with the source's type/width/value and reference count 1"
               % (k, Tn[t0], w), not det, where, fn=f.name, key="leaf:%d:%s" % (t0, w), detail="; ".join(det), path=pa.block_lines() if det else None)
    want_leaf = {(False, v) for v in IW.values()} | {(True, v) for v in FW.values()}
    chk.ob("C11.shape", "leaf arms cover the four integer and four float/ctrl widths", want_leaf <= seen_leaf, where, fn=f.name, key="leaf:all",
           detail="" if want_leaf <= seen_leaf else "missing %s" % sorted(want_leaf - seen_leaf))
    chk.floor("C11.shape", "leaf copy paths", nleaf, 8)
    chk.rule("C11.getters", "each field accessor returns, on every path, the value of the field it stands for (resolved through the struct "
             "types): no guard, clamp or second opinion between the stored value and the caller (the copy is compared with its source through these accessors)")
    import rules as _rg
    _rg.check_field_getters(chk, "C11.getters", prog, eff, names=None)
    chk.rule("C11.payload-copy", "the builders the copy of a definite string goes through attach a fresh block of exactly the source's length "
             "filled by memcpy / memmove of that length - byte for byte, whatever the bytes are (a string routine stops at the first NUL; shared "
             "with C16.reach)")
    from props.c16 import check_builders_copy
    check_builders_copy(chk, "C11.payload-copy", prog, eff, (("cbor_build_stringn", "param"),), "cbor_string_set_handle")
    check_builders_copy(chk, "C11.payload-copy", prog, eff, (("cbor_build_bytestring", "param"),), "cbor_bytestring_set_handle")
    chk.rule("C11.int-makers", "the integer builders the copy goes through return an item of their width holding the whole parameter "
             "(a builder whose parameter is narrower than its width copies a 64-bit value modulo 2^32; shared with C03.int-makers)")
    from props.c03 import check_int_makers
    check_int_makers(chk, "C11.int-makers", prog, eff)
    chk.exhaustive = True
