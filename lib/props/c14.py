"""C14 - items decode independently of what follows them: CBOR sequences work (DESIGN §4 C14)."""
from build import AnalysisBroken
from ir import Inst, Const, strip_casts, apath
import paths as P
from paths import ptr_key
import decoder_rules as DR
import ownership as O


def run(ctx, chk):
    prog = ctx.prog()
    eff = ctx.effects(prog)
    chk.explanation = ("no look-ahead (every byte read is below the reported read count; the buffer length only feeds claim "
                       "comparisons), cbor_load's loop continues on the decoding stack's size alone and passes a consistent "
                       "window source+read / size-read, and read accumulates exactly the FINISHED results: hence load(x||y) "
                       "performs the identical decoder calls with identical outcomes as load(x).")
    chk.rule("C14.claim-before-read", "every read of the buffer lies below the bytes claimed so far")
    chk.rule("C14.read", "FINISHED: read = bytes claimed")
    chk.rule("C14.action", "where an item ends is decided by its head alone: per initial byte the length / count handed on is the "
                           "immediate value of the head or the big-endian argument of the head's width (shared with C08.action)")
    chk.rule("C14.claim", "per initial byte the decoder claims the head, its argument and - for strings - exactly the decoded length "
                          "(shared with C08.claim)")
    chk.rule("C14.prefix", "source_size only feeds claim comparisons")
    chk.rule("C14.window", "each cbor_stream_decode call in cbor_load receives source + r and source_size - r for the same r, "
                           "r being the current value of result->read")
    chk.rule("C14.stop", "the decode loop continues iff the decoding stack is non-empty; the root is returned right after the "
                         "loop exits, with no further decoder call")
    chk.rule("C14.accumulate", "result->read is only ever 0 plus the read counts of FINISHED decoder results")
    chk.not_decided += ["the n-item split of a concatenation as an executed fact (follows by induction from the clauses)"]
    n = DR.per_byte(chk, "C14", prog, eff, {"read", "claim-before-read", "action", "claim"})
    chk.floor("C14.read", "per-byte obligations", n, 700)
    DR.size_only_feeds_claims(chk, "C14.prefix", prog)
    chk.rule("C14.payload-copy", "the tree builder reads exactly the claimed payload bytes: nothing of what follows the item")
    npc = DR.payload_reads(chk, "C14.payload-copy", prog, eff, O.PathCache(prog, eff))
    chk.floor("C14.payload-copy", "payload reads in the string builders", npc, 2)

    chk.rule("C14.no-silent-drop", "a decoded head never vanishes: every path of every builder callback hands its item off or raises "
                                   "an error flag - otherwise the open container would be completed by what follows x (shared with C05)")
    from props.c05 import check_no_silent_drop
    check_no_silent_drop(chk, "C14.no-silent-drop", prog, eff)

    # what is decoded does not depend on WHERE the item sits: every path of every argument loader (e.g. a fast path
    # taken only for aligned addresses) assembles the same big-endian value
    chk.rule("C14.loader", "every path of each integer loader the decoder uses denotes the big-endian value of exactly the bytes it reads, "
                           "so an item decodes the same at every offset of a sequence (shared with C10.loader)")
    import tables as _t14
    by_byte14, _pre14, _outs14 = _t14.dispatch(prog, eff)
    loaders14 = set()
    for b_ in range(256):
        for o_ in by_byte14[b_]:
            for cb_ in o_["callbacks"]:
                for d_ in cb_["desc"]:
                    if d_[0] in ("loader", "loader-bias"):
                        loaders14.add(d_[1])
    nl14 = 0
    for l_ in sorted(loaders14):
        lf_ = prog.fn(l_)
        if not lf_.ret_type.startswith("i") or l_ == "_cbor_load_uint8":
            continue
        n_ = _t14.read_extent(prog, l_, 0)
        want_ = {j: 8 * (n_ - 1 - j) for j in range(n_)}
        for pi_, bm_ in enumerate(_t14.loader_bytemaps(prog, eff, l_)):
            nl14 += 1
            chk.ob("C14.loader", "%s path %d" % (l_, pi_), bm_ == want_, "%s:%d" % (lf_.file, lf_.line), fn=l_, key="loader:%s:%d" % (l_, pi_),
                   detail="" if bm_ == want_ else "byte map %s, big-endian is %s" % (bm_, want_))
    chk.floor("C14.loader", "loader paths", nl14, 3)

    f = prog.fn("cbor_load")
    where = "%s:%d" % (f.file, f.line)
    src_i, size_i, res_i = f.param_index("source"), f.param_index("source_size"), f.param_index("result")
    SRC, SIZE, RES = ("arg", src_i), ("arg", size_i), ("arg", res_i)
    read_off = prog.field_offset("cbor_load_result", "read")
    size_off = prog.field_offset("_cbor_stack", "size")
    st_read = prog.field_offset("cbor_decoder_result", "read")
    st_status = prog.field_offset("cbor_decoder_result", "status")
    FIN = prog.enum("cbor_decoder_status")["CBOR_DECODER_FINISHED"]
    ps = P.Executor(prog, eff, loop_bound=2, arith_events=True).run("cbor_load")
    chk.floor("C14.window", "paths of cbor_load (up to 3 decoder calls)", len(ps), 40)
    nd = ncont = 0
    for k, pa in enumerate(ps):
        decodes = pa.calls("cbor_stream_decode")
        valid_total, _problems = DR.running_read(prog, pa, RES, read_off)
        for i, d in enumerate(decodes):
            nd += 1
            a_src, a_size = d.args[1], d.args[2]
            # expected r: what result->read held just before the call
            if a_src == SRC or (a_src[0] == "idx" and a_src[1] == SRC and a_src[3] == (("c", 0),)):
                r = ("c", 0)
                oks = a_size == SIZE
            elif a_src[0] == "idx" and a_src[1] == SRC:
                r = a_src[3][0]
                oks = a_size == ("op", "sub", "i64", SIZE, r)
            else:
                r, oks = None, False
            okr = r is not None and valid_total(r)
            chk.ob("C14.window", "path %d call %d: window is (source + r, size - r)" % (k, i), oks and okr, d.ins.loc(), fn=f.name,
                   key="win:%d:%d" % (k, i), detail="" if oks and okr else "source arg %s, size arg %s" % (DR.fmt_term(a_src), DR.fmt_term(a_size)))
        # continuation: between two decode calls the last test of the stack size says "non-empty"; on the root return
        # it says "empty" (decided on the path's facts, however the loop is spelled: do-while, while + flag, goto)
        def nonempty(t, truth):
            """True / False if fact (t, truth) says the local decoding stack is non-empty / empty, else None"""
            if t[0] == "icmp" and t[3] == ("c", 0) and isinstance(t[2], tuple) and t[2][0] == "ld" and t[2][2] == size_off \
                    and t[2][1][0] == "alloca":
                if t[1] in ("ugt", "ne"):
                    return bool(truth)
                if t[1] in ("eq", "ule"):
                    return not truth
            return None
        for i in range(len(decodes) - 1):
            last = None
            for t, truth, _ in pa.facts[decodes[i].nfacts:decodes[i + 1].nfacts]:
                v = nonempty(t, truth)
                if v is not None:
                    last = v
            chk.ob("C14.stop", "path %d: decoder call %d follows only because the stack is non-empty" % (k, i + 1), last is True,
                   decodes[i + 1].ins.loc(), fn=f.name, key="cont:%d:%d" % (k, i),
                   detail="" if last is True else ("the loop continues although the stack is empty (an item is complete)" if last is False
                                                    else "the loop continues without testing the stack"))
            ncont += 1
        if pa.ret != ("c", 0):
            last = None
            for t, truth, _ in pa.facts:
                v = nonempty(t, truth)
                if v is not None:
                    last = v
            ok = last is False and pa.events[-1].kind == "ret"
            # nothing but loads between the last decoder call's bookkeeping and the return
            dec_idx = [i for i, e in enumerate(pa.events) if e.kind == "call" and e.callee == "cbor_stream_decode"]
            if not dec_idx:
                # an item is returned on a path that never ran the decoder: whatever it is, it is not what these bytes denote
                chk.ob("C14.stop", "path %d: a non-NULL result follows a decoder step" % k, False, where, fn=f.name, key="stop:nodecode:%d" % k,
                       detail="cbor_load returns %s without having called the decoder on this path" % DR.fmt_term(pa.ret), path=pa.block_lines())
                continue
            idx = max(dec_idx)
            # (calls that only tidy up locals - e.g. releasing a cached stack record - do not concern the result)
            tail_calls = [e for e in pa.events[idx + 1:] if e.kind == "call" and (e.callee == "cbor_stream_decode" or e.ckind == "callback" or
                          any(isinstance(a, tuple) and (P.derives(a, RES) or P.derives(a, SRC)) for a in e.args))]
            ok = ok and not tail_calls
            chk.ob("C14.stop", "path %d: root returned as soon as the stack is empty (%d decoder calls)" % (k, len(decodes)), ok, where,
                   fn=f.name, key="stop:%d" % k, detail="" if ok else "loop exit condition / trailing calls: %s" % tail_calls)
    chk.floor("C14.window", "decoder calls on paths", nd, 60)
    chk.floor("C14.stop", "loop continuations on paths", ncont, 20)
    latches = [(t, h) for t, h in f.back_edges() if any(i.op == "call" and i.callee == "cbor_stream_decode"
                                                       for b in f.blocks if b.id in f.loops().get(h.id, ()) for i in b.insts)]
    if len(latches) != 1:
        raise AnalysisBroken("cbor_load: expected one decode loop, found %d" % len(latches))
    # accumulate: the running total (kept in result->read or in a local stored back at the exits) only ever grows by the
    # read counts of FINISHED decoder results
    ns = 0
    for k, pa in enumerate(ps):
        _valid, problems = DR.running_read(prog, pa, RES, read_off)
        adds = [e for e in pa.events if e.kind == "arith" and e.callee == "add" and
                any(isinstance(x, tuple) and x[0] == "ld" and x[2] == st_read and isinstance(x[1], tuple) and x[1][0] == "alloca" for x in e.args)]
        stores = [e for e in pa.events if e.kind == "store" and ptr_key(e.args[0]) == (RES, read_off)]
        bad = {id(e): txt for e, txt in problems}
        for e in adds + stores:
            ns += 1
            ok = id(e) not in bad
            chk.ob("C14.accumulate", "path %d: read += FINISHED result only" % k, ok, e.ins.loc(), fn=f.name, key="acc:%d:%s:%d" % (k, e.kind, e.ins.id),
                   detail="" if ok else bad[id(e)])
    chk.floor("C14.accumulate", "updates of read", ns, 20)
    chk.rule("C14.insert-total", "an item decodes the same whatever follows it only if attaching a sub-item cannot fail for a reason of "
                                 "its own: the insertion routines refuse only when an allocation failed, an overflow guard answered false "
                                 "or a definite container is full (shared with C12.refusal-justified)")
    from props.c12 import check_insert_refusal
    import ownership as _O14
    check_insert_refusal(chk, "C14.insert-total", prog, eff, _O14.PathCache(prog, eff))
    chk.rule("C14.narrowing", "no 64-bit quantity is converted to a narrower integer type except to take one byte of it for the "
             "output buffer or below a range test that makes the conversion lossless (the count of outstanding sub-items decides where an item ends; a count kept in 32 bits is "
             "tracked modulo 2^32)")
    import rules as _rn
    _rn.check_narrowing(chk, "C14.narrowing", prog, eff=eff)
    chk.rule("C14.no-access-after-free", "on every path of every library function (unit-internal helpers and the stack module inlined) no load or "
             "store addresses a block after it was handed to the installed free, and no block is handed to it twice (what an item decodes to does not depend on what the allocator leaves in released blocks)")
    from props.c06 import check_no_access_after_free
    check_no_access_after_free(chk, "C14.no-access-after-free", prog, eff)
    chk.rule("C14.automaton", "where an item ends is decided by the frame automaton of the tree builder: a completed container is handed to ITS parent, counters move as the table says (shared with C02.automaton)")
    chk.rule("C14.record-items", "the item of every record unlinked from the decoding stack is released or handed on on that path "
             "(shared with C06.record-items)")
    import typestate as _tsA
    import ownership as _OA
    from props.c02 import check_automaton
    from props.c06 import check_record_items
    _H, _PA, _IFa, _xa = ctx.typestate()
    _cacheA = _OA.PathCache(prog, eff)
    check_automaton(chk, "C14.automaton", prog, eff, _cacheA, _tsA.CallSites(prog, eff, _cacheA, _H, _PA))
    check_record_items(chk, "C14.record-items", prog, eff)
    chk.rule("C14.stateless", "the decoder is a function of its arguments: nothing reachable from cbor_load / cbor_stream_decode writes an object with static storage "
             "(no memo of the previous call, no flag that survives it) - the answer for a buffer does not depend on what was decoded before "
             "(transitive write sets from the effects engine; shared with C17.no-global-write)")
    import rules as _rst
    _rst.check_stateless(chk, "C14.stateless", prog, eff, ('cbor_load', 'cbor_stream_decode'))
    chk.rule("C14.attach", "a chunk callback hands its chunk to the parent as an ordinary item only on paths that know no indefinite string of its kind is "
             "open: an item whose encoding contains an (empty) chunk decodes, so a sequence containing it can be split (shared with C02.attach)")
    import ownership as _Oat
    import typestate as _tsat
    from props.c02 import check_plain_when, wired_builders
    _Hat, _PAat, _IFat, _xat = ctx.typestate()
    _cat14 = _Oat.PathCache(prog, eff)
    check_plain_when(chk, "C14.attach", prog, _cat14, wired_builders(prog), _tsat.CallSites(prog, eff, _cat14, _Hat, _PAat))
    chk.exhaustive = True
