"""C10 - low-level encoders and the streaming decoder are exact inverses (DESIGN §4 C10)."""
from build import AnalysisBroken
import tables
import encoder_rules as ER
import decoder_rules as DR
import paths as P


def run(ctx, chk):
    prog = ctx.prog()
    eff = ctx.effects(prog)
    chk.explanation = ("table agreement over finite constant sets, exhaustive over all 2^64 values by interval "
                       "partition: every path of every public cbor_encode_* (primitives inlined) yields a value "
                       "interval, a guard on buffer_size and the bytes stored as terms; these are compared with the RFC "
                       "8949 head encoding (offset, additional info, big-endian map, shortest class). The decoder side "
                       "is T-dispatch plus the (offset, shift) byte map extracted from each integer loader; the two must "
                       "mirror each other for every initial byte an encoder can emit.")
    chk.rule("C10.offset", "initial byte = major-type offset + immediate value (<= 23) or + 0x18..0x1B for 1/2/4/8 argument bytes; "
                           "single-byte encoders emit their RFC constant")
    chk.rule("C10.bytes", "argument byte i of an N-byte head is (value >> 8(N-i)) & 0xff (big-endian), with no bits cut by an "
                          "earlier truncation")
    chk.rule("C10.shortest", "width-agnostic encoders select the 1/2/3/5/9-byte head exactly on [0,23] [24,255] [256,65535] "
                             "[65536,2^32-1] [2^32,2^64-1]; fixed-width ones always their named width (8-bit: immediate up to 23)")
    chk.rule("C10.cover", "every value of the parameter's domain has a success path")
    chk.rule("C10.guard", "the constant returned equals the number of bytes stored; (also C07)")
    chk.rule("C10.nan", "NaN of each width is emitted as the canonical quiet NaN")
    chk.rule("C10.bits", "single/double: the encoded integer is the bit reinterpretation of the parameter")
    chk.rule("C10.loader", "integer loader of width N computes sum source[j] << 8(N-1-j): the mirror image of the encoder map")
    chk.rule("C10.mirror", "for every initial byte an encoder emits, the decoder claims the same number of argument bytes, "
                           "loads them with the N-byte loader at source+1 (or subtracts the same offset from the immediate) "
                           "and fires the callback of the matching kind, consuming exactly the bytes written")
    chk.rule("C10.simple", "0xF4..0xF7 decode to boolean(false/true)/null/undefined; 0xE0..0xF3 and 0xF8 are encodable "
                           "(cbor_encode_ctrl) but rejected by the decoder, as documented")
    chk.not_decided += ["float payload values for half precision (C15)"]

    encs = ER.public_encoders(prog)
    chk.floor("C10.offset", "public encoders", len(encs), 27)
    npaths = 0
    for n in encs:
        res, np_ = ER.check_encoder(prog, eff, n)
        npaths += np_
        for rule, inst, ok, where, detail in res:
            chk.ob("C10." + rule, inst, ok, where, fn=n, detail=detail)
    chk.count("encoder paths", npaths)

    # loaders
    by_byte, pre, outs = tables.dispatch(prog, eff)
    names, enumv = DR.status_names(prog)
    ext_cache = {}

    def loader_ext(name):
        if name not in ext_cache:
            ext_cache[name] = tables.read_extent(prog, name, 0)
        return ext_cache[name]
    FIN = enumv["CBOR_DECODER_FINISHED"]
    used_loaders = {}
    for b in range(256):
        for o in by_byte[b]:
            for cb in o["callbacks"]:
                for d in cb["desc"]:
                    if d[0] in ("loader", "loader-bias"):
                        used_loaders.setdefault(d[1], set()).add(b)
    int_loaders = [l for l in used_loaders if prog.fn(l).ret_type.startswith("i")]
    chk.floor("C10.loader", "integer loaders used by the dispatch", len(int_loaders), 4)
    for l in sorted(int_loaders):
        f = prog.fn(l)
        n = loader_ext(l)
        want = {j: 8 * (n - 1 - j) for j in range(n)}
        for pi_, bm in enumerate(tables.loader_bytemaps(prog, eff, l)):
            chk.ob("C10.loader", "%s (%d bytes) path %d" % (l, n, pi_), bm == want, "%s:%d" % (f.file, f.line), fn=l, key="loader:%s:%d" % (l, pi_),
                   detail="" if bm == want else "byte map {offset: shift} is %s, big-endian is %s (a path of the loader - e.g. one taken only "
                                                "for some addresses - assembles a different value)" % (bm, want))
    # float loaders delegate to an integer loader of the same width (bit cast): C15 checks the cast; here the width
    for l in sorted(set(used_loaders) - set(int_loaders)):
        f = prog.fn(l)
        chk.ob("C10.loader", "%s reads %d bytes" % (l, loader_ext(l)), loader_ext(l) in (2, 4, 8), "%s:%d" % (f.file, f.line), fn=l, nontrivial=False)

    chk.rule("C10.nedata", "a head whose payload is not in the buffer is answered NEDATA with read = 0 and no callback, under the test "
                           "'amount > provided - claimed' (so a string head the encoder writes for any length up to 2^64-1 is never "
                           "mistaken for a complete item)")
    chk.rule("C10.nedata-wrap", "the byte count asked for cannot wrap")
    import decoder_rules as DR_
    chk.rule("C10.status", "per initial byte the decoder's status is the reference's and does not depend on the decoded VALUE (no head the "
                           "encoder can write - e.g. one particular tag number - is treated specially)")
    chk.rule("C10.action", "per initial byte: callback kind, argument width / loader / bias agree with the reference")
    DR_.per_byte(chk, "C10", prog, eff, {"nedata", "nedata-wrap", "status", "action"}, by_byte=by_byte)
    nm = mirror(chk, "C10.mirror", "C10.simple", prog, eff, encs, by_byte, enumv, loader_ext)
    chk.floor("C10.mirror", "encoder byte -> decoder arm links", nm, 200)
    chk.rule("C10.stateless", "the decoder is a function of its arguments: nothing reachable from cbor_stream_decode writes an object with static storage "
             "(no memo of the previous call, no flag that survives it) - the answer for a buffer does not depend on what was decoded before "
             "(transitive write sets from the effects engine; shared with C17.no-global-write)")
    import rules as _rst
    _rst.check_stateless(chk, "C10.stateless", prog, eff, ('cbor_stream_decode',))
    chk.exhaustive = True


def mirror(chk, rule_mirror, rule_simple, prog, eff, encs, by_byte, enumv, loader_ext):
    FIN = enumv["CBOR_DECODER_FINISHED"]
    # mirror: encoder classes -> dispatch
    fdec = prog.fn("cbor_stream_decode")
    nm = 0
    for n in encs:
        mode, off, width = ER.SPEC[n]
        emitted = []
        if mode == "byte":
            emitted = [off]
        elif mode == "bool":
            emitted = [off, off + 1]
        elif mode == "float":
            emitted = [off + ER.AI[width]]
        elif mode == "fixed":
            emitted = ([off + v for v in range(24)] + [off + 0x18]) if width == 1 else [off + ER.AI[width]]
        else:
            emitted = [off + v for v in range(24)] + [off + a for a in (0x18, 0x19, 0x1A, 0x1B)]
        for c in emitted:
            ref = tables.ref_dispatch(c)
            if n == "cbor_encode_ctrl":
                # documented asymmetry: only the assigned simple values are decodable
                decodable = ref != ("error",)
                outs_c = by_byte[c]
                got_err = all(o["status"] == ("c", enumv["CBOR_DECODER_ERROR"]) for o in outs_c)
                chk.ob(rule_simple, "0x%02X (%s)" % (c, "decodable" if decodable else "encodable only"),
                       got_err != decodable, "%s:%d" % (fdec.file, fdec.line), fn="cbor_stream_decode", key="simple:%02X" % c)
                if not decodable:
                    continue
            fin = [o for o in by_byte[c] if o["status"] == ("c", FIN)]
            ok = bool(fin)
            detail = "" if ok else "decoder has no FINISHED path for byte 0x%02X emitted by %s" % (c, n)
            for o in fin:
                for rule, okk, det in DR.check_byte(prog, c, ref, o, enumv, loader_ext):
                    if not okk:
                        ok = False
                        detail = det
            # consumed bytes = bytes written
            nm += 1
            chk.ob(rule_mirror, "%s -> 0x%02X" % (n, c), ok, "%s:%d" % (fdec.file, fdec.line), fn=n, key="%s:%02X" % (n, c), detail=detail)
    return nm
