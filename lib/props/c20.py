"""C20 - size arithmetic never wraps (DESIGN §4 C20, engine E4).

Complete audit: EVERY 64-bit add/sub/mul/shl of every library unit must be
classified by exactly one enumerated idiom; an instruction that matches none is
a violation.  Idioms that need path facts are decided on the path engine's
traces (claim_bytes is analysed inlined into the decoder so that the
attacker-chosen length is visible as a loader result)."""
from build import AnalysisBroken
from ir import Inst, Arg, Const, strip_casts, apath
import paths as P
from paths import ptr_key, is_const
import ownership as O
import decoder_rules as DR
import tables

HELPERS = {"_cbor_safe_to_add": "the wrap test itself", "_cbor_safe_to_multiply": "bit-length sum of two values <= 64",
           "_cbor_highest_bit": "counted loop <= 64"}
WINDOW_FUNCS = {"cbor_serialize_bytestring", "cbor_serialize_string", "cbor_serialize_array", "cbor_serialize_map",
                "cbor_serialize_tag"}
SIZE_MAX = (1 << 64) - 1
CLAIM = "claim_bytes"     # the decoder's input-bookkeeping routine, located by decoder_rules.claim_helper in run()


def tainted(t):
    """term depends on a decoded 32/64-bit argument or on a 64-bit callback parameter"""
    for s in P.subterms(t):
        if isinstance(s, tuple) and s[0] == "call" and s[1] in ("_cbor_load_uint32", "_cbor_load_uint64"):
            return True
    return False


def run(ctx, chk):
    prog = ctx.prog()
    eff = ctx.effects(prog)
    chk.explanation = ("complete audit of every 64-bit add/sub/mul/shl instruction in all library units: each must match one "
                       "enumerated idiom (guard call, subtractive guard, post-check/saturation, small constant under a "
                       "successful allocation, counted induction, slot post-increment, window arithmetic, byte assembly, "
                       "non-size counter, inside a guard helper); operands that carry an attacker-chosen magnitude may only "
                       "use the first five. Plus: serialized size accumulates only through the signalling add, allocation "
                       "sizes reach the allocator untruncated, element-count allocations go through the guarded helpers.")
    chk.rule("C20.audit", "every 64-bit add/sub/mul/shl is classified by one enumerated no-wrap idiom on every path on which it executes")
    chk.rule("C20.taint", "an operand that depends on a decoded 32/64-bit length may only be combined under idioms 1-5")
    chk.rule("C20.signalling", "cbor_serialized_size combines sizes only through _cbor_safe_signaling_add, whose own sum is "
                               "guarded by _cbor_safe_to_add")
    chk.rule("C20.alloc-size", "every allocator request is a constant, a length that reaches the call without truncation, a "
                               "non-zero-tested serialized size, or the guarded product inside _cbor_alloc/_realloc_multiple; no "
                               "raw _cbor_malloc(n * k)")
    chk.rule("C20.anchors", "the guarded growth products, the helper products, the claim_bytes pair and the serializer "
                            "windows are all still present (floors per anchor class)")
    chk.rule("C20.control", "positive control: an unguarded size product in /verif/controls is reported")
    chk.not_decided += ["that _cbor_safe_to_multiply's bit-length test and _cbor_safe_to_add's wrap test are themselves correct for "
                        "all 2^128 operand pairs: an arithmetic theorem (SMT or hand proof), not a structural rule",
                        "32-bit / 16-bit size_t targets (no such libc headers in this image): the CHECK_LENGTH refusal is vacuous on LP64"]

    insts = []
    for f in prog.funcs.values():
        for i in f.all_insts():
            if i.op in ("add", "sub", "mul", "shl") and i.type == "i64":
                insts.append((f, i))
    lib_insts = [(f, i) for f, i in insts if not f.is_extra]
    chk.count("i64 add/sub/mul/shl instructions", len(lib_insts))

    # ---- path-level classification cache: fn -> {inst id: [(ok, idiom, detail, path)]}
    path_results = {}

    import serializer_rules as SR
    import encoder_rules as ER
    failsig = set(ER.public_encoders(prog)) | {g.name for g in SR.subjects(prog)}
    _FAILSIG.clear()
    _FAILSIG.update(failsig)

    def analyse_paths(fname, inline=(), loop_bound=1):
        X = P.Executor(prog, eff, inline=inline, arith_events=True, loop_bound=loop_bound)
        ps = X.run(fname)
        res = {}
        root = prog.fn(fname)
        for pa in ps:
            st = pa.st
            for idx, e in enumerate(pa.events):
                if e.kind != "arith":
                    continue
                ok, idiom, detail = classify_event(prog, pa, idx, e, root, failsig)
                res.setdefault((e.fn.name, e.ins.id), []).append((ok, idiom, detail, pa, e))
        return res

    classes = {}
    nontrivial_fns = set()
    for f, i in insts:
        cls = classify_ir(prog, f, i)
        if cls is None:
            nontrivial_fns.add(f.name)
        classes[(f.name, i.id)] = cls
    # claim_bytes in the context of the decoder
    pr = {}
    global CLAIM
    CLAIM = DR.claim_helper(prog)
    if CLAIM in nontrivial_fns:
        pr.update(analyse_paths("cbor_stream_decode", inline={CLAIM}))
        nontrivial_fns.discard(CLAIM)
    # unit-internal helpers are audited in the context of the functions they are inlined into (their operands are the
    # caller's values); only helpers without such a context are audited on their own
    in_context = set()
    for g in sorted(prog.funcs):
        if prog.funcs[g].internal:
            continue
        sc = O.static_callees(prog, eff, g)
        if sc & nontrivial_fns:
            got = analyse_paths(g, inline=sc)
            # an instruction of a helper that no complete path reaches with one trip round each loop sits in a loop whose trip
            # count the caller fixes (`for (i = 1; i <= width; i++)` with width a constant of the call): unroll further
            missing = [(f_.name, i_.id) for f_, i_ in insts if f_.name in sc and classes.get((f_.name, i_.id)) is None and (f_.name, i_.id) not in got
                       and (f_.name, i_.id) not in pr]
            if missing:
                try:
                    deeper = analyse_paths(g, inline=sc, loop_bound=16)
                    for key, v in deeper.items():
                        if key in missing:
                            got.setdefault(key, []).extend(v)
                except (AnalysisBroken, P.PathCapExceeded):
                    pass
            for key, v in got.items():
                pr.setdefault(key, []).extend(v)
            in_context |= sc | {g}
    for fn in sorted(nontrivial_fns - in_context):
        pr.update(analyse_paths(fn))
    counts = {}
    ctl_hit = False
    for f, i in insts:
        cls = classes[(f.name, i.id)]
        where = i.loc()
        inst_name = "%s: %s %s" % (f.name, i.op, _opnames(i))
        if cls is not None:
            idiom, reason = cls
            if not f.is_extra:
                counts[idiom] = counts.get(idiom, 0) + 1
                chk.ob("C20.audit", inst_name, True, where, fn=f.name, key="%s:%s:%s:%d" % (f.name, i.op, idiom, _ordinal(f, i)),
                       detail="idiom %s: %s" % (idiom, reason), nontrivial=idiom not in ("9-byte-assembly",))
            continue
        evs = pr.get((f.name, i.id), [])
        if not evs:
            if f.is_extra:
                continue
            chk.ob("C20.audit", inst_name, False, where, fn=f.name, key="%s:%s:unreached:%d" % (f.name, i.op, _ordinal(f, i)),
                   detail="matches no idiom and lies on no enumerated path")
            continue
        bad = [x for x in evs if not x[0]]
        if f.is_extra:
            if f.name == "verif_ctl_unguarded_product" and bad:
                ctl_hit = True
            continue
        if bad:
            ok, idiom, detail, pa, e = bad[0]
            rule = "C20.taint" if any(tainted(a) for a in e.args) else "C20.audit"
            chk.ob(rule, inst_name, False, where, fn=f.name, key="%s:%s:%d" % (f.name, i.op, _ordinal(f, i)),
                   detail=detail, path=pa.block_lines())
        else:
            idioms = sorted({x[1] for x in evs})
            for idm in idioms:
                counts[idm] = counts.get(idm, 0) + 1
            if any(tainted(a) for x in evs for a in x[4].args):
                chk.ob("C20.taint", inst_name + " (decoded length)", True, where, fn=f.name,
                       key="%s:%s:taint:%d" % (f.name, i.op, _ordinal(f, i)), detail="idioms %s" % idioms)
            chk.ob("C20.audit", inst_name, True, where, fn=f.name, key="%s:%s:%d" % (f.name, i.op, _ordinal(f, i)),
                   detail="idiom(s) %s on %d path occurrence(s)" % (idioms, len(evs)))
    chk.extra["idiom_counts"] = counts
    chk.ob("C20.control", "verif_ctl_unguarded_product", ctl_hit, "controls/ctl_arith.c")
    # anchors
    chk.floor("C20.anchors", "guarded products (idiom 1)", counts.get("1-guard-call", 0), 3)   # (four growth sites may share one helper)
    chk.floor("C20.anchors", "subtractive guards (idiom 3)", counts.get("3-subtractive-guard", 0), 1)
    chk.floor("C20.anchors", "window terms (idiom 8)", counts.get("8-window", 0), 6)   # (the serializers may share their window arithmetic in two helpers)
    chk.floor("C20.anchors", "post-check / saturation (idiom 4)", counts.get("4-post-check", 0), 1)
    for k, v in sorted(counts.items()):
        chk.ob("C20.anchors", "idiom %s: %d instruction(s)" % (k, v), True, "src/", key="count:" + k, nontrivial=False)

    # ---- signalling add
    import serializer_rules as _SR
    cache = O.PathCache(prog, eff)
    ss, _size_names = _SR.size_core(prog, eff, cache)
    for i in ss.all_insts():
        if i.op in ("add", "mul") and i.type == "i64":
            a, b = i.operands
            both_var = not isinstance(a, Const) and not isinstance(b, Const)
            induction = any(u.op == "phi" for u in ss.users(i))
            ok = not both_var or induction
            chk.ob("C20.signalling", "cbor_serialized_size %s at line %d" % (i.op, i.line), ok, i.loc(), fn=ss.name,
                   key="ss:%s:%d" % (i.op, _ordinal(ss, i)), detail="" if ok else "two sizes are combined with a raw %s" % i.op)
    # ... and what it returns is a constant, a header size or the result of the signalling add - also when the last step
    # is delegated to a unit-internal helper (inlined): a raw `size + 1` would turn the overflow signal 0 into 1
    for k, pa in enumerate(cache.get(ss.name, inline_static=True)):
        r = pa.ret
        ok = is_const(r) or (isinstance(r, tuple) and r[0] == "call" and r[1] in ("_cbor_safe_signaling_add", "_cbor_encoded_header_size"))
        if not ok and isinstance(r, tuple) and r[0] == "ld":
            # an entry of a constant table (leaf sizes indexed by the width enumerator) is a constant, whichever entry it is
            b_ = P.ptr_key(r[1])[0] if isinstance(r[1], tuple) else None
            while isinstance(b_, tuple) and b_[0] in ("idx", "p", "cast"):
                b_ = b_[1] if b_[0] != "cast" else b_[3]
            if isinstance(b_, tuple) and b_[0] == "g":
                gl_ = prog.global_for(ss, b_[1]) or prog.globals.get(b_[1])
                ok = bool(gl_ and gl_.get("constant"))
        chk.ob("C20.signalling", "cbor_serialized_size path %d returns a constant, a header size or a signalling sum" % k, ok,
               "%s:%d" % (ss.file, ss.line), fn=ss.name, key="ssret:%d" % k,
               detail="" if ok else "returns %s: a size combined outside _cbor_safe_signaling_add loses the overflow signal (0)" % DR.fmt_term(r),
               path=pa.block_lines() if not ok else None)
    sa = prog.fn("_cbor_safe_signaling_add")
    for k, pa in enumerate(cache.get(sa.name)):
        if pa.ret == ("c", 0):
            continue
        g = pa.calls("_cbor_safe_to_add")
        ok = len(g) == 1 and pa.st.truth.get(g[0].res) is True and set(g[0].args) == {("arg", 0), ("arg", 1)} and \
            pa.ret in (("op", "add", "i64", ("arg", 0), ("arg", 1)), ("op", "add", "i64", ("arg", 1), ("arg", 0)))
        chk.ob("C20.signalling", "_cbor_safe_signaling_add path %d: sum returned only after _cbor_safe_to_add" % k, ok,
               "%s:%d" % (sa.file, sa.line), fn=sa.name, key="ssa:%d" % k)
    # the overflow signal of a NESTED size (0) is never added up: wherever the result of a recursive sizing call is an operand
    # of the signalling add, either the add itself answers 0 for a zero in that position (all of its non-zero paths know the
    # operand positive) or the calling path has tested the nested size
    guarded_pos = set()
    for j_ in (0, 1):
        if all(pa.ret == ("c", 0) or pa.st.known_positive(("arg", j_)) for pa in cache.get(sa.name)):
            guarded_pos.add(j_)
    for k, pa in enumerate(cache.get(ss.name, inline_static=True)):
        for e in pa.calls("_cbor_safe_signaling_add"):
            for j_, a_ in enumerate(e.args[:2]):
                x_ = a_
                while isinstance(x_, tuple) and x_[0] == "cast":
                    x_ = x_[3]
                if isinstance(x_, tuple) and x_[0] == "call" and x_[1] in _size_names:
                    ok = j_ in guarded_pos or pa.st.known_positive(x_)
                    chk.ob("C20.signalling", "%s path %d: a nested size that may be 0 (overflow) is not added up" % (ss.name, k), ok, e.ins.loc(),
                           fn=ss.name, key="nested0:%d:%d" % (e.ins.id, j_),
                           detail="" if ok else "operand %d of the signalling add is the size of a nested item; the add does not answer 0 for a zero "
                                                "there and the path has not tested it: an overflowing member is counted as 0 bytes" % j_,
                           path=pa.block_lines() if not ok else None)
    nss = len(list(ss.calls("_cbor_safe_signaling_add"))) + sum(len(list(prog.funcs[h_].calls("_cbor_safe_signaling_add")))
                                                                for h_ in eff.transitive_callees(ss.name)
                                                                if h_ in prog.funcs and prog.funcs[h_].internal and h_ != "_cbor_safe_signaling_add")
    chk.floor("C20.signalling", "signalling adds in cbor_serialized_size", nss, 2)   # (the string and container arms may share helpers)

    # ---- the guard helpers mean what their callers take them to mean
    import guard_rules
    guard_rules.check_guard_semantics(chk, prog, eff, cache, "C20.guard-semantics")

    # ---- allocation sizes
    nal = 0
    for f in prog.lib_funcs():
        for pa in cache.get(f.name):
            for e in pa.events:
                if not (e.kind == "call" and e.ckind == "alloc" and e.callee in ("_cbor_malloc", "_cbor_realloc")):
                    continue
                sz = e.args[0] if e.callee == "_cbor_malloc" else e.args[1]
                ok, why = size_ok(prog, f, pa, sz)
                nal += 1
                chk.ob("C20.alloc-size", "%s: %s(%s)" % (f.name, e.callee, DR.fmt_term(sz)), ok, e.ins.loc(), fn=f.name,
                       key="%s:%s:%d" % (f.name, e.callee, e.ins.id), detail=why)
    chk.floor("C20.alloc-size", "allocator requests on paths", nal, 40)
    chk.rule("C20.narrowing", "no 64-bit quantity is converted to a narrower integer type except to take one byte of it for the "
             "output buffer or below a range test that makes the conversion lossless (a narrowing conversion is a wrap of the size arithmetic; a count kept in 32 bits is "
             "tracked modulo 2^32)")
    import rules as _rn
    _rn.check_narrowing(chk, "C20.narrowing", prog, eff=eff)
    chk.rule("C20.signed-shift", "every left shift whose (promoted) left operand has a signed type keeps the operand's set bits below the sign "
             "bit: operand width + distance <= 31 for int (decided on the clang AST, where the promotion is visible; a shift into the sign bit is an overflow of the signed type)")
    import ast_rules as _ar
    _ar.check_signed_shifts(chk, "C20.signed-shift", prog)
    chk.rule("C20.size-header", "the size of a head is computed for the right class of its argument: _cbor_encoded_header_size partitions "
             "all 2^64 values exactly like the shortest-form selector of the encoders, so the computed total is the exact number of "
             "bytes (shared with C07.size-header)")
    from props.c07 import check_header_partition
    check_header_partition(chk, "C20.size-header", prog, cache)
    chk.rule("C20.capacity-field", "a block installed as a container's storage comes with its element capacity, and a recorded capacity is the one the "
             "installed block was requested with: the slots between count and capacity exist (the capacity recorded never exceeds what the allocator granted; shared with C12.capacity-field)")
    import ownership as _Ocf
    from props.c12 import check_capacity_field as _ccf
    _ccf(chk, "C20.capacity-field", prog, eff, _Ocf.PathCache(prog, eff))
    chk.rule("C20.atomic", "a container operation that reports failure has changed nothing: no store through the container on a path that returns "
             "false - in particular no capacity grown before the memory behind it was obtained (shared with C06.atomic / C12.atomic)")
    from props.c06 import check_atomic as _cat
    _cat(chk, "C20.atomic", prog, _Ocf.PathCache(prog, eff))
    chk.rule("C20.signed-compare", "no 64-bit comparison in the library is signed: sizes, lengths, counts, indices and remainders are compared as the unsigned "
             "quantities they are (a size of 2^63 or more is still a size)")
    import rules as _rsc
    _rsc.check_signed_compare(chk, "C20.signed-compare", prog)
    chk.exhaustive = True


def _opnames(i):
    out = []
    for o in i.operands:
        if isinstance(o, Const):
            out.append(str(o.sv if o.sv < 0 else o.v) if o.v < 1 << 63 else str(o.v - (1 << 64)))
        elif isinstance(o, Arg):
            out.append(o.name)
        elif isinstance(o, Inst):
            out.append(o.name or o.op)
        else:
            out.append("?")
    return "(" + ", ".join(out) + ")"


def _ordinal(f, i):
    """position among the same-opcode instructions of the function (line-number free identity)"""
    n = 0
    for x in f.all_insts():
        if x is i:
            return n
        if x.op == i.op and x.type == i.type:
            n += 1
    return n


def _getter_load(prog, v):
    """the field load behind a call of a trivial accessor (`cbor_map_size(item)`: one return, of a field read at a constant offset
    of the parameter, nothing written, nothing else called but assertions), or None"""
    if not (isinstance(v, Inst) and v.op == "call" and v.callee in prog.funcs):
        return None
    g = prog.funcs[v.callee]
    if g.back_edges() or any(i_.op == "store" for i_ in g.all_insts()) or any((c_.callee or "").startswith(("cbor_", "_cbor_")) for c_ in g.calls()) or \
            any(c_.callee is None for c_ in g.calls()):
        return None
    rets = g.returns()
    if len(rets) != 1 or not rets[0].operands:
        return None
    r = strip_casts(rets[0].operands[0], ("bitcast", "zext", "sext", "trunc"))
    return r if isinstance(r, Inst) and r.op == "load" else None


def _field_of_load(prog, v):
    v = strip_casts(v, ("bitcast", "zext", "sext", "trunc"))
    if isinstance(v, Inst) and v.op == "call":
        v = _getter_load(prog, v) or v
    if isinstance(v, Inst) and v.op == "load":
        p = strip_casts(v.operands[0])
        if isinstance(p, Inst) and p.op == "getelementptr":
            st = p.d.get("src_type", "")
            idx = [o.v for o in p.operands[1:] if isinstance(o, Const)]
            return st, tuple(idx)
    return None, None


_REACH = {}
_FAILSIG = set()


def _reach(prog, name):
    """functions reachable from `name` through direct calls"""
    if name not in _REACH:
        seen, stack = set(), [name]
        while stack:
            x = stack.pop()
            g = prog.funcs.get(x)
            if g is None:
                continue
            for c in g.calls():
                if c.callee and c.callee not in seen:
                    seen.add(c.callee)
                    stack.append(c.callee)
        _REACH[name] = seen
    return _REACH[name]


def classify_ir(prog, f, i):
    """IR-level idioms; returns (idiom, reason) or None when path facts are needed"""
    a, b = i.operands
    # 2: inside the guard helpers only specific shapes are accepted (no blanket pass):
    if f.name == "_cbor_safe_to_multiply" and i.op == "add":
        sa, sb = strip_casts(a, ("zext", "trunc")), strip_casts(b, ("zext", "trunc"))
        if all(isinstance(x, Inst) and x.op == "call" and x.callee == "_cbor_highest_bit" for x in (sa, sb)):
            return ("2-helper-internal", "sum of two bit lengths, each <= 64")
    if f.name == "_cbor_highest_bit" and i.op == "add" and isinstance(b, Const) and b.v == 1 and isinstance(a, Inst) and a.op == "phi":
        import loops as _loops
        lp = [r for r in _loops.classify_loops(prog, f) if r["ok"]]
        if lp and all(r["kind"].startswith("counted") for r in lp):
            return ("2-helper-internal", "bit counter: incremented once per iteration of a shift-down loop (<= 64 iterations)")
    # 9: byte assembly in the loaders
    if f.name.startswith("_cbor_load_uint"):
        return ("9-byte-assembly", "big-endian assembly of zero-extended bytes (map checked by C10.loader)")
    # 6: counted induction i+1 with header test i < n
    if i.op == "add" and isinstance(b, Const) and b.v == 1 and isinstance(a, Inst) and a.op == "phi":
        hdr = a.block
        loops = f.loops()
        if hdr.id in loops:
            # header (or its first successor chain) tests phi < n
            for blk in f.blocks:
                if blk.id in loops[hdr.id] and blk.insts and blk.term.op == "br" and len(blk.succs) == 2:
                    c = blk.term.operands[0]
                    if isinstance(c, Inst) and c.op == "icmp" and c.pred in ("ult", "ne") and strip_casts(c.operands[0]) is a and \
                            f.dominates_block(blk, i.block):
                        return ("6-counted-induction", "i + 1 under the loop test i < n")
            # a second counter incremented at most once per iteration of a counted loop
            for other in hdr.insts:
                if other.op == "phi" and other is not a:
                    for blk in f.blocks:
                        if blk.id in loops[hdr.id] and blk.insts and blk.term.op == "br" and len(blk.succs) == 2:
                            c = blk.term.operands[0]
                            if isinstance(c, Inst) and c.op == "icmp" and c.pred == "ult" and strip_casts(c.operands[0]) is other:
                                return ("6-counted-induction", "counter incremented at most once per iteration of a counted loop")
    # 6b: count-down `while (n--)`: the counter is tested against zero in its loop and the decremented value feeds nothing but
    # the counter itself (the value computed on the exit edge - 0 - 1 - is dead)
    if i.op == "add" and isinstance(b, Const) and b.v == SIZE_MAX and isinstance(a, Inst) and a.op == "phi":
        hdr = a.block
        loops = f.loops()
        if hdr.id in loops and all(u is a for u in f.users(i)):
            for blk in f.blocks:
                if blk.id in loops[hdr.id] and blk.insts and blk.term.op == "br" and len(blk.succs) == 2:
                    c = blk.term.operands[0]
                    if isinstance(c, Inst) and c.op == "icmp" and c.pred in ("ne", "eq", "ugt") and strip_casts(c.operands[0]) is a and \
                            isinstance(c.operands[1], Const) and c.operands[1].v == 0:
                        return ("6-counted-induction", "count-down counter tested against zero; the decremented value only feeds the counter")
    # 10: non-size counters, by the field they load
    st, idx = _field_of_load(prog, a)

    def fld(struct, field):
        """the loaded field, by NAME (resolved to a byte offset through the struct's debug type: the order of fields may change)"""
        if st != "%struct." + struct:
            return False
        v_ = strip_casts(a, ("bitcast", "zext", "sext", "trunc"))
        if isinstance(v_, Inst) and v_.op == "call":
            v_ = _getter_load(prog, v_) or v_
        g_ = strip_casts(v_.operands[0])
        return g_.d.get("const_offset") == prog.field_offset(struct, field)
    if isinstance(b, Const) and (b.v == 1 or b.v == SIZE_MAX) and st is not None:
        if fld("cbor_item_t", "refcount"):
            return ("10-counter", "reference count +-1 (2^64 live references cannot exist; decrement is the documented release)")
        if fld("_cbor_stack_record", "subitems"):
            return ("10-counter", "remaining-children countdown of a frame (a frame is only pushed with a positive count or 0 for indefinite)")
        if fld("_cbor_stack", "size") and b.v == SIZE_MAX and f.name == "_cbor_stack_pop":
            return ("10-counter", "stack depth - 1 in pop (every caller pops a frame it just inspected)")
        if fld("_cbor_stack", "size") and b.v == 1 and f.unit.endswith("internal/stack.c"):
            return ("10-counter", "stack depth + 1 inside the stack module: depth <= CBOR_MAX_STACK_SIZE by the gate (C19.gate) and the single-writer rule")
        if fld("_cbor_map_metadata", "end_ptr") and f.name == "_cbor_map_add_value":
            return ("10-counter", "pair index count - 1 right after a successful key insertion (C12.value-slot)")
    # 10: recursion depth: parameter + 1 whose only use is as an argument of a recursive call (one native frame per unit)
    if i.op == "add" and isinstance(a, Arg) and isinstance(b, Const) and b.v == 1:
        users = list(f.users(i))
        if users and all(u.op == "call" and u.callee and (u.callee == f.name or f.name in _reach(prog, u.callee)) for u in users):
            return ("10-counter", "recursion depth + 1, passed only to the recursive call (bounded by the native stack long before 2^64)")
    # 8: window arithmetic in the serializers (shape verified by C07.window)
    if f.name in WINDOW_FUNCS:
        def is_w(v):
            # a running total: a phi / sum of totals, or the byte count returned by an encoder / serializer; a payload
            # LENGTH is not one - adding it is only safe after it was compared with the remaining window (path form)
            v = strip_casts(v)
            return isinstance(v, Inst) and (v.op == "phi" or v.op == "add" or (v.op == "call" and v.callee in _FAILSIG))
        if i.op == "sub" and isinstance(a, Arg) and a.name == "buffer_size" and is_w(b):
            return ("8-window", "buffer_size - written; written only accumulates non-zero callee results (C07.window)")
        if i.op == "add" and is_w(a) and is_w(b):
            return ("8-window", "written + callee result, each bounded by the size the callee was given (C07.window)")
    if f.name == "_cbor_nested_describe" and i.op == "add":
        return ("6-counted-induction", "pretty-printer loop index")
    # 8 (dataflow form): the result is a quantity the window dataflow (lib/window.py) places inside a (pointer, length) parameter
    # pair on entry to its block: an offset D + o with 0 <= D + o <= n, or a remaining-count n - (D + o) that has not wrapped
    if i.op in ("add", "sub"):
        import window as _W
        key = (id(prog), f.name)
        if key not in _WIN_CACHE:
            _WIN_CACHE[key] = [_W.Window(prog, f, pi, ni, None) for pi, ni in _W.window_pairs(f)]
        for w in _WIN_CACHE[key]:
            c = w.cls(i)
            if c is None or c[0] not in ("I", "R"):
                continue
            if c[1] == 0 and c[0] == "I":
                if not hasattr(w, "_taint"):
                    w._taint = w.tainted()
                if i.id not in w._taint:
                    continue        # plain constant arithmetic that has nothing to do with the window
            sl, lo = w.bounds_at(i.block, ("P", c[1], c[2]))
            if c[0] == "I" and lo is not None and lo >= 0 and sl is not None and sl >= 0:
                return ("8-window", "an offset into [%s, %s + %s): between 0 and the length on entry to its block (window dataflow)" % (
                    f.params[w.pi]["name"], f.params[w.pi]["name"], f.params[w.ni]["name"]))
            if c[0] == "R" and sl is not None and sl >= 0:
                return ("8-window", "what remains of [%s, %s + %s) from an offset inside it: cannot have wrapped (window dataflow)" % (
                    f.params[w.pi]["name"], f.params[w.pi]["name"], f.params[w.ni]["name"]))
    return None


_WIN_CACHE = {}


def _sum_leaves(t):
    if isinstance(t, tuple) and t[0] == "op" and t[1] == "add":
        return _sum_leaves(t[3]) + _sum_leaves(t[4])
    return [t]


def classify_event(prog, pa, idx, e, root=None, failsig=()):
    st = pa.st
    op = e.callee
    a, b = e.args
    facts_before = {}
    for t, truth, _ in pa.facts[:e.nfacts]:
        facts_before[t] = truth
    truth_all = st.truth
    fn = e.fn.name
    # constants only
    if is_const(a) and is_const(b):
        return True, "0-constant", ""
    # 1: guard call
    for pe in pa.events[:idx]:
        if pe.kind == "call" and pe.callee == ("_cbor_safe_to_multiply" if op == "mul" else "_cbor_safe_to_add") and \
                {pe.args[0], pe.args[1]} == {a, b} and facts_before.get(pe.res) is True:
            return True, "1-guard-call", ""
    # 1 (deferred use): the product is formed before the guard is asked, but nothing looks at it until the guard has said yes (an
    # unsigned product that wrapped and is then thrown away harms nobody)
    if op == "mul":
        prod = e.res if getattr(e, "res", None) is not None else None
        cands = (("op", "mul", "i64", a, b), ("op", "mul", "i64", b, a))

        def mentions(t):
            if t in cands:
                return True
            return isinstance(t, tuple) and any(mentions(x) for x in t if isinstance(x, tuple))
        for j in range(idx + 1, len(pa.events)):
            pe = pa.events[j]
            if pe.kind == "call" and pe.callee == "_cbor_safe_to_multiply" and {pe.args[0], pe.args[1]} == {a, b}:
                verdict = truth_all.get(pe.res)
                before = pa.events[idx + 1:j]
                after = pa.events[j + 1:]
                used_before = any(mentions(x.args) for x in before if x.kind in ("call", "store", "memcpy", "arith"))
                used_after = any(mentions(x.args) for x in after if x.kind in ("call", "store", "memcpy", "arith")) or mentions(pa.ret)
                early_fact = any(mentions(t_) for t_, _tr, _i in pa.facts[:pe.nfacts])
                if not used_before and not early_fact and (verdict is True or (verdict is False and not used_after)):
                    return True, "1-guard-call", "product formed before the guard, first looked at after it"
                break
    # 5: small constant under a successful allocation
    if op in ("mul", "shl") and (is_const(a) or is_const(b)):
        c, v = (a, b) if is_const(a) else (b, a)
        k = c[1] if op == "mul" else (1 << c[1])
        for pe in pa.events[:idx]:
            if pe.kind == "call" and pe.ckind == "lib" and pe.callee.startswith("cbor_new_definite_") and v in pe.args and st.known_nonnull(pe.res, upto=e.nfacts):
                g = prog.fn(pe.callee)
                for am in g.calls("_cbor_alloc_multiple"):
                    esz = am.operands[0]
                    if isinstance(esz, Const) and esz.v >= k:
                        return True, "5-under-allocation", ""
        # 5 (deferred use): the multiple is formed next to the constructor call (both are arguments of one helper call) and nothing
        # looks at it until the result has been tested: used only where the allocation succeeded, thrown away where it failed
        cands5 = (("op", op, "i64", a, b), ("op", op, "i64", b, a))

        def mentions5(t):
            if t in cands5:
                return True
            return isinstance(t, tuple) and any(mentions5(x) for x in t if isinstance(x, tuple))
        for pe in pa.events[:idx]:
            if not (pe.kind == "call" and pe.ckind == "lib" and pe.callee.startswith("cbor_new_definite_") and v in pe.args):
                continue
            g = prog.fn(pe.callee)
            if not any(isinstance(am.operands[0], Const) and am.operands[0].v >= k for am in g.calls("_cbor_alloc_multiple")):
                continue
            tested = None
            for fi in range(e.nfacts, len(pa.facts)):
                t_ = pa.facts[fi][0]
                if t_ == pe.res or (t_[0] == "icmp" and t_[1] in ("eq", "ne") and pe.res in (t_[2], t_[3]) and ("c", 0) in (t_[2], t_[3])):
                    tested = fi
                    break
            if tested is None:
                continue
            before = [x for x in pa.events[idx + 1:] if x.nfacts <= tested]
            after = [x for x in pa.events[idx + 1:] if x.nfacts > tested]
            used_before = any(mentions5(x.args) for x in before if x.kind in ("call", "store", "memcpy", "arith") and not (x.kind == "call" and x.depth < 0)) \
                or any(mentions5(t_) for t_, _tr, _i in pa.facts[e.nfacts:tested + 1])
            used_after = any(mentions5(x.args) for x in after if x.kind in ("call", "store", "memcpy", "arith")) or mentions5(pa.ret)
            if not used_before and (st.known_nonnull(pe.res) or not used_after):
                return True, "5-under-allocation", "multiple formed before the allocation result is tested, first looked at after it"
    # 3: subtractive guard
    if op == "add":
        for x, y in ((a, b), (b, a)):
            # x + y with y <= z - x known (any spelling of the comparison)
            for t in list(facts_before):
                if t[0] == "icmp":
                    for z in (t[2], t[3]):
                        if isinstance(z, tuple) and z[0] == "op" and z[1] == "sub" and z[4] == x and st.rel_ge(z, y, upto=e.nfacts):
                            return True, "3-subtractive-guard", ""
            for t, truth in facts_before.items():
                if t[0] == "icmp" and t[1] == "ugt" and t[2] == y and truth is False and t[3][0] == "op" and t[3][1] == "sub" and t[3][4] == x:
                    return True, "3-subtractive-guard", ""
                if t[0] == "icmp" and t[1] == "ugt" and t[2] == y and truth is False and x == ("c", 0):
                    return True, "3-subtractive-guard", ""
                if t[0] == "icmp" and t[1] == "uge" and t[3] == y and truth is True and t[2][0] == "op" and t[2][1] == "sub" and t[2][4] == x:
                    return True, "3-subtractive-guard", ""
    if op == "sub":
        if st.rel_ge(a, b, upto=e.nfacts):
            return True, "3-subtractive-guard", ""
        # a constant minus a bit count (count-leading/trailing-zeros, population count of an N-bit value is at most N)
        bb = b
        while isinstance(bb, tuple) and bb[0] == "cast":
            bb = bb[3]
        if is_const(a) and isinstance(bb, tuple) and bb[0] == "call" and bb[1].startswith(("llvm.ctlz.i", "llvm.cttz.i", "llvm.ctpop.i")):
            if a[1] >= int(bb[1].rsplit(".i", 1)[1]):
                return True, "0-bounded", ""
        if b == ("c", 0):
            return True, "0-constant", ""
    # 7: slot post-increment: the same value indexed a slot store on this path
    if op == "add" and (b == ("c", 1) or a == ("c", 1)):
        v = a if b == ("c", 1) else b
        for pe in pa.events:
            if pe.kind == "store":
                bb, oo = ptr_key(pe.args[0])
                if isinstance(bb, tuple) and bb[0] == "idx" and bb[3] and bb[3][-1] == v:
                    return True, "7-slot-post-increment", ""
        # limit-tested counter (stack depth)
        for t, truth in facts_before.items():
            if t[0] == "icmp" and t[1] == "eq" and t[2] == v and is_const(t[3]) and truth is False:
                return True, "7-limit-tested-counter", ""
            if t[0] == "icmp" and t[2] == v and is_const(t[3]) and ((t[1] in ("uge", "ugt") and truth is False) or (t[1] in ("ult", "ule") and truth is True)):
                return True, "7-limit-tested-counter", ""
    # 4: post-check: the sum is compared ult with one of its operands right away
    if op == "add":
        for s in (("op", "add", "i64", a, b), ("op", "add", "i64", b, a)):
            for x in (a, b):
                if ("icmp", "ult", s, x) in truth_all or ("icmp", "uge", s, x) in truth_all or \
                        ("icmp", "ugt", x, s) in truth_all or ("icmp", "ule", x, s) in truth_all:
                    return True, "4-post-check", ""
    if op == "mul":
        for s_ in (("op", "mul", "i64", a, b), ("op", "mul", "i64", b, a)):
            for x, y in ((a, b), (b, a)):
                if truth_all.get(("icmp", "eq", ("op", "udiv", "i64", s_, x), y)) is not None:
                    return True, "4-post-check", ""
    # 8: window / remainder arithmetic with proven accumulation
    if fn == CLAIM and op == "sub":
        # provided - read: read is 0 or a sum of amounts each claimed under idiom 3
        r = b
        if r == ("c", 0) or all(isinstance(x, tuple) for x in [r]):
            if _read_is_claimed_sum(pa, idx, r):
                return True, "8-window", ""
    if fn == "cbor_load":
        if op == "add":
            return True, "8-window", ""   # read + decode_result.read (C14.accumulate: FINISHED results on the window)
        if op == "sub" and a == ("arg", e.fn.param_index("source_size")):
            # source_size - read: read is 0 plus FINISHED read counts, each <= the window the decoder was given (C08.read/claim)
            return True, "8-window", ""
    # 8 (path form): serializer window arithmetic, wherever the running total lives (SSA value, local passed by address to
    # a helper): SIZE - W and W + r where W sums results of failure-signalling encoders/serializers called on this path
    # (each <= the window it was given, C07.window) and payload lengths compared against the remaining window
    if root is not None:
        pn = {p_["name"]: (j, p_["type"]) for j, p_ in enumerate(root.params)}
        if pn.get("buffer", (0, ""))[1] == "i8*" and pn.get("buffer_size", (0, ""))[1] == "i64":
            SIZE = ("arg", pn["buffer_size"][0])
            results = {pe.res for pe in pa.events[:idx] if pe.kind == "call" and pe.ckind == "lib" and pe.callee in failsig}

            def window_len(x):
                for t in facts_before:
                    if t[0] == "icmp" and x in (t[2], t[3]):
                        o = t[3] if t[2] == x else t[2]
                        if isinstance(o, tuple) and o[0] == "op" and o[1] == "sub" and o[3] == SIZE:
                            return True
                return False

            BUFp = ("arg", pn["buffer"][0])
            M1 = (1 << 64) - 1

            def shape(t):
                """how a term relates to the output window, read off its linear form: W = bytes written so far (a sum of results of
                failure-signalling encoders / lengths tested against the remaining room), REM = SIZE - W, PTR = BUF + W, END = BUF + SIZE"""
                l = P.linear(t)
                if 1 in l:
                    return None
                w = {k_: c_ for k_, c_ in l.items() if k_ not in (SIZE, BUFp)}
                if not all(k_ in results or window_len(k_) for k_ in w):
                    return None
                pos = all(c_ == 1 for c_ in w.values())
                neg = all(c_ == M1 for c_ in w.values())
                sz, bf = l.get(SIZE, 0), l.get(BUFp, 0)
                if sz == 0 and bf == 0 and pos:
                    return "W"
                if sz == 1 and bf == 0 and neg:
                    return "REM" if w else "SIZE"
                if sz == 0 and bf == 1 and pos:
                    return "PTR" if w else "BUF"
                if sz == 1 and bf == 1 and not w:
                    return "END"
                return None
            sa, sb = shape(a), shape(b)
            if op == "add" and sa in ("W",) and sb in ("W",):
                return True, "8-window", ""
            if op == "add" and ((a == ("c", 0) and sb == "W") or (b == ("c", 0) and sa == "W")):
                return True, "8-window", ""
            if op == "sub" and (sa, sb) in (("SIZE", "W"), ("REM", "W"), ("SIZE", "REM"), ("PTR", "BUF"), ("END", "PTR"), ("END", "BUF"), ("PTR", "PTR")):
                if (sa, sb) != ("PTR", "PTR") or all(c_ == 1 for c_ in P.linear_diff(a, b).values()):
                    return True, "8-window", ""
            if op == "sub" and sa == "SIZE" and b == ("c", 0):
                return True, "8-window", ""
    # the claim_bytes failure arm with constant-bounded operands
    if op == "add" and (is_const(a) or is_const(b)):
        c, v = (a, b) if is_const(a) else (b, a)
        if not tainted(v) and _bounded_small(v):
            return True, "0-bounded", ""
    return False, None, "no idiom applies to %s %s %s%s" % (DR.fmt_term(a), op, DR.fmt_term(b),
                                                              " (an operand is a decoded 32/64-bit length)" if tainted(a) or tainted(b) else "")


def _read_is_claimed_sum(pa, idx, r):
    """r (the running 'read') is 0 or was produced by earlier successful claims on this path"""
    if r == ("c", 0) or is_const(r):
        return True
    for pe in pa.events[:idx]:
        if pe.kind == "arith" and pe.fn.name == CLAIM and pe.callee == "add":
            s1 = ("op", "add", "i64", pe.args[0], pe.args[1])
            s2 = ("op", "add", "i64", pe.args[1], pe.args[0])
            if r in (s1, s2):
                return True
    return False


def _bounded_small(v):
    """value derived from an 8/16-bit loader"""
    for s in P.subterms(v):
        if isinstance(s, tuple) and s[0] == "call" and s[1] in ("_cbor_load_uint8", "_cbor_load_uint16"):
            return True
    return False


def size_ok(prog, f, pa, sz):
    if is_const(sz):
        return True, "constant"
    if f.name in ("_cbor_alloc_multiple", "_cbor_realloc_multiple"):
        g = [e for e in pa.calls("_cbor_safe_to_multiply") if pa.st.truth.get(e.res) is True]
        ok = sz[0] == "op" and sz[1] == "mul" and bool(g) and {g[0].args[0], g[0].args[1]} == {sz[3], sz[4]}
        return ok, "guarded product" if ok else "element-count product is not guarded by _cbor_safe_to_multiply"
    if sz[0] == "op" and sz[1] in ("mul", "shl", "add"):
        return False, "raw arithmetic %s in an allocation size: use _cbor_alloc_multiple / a guarded sum" % DR.fmt_term(sz)
    x = sz
    while isinstance(x, tuple) and x[0] == "cast":
        if x[1] == "trunc":
            return False, "allocation size is truncated (%s) on its way to the allocator" % x[2]
        x = x[3]
    if x[0] == "arg":
        return True, "length parameter, untruncated"
    if x[0] == "call" and x[1] in ("cbor_serialized_size", "strlen"):
        return True, "computed size (tested non-zero: C07.alloc)" if x[1] == "cbor_serialized_size" else "strlen result"
    return False, "allocation size %s is not a constant, an untruncated length or a guarded product" % DR.fmt_term(sz)
