"""C16 - code point count equals the strict UTF-8 count, or 0 (DESIGN §4 C16)."""
from build import AnalysisBroken
from ir import Agg, Const
import paths as P
import decoder_rules as DR
import termeval
from ir import strip_casts
import rules


# ---- reference automaton, written from RFC 3629 §4 (UTF8-octets ABNF) -------
def ref_step(r, b):
    """state: 'start' | 'dead' | (lo, hi, remaining-after-this)"""
    if r == "dead":
        return "dead"
    if r == "start":
        if b <= 0x7F:
            return "start"
        if 0xC2 <= b <= 0xDF:
            return (0x80, 0xBF, 0)
        if b == 0xE0:
            return (0xA0, 0xBF, 1)
        if 0xE1 <= b <= 0xEC or 0xEE <= b <= 0xEF:
            return (0x80, 0xBF, 1)
        if b == 0xED:
            return (0x80, 0x9F, 1)
        if b == 0xF0:
            return (0x90, 0xBF, 2)
        if 0xF1 <= b <= 0xF3:
            return (0x80, 0xBF, 2)
        if b == 0xF4:
            return (0x80, 0x8F, 2)
        return "dead"
    lo, hi, rem = r
    if not (lo <= b <= hi):
        return "dead"
    if rem == 0:
        return "start"
    return (0x80, 0xBF, rem - 1)


def check_builders_copy(chk, rule, prog, eff, subjects, seth):
    """each builder attaches (through the set-handle routine) a block it obtained from the allocator with a request equal to the
    length, filled by memcpy / memmove of exactly that length (nothing to copy for an empty payload), and the attached length is the
    caller's length (or strlen of the caller's string)"""
    for name, kind in subjects:
        if name not in prog.funcs:
            continue
        fn = prog.fn(name)
        # library routines this function delegates the copy/attachment to are inlined (so the rule speaks about the
        # buffer that finally reaches the set-handle routine, whoever allocates and copies it)
        import ownership as O_
        inl = set(O_.static_callees(prog, eff, name))
        for c_ in eff.transitive_callees(name):
            if c_ in prog.funcs and c_ not in (seth, name) and c_ not in eff.transitive_callees(c_) and \
                    seth in eff.transitive_callees(c_):
                inl.add(c_)
                inl |= O_.static_callees(prog, eff, c_)
        paths_ = P.Executor(prog, eff, inline=inl).run(name)
        names_ = [p_["name"] for p_ in fn.params]
        n_attach = 0
        good = True
        det = ""
        for pa in paths_:
            for cl in pa.calls(seth):
                n_attach += 1
                h, ln = cl.args[1], cl.args[2]
                mc = [e for e in pa.events if e.kind == "call" and e.callee == "memcpy"]
                okh = h[0] == "call" and h[1] == "_cbor_malloc"
                okcpy = any(m.args[0] == h and m.args[2] == ln for m in mc) or \
                    (not mc and (pa.st.eqc.get(ln) == 0 or pa.st.hi.get(ln, 1) == 0))   # nothing to copy for an empty string
                # the allocation request equals the length
                mal = [e for e in pa.events if e.kind == "call" and e.res == h]
                okal = bool(mal) and mal[0].args[0] == ln
                # ... and it is the caller's length (or strlen of the caller's string)
                if kind == "param":
                    okln = "length" in names_ and ln == ("arg", names_.index("length"))
                else:
                    okln = ln[0] == "call" and ln[1] == "strlen" and any(e.kind == "call" and e.res == ln and e.args[0] == ("arg", 0) for e in pa.events)
                if not (okh and okcpy and okal and okln):
                    good = False
                    det = "handle=%r length=%r copy/alloc mismatch" % (h, ln) if okln else \
                        "attached length %s is not the %s" % (DR.fmt_term(ln), "length the caller passed" if kind == "param" else "strlen of the argument")
        chk.ob(rule, "%s attaches the copied buffer with the same length" % name, good and n_attach >= 1,
               "%s:%d" % (fn.file, fn.line), fn=name, detail=det or ("no attachment found" if not n_attach else ""))
        # ... and never attaches a payload behind the set-handle routine's back (the routine is where the payload is looked at:
        # code points counted, for text)
        data_off = prog.field_offset("cbor_item_t", "data")
        direct = None
        for pa in paths_:
            for e in pa.events:
                if e.kind == "store":
                    b_, o_ = P.ptr_key(e.args[0])
                    if o_ == data_off and isinstance(b_, tuple) and b_[0] == "call" and b_[1].startswith("cbor_new_definite_") and e.fn.name != seth and \
                            not (P.is_const(e.args[1]) and e.args[1][1] == 0):
                        direct = e
        chk.ob(rule, "%s hands every payload to %s (no direct store to a fresh item's data field)" % (name, seth), direct is None,
               "%s:%d" % (fn.file, fn.line), fn=name, key="direct:%s:%s" % (name, seth),
               detail="" if direct is None else "stores the payload pointer itself at %s: the item's derived fields (length, code point count) "
                                                "are whatever they were" % direct.ins.loc())


def run(ctx, chk):
    prog = ctx.prog()
    eff = ctx.effects(prog)
    chk.explanation = ("the validator is a constant table: the step function's terms are extracted from the IR of "
                       "_cbor_unicode_decode by the path engine and tabulated over (state, byte) with the table read from "
                       "the utf8d initialiser; its product with a reference DFA built from the RFC 3629 ABNF is explored "
                       "exhaustively (decidable language equivalence over all byte strings of all lengths). The counting "
                       "loop and the attachment in cbor_string_set_handle are checked on every path of those functions.")
    chk.rule("C16.automaton", "product of the implementation DFA with the RFC 3629 reference: implementation state = REJECT "
                              "iff the reference is dead, = ACCEPT iff the reference is at a scalar boundary, for every "
                              "reachable pair and every byte")
    chk.rule("C16.bounds", "every table index computed for a reachable state and any byte is inside utf8d")
    chk.rule("C16.count", "the counter is incremented exactly on results equal to ACCEPT; a REJECT result and an unfinished "
                          "final state reach the error exit, which returns 0 and stores a non-OK status; bytes are read "
                          "at source[pos] for pos < length, zero-extended")
    chk.rule("C16.attach", "cbor_string_set_handle stores data and length unchanged and stores as code point count the "
                           "counter's result (status OK) or 0 / that same result (otherwise)")
    chk.rule("C16.reach", "cbor_build_string / cbor_build_stringn / the decoder's string callback attach the copied buffer "
                          "with the same length; decoding never tests the unicode status")
    # ---- whatever the validator is built from, the counting routine must be able to say "not UTF-8"
    chk.rule("C16.can-reject", "_cbor_unicode_codepoint_count has a path that stores a status other than OK and returns 0, and every "
                               "path that returns with status OK has examined its input through a validating step (a call or table "
                               "lookup whose result decides an exit): a routine that reports OK for every byte string counts "
                               "ill-formed text")
    cc = prog.fn("_cbor_unicode_codepoint_count")
    sti = cc.param_index("status")
    ok_v = prog.enum("_cbor_unicode_status_error")["_CBOR_UNICODE_OK"]
    st_off = prog.field_offset("_cbor_unicode_status", "status")
    import ownership as _O16
    cpaths = P.Executor(prog, eff, loop_bound=2, inline=_O16.static_callees(prog, eff, cc.name)).run(cc.name)
    rejecting = 0
    for pa in cpaths:
        v = pa.st.load(P.mkptr(("arg", sti), st_off), "i32", None) if pa.st.is_defined(P.mkptr(("arg", sti), st_off), 4) else None
        if v is not None and P.is_const(v) and v[1] != ok_v and pa.ret == ("c", 0):
            rejecting += 1
    chk.ob("C16.can-reject", "%s has %d rejecting path(s) (status != OK, result 0) among %d" % (cc.name, rejecting, len(cpaths)), rejecting >= 1,
           "%s:%d" % (cc.file, cc.line), fn=cc.name, key="can-reject",
           detail="" if rejecting else "every path leaves status OK: ill-formed UTF-8 is counted instead of yielding 0")
    chk.floor("C16.can-reject", "paths of the counting routine", len(cpaths), 3)
    f = prog.fn("_cbor_unicode_decode")
    g = prog.global_for(f, "utf8d")
    if g is None or not isinstance(g.get("init_val"), Agg):
        raise AnalysisBroken("table utf8d not found")
    T = [e.v for e in g["init_val"].elems]
    chk.ob("C16.bounds", "utf8d is constant", g["constant"], g["unit"], nontrivial=False)
    X = P.Executor(prog, eff)
    dpaths = X.run("_cbor_unicode_decode")
    si, bi = f.param_index("state"), f.param_index("byte")
    STATE_IN = None
    steps = []
    for pa in dpaths:
        st_store = [e for e in pa.events if e.kind == "store" and P.ptr_key(e.args[0]) == (("arg", si), 0)]
        if len(st_store) != 1:
            raise AnalysisBroken("_cbor_unicode_decode: expected exactly one store to *state per path")
        new_state = st_store[0].args[1]
        if pa.ret != new_state:
            raise AnalysisBroken("_cbor_unicode_decode does not return the new state")
        for e in pa.events:
            if e.kind == "load" and P.ptr_key(e.args[0]) == (("arg", si), 0) and STATE_IN is None:
                STATE_IN = e.res
        steps.append((pa.facts, new_state))
    if STATE_IN is None:
        raise AnalysisBroken("_cbor_unicode_decode does not read *state")

    def step(s, b):
        env = {STATE_IN: s, ("arg", bi): b}
        for facts, ns in steps:
            if all(bool(termeval.evaluate(t, env, {"utf8d": T})) == truth for t, truth, _ in facts):
                return termeval.evaluate(ns, env, {"utf8d": T})
        raise AnalysisBroken("no path of the step function applies to state %d byte %d" % (s, b))

    # ---- counting loop: decided by what each of its paths computes, not by its shape -------------------
    # Every path through 0..2 complete iterations (and the failing third) is evaluated for every input it can be taken on:
    # byte loads from the source stand for the input bytes, a call of the step function and every later read of the state cell
    # stand for the state the (tabulated) step function yields, the length parameter for the input length.  Bytes are taken
    # one representative per class of bytes that no fact of any path and no column of the step table tells apart.  The second
    # iteration meets every reachable (state, byte) pair - every intermediate state is one byte away from the start state -
    # so what holds for inputs of length <= 2 holds for the generic iteration.
    c = prog.fn("_cbor_unicode_codepoint_count")
    DEC = f.name
    import ownership as _Oc
    X2 = P.Executor(prog, eff, loop_bound=2, inline=_Oc.static_callees(prog, eff, c.name))
    cpaths = X2.run(c.name)
    chk.floor("C16.count", "paths of the counting loop (0..3 iterations)", len(cpaths), 10)
    status_i = c.param_index("status")
    src_i, len_i = c.param_index("source"), c.param_index("source_length")
    where_c = "%s:%d" % (c.file, c.line)
    uni = prog.enum("_cbor_unicode_status_error")
    OK = uni["_CBOR_UNICODE_OK"]
    status_off = prog.field_offset("_cbor_unicode_status", "status")
    cells = {cl.args[0] for pa in cpaths for cl in pa.calls(DEC)}
    if len(cells) != 1:
        raise AnalysisBroken("the counting routine hands %d different state cells to %s (expected one)" % (len(cells), DEC))
    state_cell = next(iter(cells))
    inits = set()
    for pa in cpaths:
        for e in pa.events:
            if e.kind == "store" and e.args[0] == state_cell:
                inits.add(e.args[1])
                break
            if e.kind == "call" and e.callee == DEC:
                inits.add(None)
                break
    if len(inits) != 1 or None in inits or not P.is_const(next(iter(inits))):
        raise AnalysisBroken("cannot identify the initial validator state (stored values: %s)" % sorted(map(repr, inits)))
    ACCEPT = next(iter(inits))[1]
    # the states reachable from the start state and the trap among them
    reach, work_ = {ACCEPT}, [ACCEPT]
    while work_:
        s_ = work_.pop()
        for b_ in range(256):
            try:
                n_ = step(s_, b_)
            except termeval.OutOfBounds:
                continue
            if n_ not in reach:
                reach.add(n_)
                work_.append(n_)
        if len(reach) > 64:
            raise AnalysisBroken("the step function reaches more than 64 states")
    traps = []
    for s_ in reach:
        try:
            if s_ != ACCEPT and all(step(s_, b_) == s_ for b_ in range(256)):
                traps.append(s_)
        except termeval.OutOfBounds:
            pass
    if len(traps) != 1:
        raise AnalysisBroken("the step function has %d trap states reachable from the start state (expected one: REJECT)" % len(traps))
    REJECT = traps[0]
    chk.extra["accept_state"], chk.extra["reject_state"] = ACCEPT, REJECT
    chk.ob("C16.count", "validation starts in the state the reference calls 'at a scalar boundary'", True, where_c, fn=c.name, key="init",
           nontrivial=False)

    def src_off(ptr):
        b_, o_ = P.ptr_key(ptr)
        if b_ == ("arg", src_i):
            return o_
        if isinstance(b_, tuple) and b_[0] == "idx" and b_[2] == "i8" and len(b_[3]) == 1 and P.is_const(b_[3][0]):
            inner = src_off(b_[1])
            return None if inner is None else inner + b_[3][0][1] + o_
        if isinstance(b_, tuple) and b_[0] == "cast":
            return src_off(b_[3])
        return None

    def leaves(t, acc):
        if not isinstance(t, tuple) or not t:
            return acc
        if t[0] in ("ld", "call", "arg", "phi"):
            acc.add(t)
            return acc
        if t[0] == "c":
            return acc
        for x in t[1:]:
            if isinstance(x, tuple):
                leaves(x, acc)
        return acc

    # byte terms and the facts that speak about a byte alone
    byte_terms = set()
    for pa in cpaths:
        for e in pa.events:
            if e.kind == "load" and not P.is_const(e.res) and termeval.bits_of(e.ins.type) == 8 and src_off(e.args[0]) is not None:
                byte_terms.add(e.res)
    # the decoded scalar (second out-parameter of the step function).  A path may test it after a step that ended a sequence; the
    # scalar then ranges over exactly the Unicode scalar values (the arithmetic that assembles it is not verified - trusted base).
    # A test that no scalar value satisfies makes its path infeasible, one that all satisfy is vacuous, and one that tells scalar
    # values apart makes the count depend on something other than well-formedness: a violation with a witness.
    cp_cells = {cl.args[1] for pa in cpaths for cl in pa.calls(DEC)}
    SCALARS = None
    dropped, kept = set(), []
    for k, pa in enumerate(cpaths):
        sfacts = []
        for t, truth, _ in pa.facts:
            lv = leaves(t, set())
            cl_ = {x for x in lv if x[0] == "ld" and x[1] in cp_cells}
            if not cl_:
                continue
            if len(lv) != 1:
                raise AnalysisBroken("a path of the counting routine compares the decoded scalar with another run-time quantity (%s): not decided" % DR.fmt_term(t))
            sfacts.append((t, truth, next(iter(cl_))))
        if not sfacts:
            kept.append(k)
            continue
        if SCALARS is None:
            SCALARS = list(range(0, 0xD800)) + list(range(0xE000, 0x110000))
        leafs = {x for _, _, x in sfacts}
        if len(leafs) != 1:
            raise AnalysisBroken("a path of the counting routine tests the decoded scalar at two different points: not decided")
        L_ = next(iter(leafs))
        src_ = " and ".join("(bool(%s) == %s)" % (termeval.to_python(t, {L_: "x"}), truth) for t, truth, _ in sfacts)
        fn_ = eval("lambda x: " + src_)
        sat = [x for x in SCALARS if fn_(x)]
        if not sat:
            dropped.add(k)
            continue
        if len(sat) == len(SCALARS):
            kept.append(k)
            continue
        unsat = next(x for x in SCALARS if not fn_(x))
        chk.ob("C16.count", "path %d: the count does not depend on which scalar value a well-formed sequence encodes" % k, False, where_c, fn=c.name,
               key="scalar:%d" % k, detail="the path is taken for U+%04X but not for U+%04X (%d of %d scalar values): text is counted or refused by "
               "the value it encodes, not by its well-formedness" % (sat[0], unsat, len(sat), len(SCALARS)), path=pa.block_lines())
        dropped.add(k)
    scalar_leaf = lambda t: (t[0] == "ld" and t[1] in cp_cells)  # noqa: E731
    templates = {}
    for pa in cpaths:
        for t, truth, _ in pa.facts:
            lv = leaves(t, set())
            bl = lv & byte_terms
            if not bl:
                continue
            if len(lv) != 1:
                raise AnalysisBroken("a path of the counting routine compares an input byte with a run-time quantity (%s): not decided" % DR.fmt_term(t))
            B = next(iter(bl))
            templates.setdefault((repr(t).replace(repr(B), "B"),), (t, B))
    sig = {}
    for b_ in range(256):
        col = []
        for s_ in sorted(reach):
            try:
                col.append(step(s_, b_))
            except termeval.OutOfBounds:
                col.append(-1)
        tv = tuple(bool(termeval.evaluate(t, {B: b_}, {"utf8d": T})) for (t, B) in templates.values())
        sig.setdefault((tuple(col), tv), []).append(b_)
    reps = sorted(v[0] for v in sig.values()) + sorted(v[-1] for v in sig.values() if len(v) > 1)
    chk.extra["byte_classes"] = len(sig)

    def run_path(pa, bs):
        env = {("arg", len_i): len(bs)}
        st_ = None
        words = {}
        for e in pa.events:
            if e.kind == "store" and e.args[0] == state_cell:
                st_ = termeval.evaluate(e.args[1], env, {"utf8d": T})
            elif e.kind == "load":
                j = src_off(e.args[0])
                if j is None and isinstance(e.res, tuple) and e.res[0] == "ld":
                    j = src_off(e.res[1])       # a local the bytes were block-copied into: the load reads the source through it
                if j is not None:
                    w_ = max(1, termeval.bits_of(e.ins.type) // 8)
                    if j + w_ > len(bs):
                        return "beyond"
                    if not P.is_const(e.res):
                        env[e.res] = int.from_bytes(bytes(bs[j:j + w_]), "little")
                elif e.args[0] == state_cell and not P.is_const(e.res):
                    env[e.res] = st_
                elif e.args[0] in words and not P.is_const(e.res):
                    env[e.res] = words[e.args[0]]
            elif e.kind == "memcpy":
                j = src_off(e.args[1])
                if j is not None and P.is_const(e.args[2]) and e.args[2][1] <= 8:
                    n_ = e.args[2][1]
                    if j + n_ > len(bs):
                        return "beyond"
                    words[e.args[0]] = int.from_bytes(bytes(bs[j:j + n_]), "little")
            elif e.kind == "call" and e.callee == DEC:
                bv = termeval.evaluate(e.args[2], env, {"utf8d": T})
                st_ = step(st_, bv)
                env[e.res] = st_
        for t, truth, _ in pa.facts:
            lv_ = leaves(t, set())
            if lv_ and all(scalar_leaf(x) for x in lv_):
                continue        # decided above, for every scalar value
            if bool(termeval.evaluate(t, env, {"utf8d": T})) != truth:
                return None
        r_ = pa.ret[1] if P.is_const(pa.ret) else termeval.evaluate(pa.ret, env, {"utf8d": T})
        fs = pa.st.load(P.mkptr(("arg", status_i), status_off), "i32", None)
        return (r_, fs[1] if P.is_const(fs) else None)

    def reference(bs):
        s_, n_ = ACCEPT, 0
        for b_ in bs:
            s_ = step(s_, b_)
            if s_ == REJECT:
                return (0, False)
            if s_ == ACCEPT:
                n_ += 1
        return (n_, True) if s_ == ACCEPT else (0, False)

    state_alias = {}
    inputs = [()] + [(a,) for a in reps] + [(a, b_) for a in reps for b_ in reps]
    per_path = {}
    uncovered, multi, beyond = [], [], []

    def judge(k, bs, r_):
        rv, stv = r_
        want, valid = reference(bs)
        good = rv == want and (stv == OK) == valid
        d = per_path.setdefault(k, [0, None])
        d[0] += 1
        if not good and d[1] is None:
            d[1] = "input %s: returns %r with status %s; strict UTF-8 gives %d (%s)" % (
                " ".join("%02X" % x for x in bs) or "(empty)", rv, "OK" if stv == OK else stv, want, "valid" if valid else "invalid")

    for bs in inputs:
        hits = []
        for k, pa in enumerate(cpaths):
            if k in dropped:
                continue
            try:
                r_ = run_path(pa, bs)
            except termeval.OutOfBounds:
                r_ = None
            if r_ == "beyond":
                continue
            if r_ is not None:
                hits.append((k, r_))
        if not hits:
            uncovered.append(bs)
            continue
        if len(hits) > 1:
            multi.append(bs)
        judge(hits[0][0], bs, hits[0][1])
    # paths no short input takes (the failing third byte, a fast path that needs a run of bytes): look for longer inputs that
    # take them - every triple of class minima, then one byte followed or preceded by a run of another
    one = sorted(v[0] for v in sig.values())
    longer = [(a, b_, c_) for a in one for b_ in one for c_ in one]
    for L_ in (4, 5, 8, 9, 10, 16, 17, 18):
        longer += [(a,) + (b_,) * (L_ - 1) for a in one for b_ in one] + [(b_,) * (L_ - 1) + (a,) for a in one for b_ in one if a != b_]
    for k, pa in enumerate(cpaths):
        if k in per_path or k in dropped:
            continue
        lenfacts = [(t, truth) for t, truth, _ in pa.facts if leaves(t, set()) == {("arg", len_i)}]
        feas = {L_ for L_ in range(0, 24) if all(bool(termeval.evaluate(t, {("arg", len_i): L_}, {})) == truth for t, truth in lenfacts)}
        found = 0
        for bs in longer:
            if len(bs) not in feas:
                continue
            try:
                r_ = run_path(pa, bs)
            except termeval.OutOfBounds:
                r_ = None
            if r_ is None or r_ == "beyond":
                continue
            judge(k, bs, r_)
            found += 1
            if found >= 24:
                break
    # bytes that are consumed without going through the step function (a fast path): wherever that happens, every validator
    # state and byte value the path's own tests allow there must be one the step function would have left alone
    nskip = 0
    for k, pa in enumerate(cpaths):
        if k in dropped:
            continue
        fed = set()
        for cl in pa.calls(DEC):
            for x in leaves(cl.args[2], set()):
                if x in byte_terms:
                    fed.add(x)
        cur = None          # what is known about the validator state: ("c", v) or the term standing for it
        seen_skip = set()
        for e in pa.events:
            if e.kind == "store" and e.args[0] == state_cell:
                cur = e.args[1]
            elif e.kind == "call" and e.callee == DEC:
                cur = e.res
            elif e.kind == "load" and e.args[0] == state_cell and not P.is_const(e.res) and cur is not None and not P.is_const(cur):
                alias_ = e.res      # reads of the cell after a step stand for the step's result
                state_alias.setdefault(k, {}).setdefault(cur, set()).add(alias_)
            elif e.kind == "load" and not P.is_const(e.res):
                j = src_off(e.args[0])
                if j is None and isinstance(e.res, tuple) and e.res[0] == "ld":
                    j = src_off(e.res[1])
                if j is None or e.res in fed or e.res in seen_skip:
                    continue
                # is this value (a byte, or a word of bytes) handed to the step function later on this path?  then it is not skipped
                seen_skip.add(e.res)
                w_ = max(1, termeval.bits_of(e.ins.type) // 8)
                # does the path move past it?  only then is it consumed
                later = [src_off(e2.args[0]) for e2 in pa.events if e2.kind == "load" and src_off(e2.args[0]) is not None]
                moved = any(o_ is not None and o_ >= j + w_ for o_ in later) or (P.is_const(pa.ret) and pa.st.load(P.mkptr(("arg", status_i), status_off), "i32", None) == ("c", OK))
                if not moved:
                    continue
                nskip += 1
                # candidate states
                names = {cur} | state_alias.get(k, {}).get(cur, set()) if cur is not None and not P.is_const(cur) else set()
                cands = []
                for s_ in sorted(reach - {REJECT}):
                    if P.is_const(cur):
                        if s_ != cur[1]:
                            continue
                    else:
                        envs = {n_: s_ for n_ in names}
                        ok_s = True
                        for t, truth, _ in pa.facts:
                            lv_ = leaves(t, set())
                            if lv_ and lv_ <= names:
                                if bool(termeval.evaluate(t, envs, {"utf8d": T})) != truth:
                                    ok_s = False
                                    break
                        if not ok_s:
                            continue
                    cands.append(s_)
                bfacts = [(t, truth) for t, truth, _ in pa.facts if leaves(t, set()) == {e.res}]
                bad_ = None
                for b_ in range(256):
                    val = int.from_bytes(bytes([b_] * w_), "little")
                    if not all(bool(termeval.evaluate(t, {e.res: val}, {"utf8d": T})) == truth for t, truth in bfacts):
                        continue
                    for s_ in cands:
                        n2 = step(s_, b_)
                        if n2 != s_ or n2 != ACCEPT:
                            bad_ = "in validator state %d a byte 0x%02X is stepped over, but the step function takes it to state %d%s" % (
                                s_, b_, n2, " (REJECT)" if n2 == REJECT else "")
                            break
                    if bad_:
                        break
                chk.ob("C16.count", "path %d: the byte(s) at offset %d consumed without a validation step are ones the step function leaves in the accepting state"
                       % (k, j), bad_ is None, e.ins.loc(), fn=c.name, key="skip:%d:%d" % (k, j), detail=bad_ or "",
                       path=pa.block_lines() if bad_ else None)
    for k in sorted(per_path):
        n_, bad_ = per_path[k]
        chk.ob("C16.count", "path %d: for each of the %d class-representative inputs examined that take it, result and status are those of strict UTF-8"
               % (k, n_), bad_ is None, where_c, fn=c.name, key="path:%d" % k, detail=bad_ or "",
               path=cpaths[k].block_lines() if bad_ else None)
    okcov = not uncovered and not multi
    chk.ob("C16.count", "every input of length <= 2 (%d representatives of %d byte classes) takes exactly one path" % (len(inputs), len(sig)), okcov,
           where_c, fn=c.name, key="cover", detail="" if okcov else "no path for %s; several for %s" % (
               [" ".join("%02X" % x for x in bs) for bs in uncovered[:3]], [" ".join("%02X" % x for x in bs) for bs in multi[:3]]))
    chk.floor("C16.count", "paths taken by some input", len(per_path), 6)

    # ---- product construction ---------------------------------------------------
    seen = {(ACCEPT, "start")}
    work = [(ACCEPT, "start")]
    mism = []
    ntrans = 0
    oob = None
    while work:
        s, r = work.pop()
        for b in range(256):
            try:
                s2 = step(s, b)
            except termeval.OutOfBounds as e:
                oob = "state %d byte 0x%02X: %s" % (s, b, e)
                continue
            r2 = ref_step(r, b)
            ntrans += 1
            good = ((s2 == REJECT) == (r2 == "dead")) and ((s2 == ACCEPT) == (r2 == "start"))
            if not good:
                if len(mism) < 5:
                    mism.append("after impl state %d / reference %s, byte 0x%02X: implementation -> %d, reference -> %s"
                                % (s, r, b, s2, r2))
                continue
            if s2 == REJECT:
                continue
            if (s2, r2) not in seen:
                seen.add((s2, r2))
                work.append((s2, r2))
    where_t = "%s:%d" % (f.file, f.line)
    chk.ob("C16.automaton", "language equivalence with RFC 3629 (%d product states, %d transitions)" % (len(seen), ntrans),
           not mism, where_t, fn=f.name, key="product", detail="; ".join(mism))
    chk.ob("C16.bounds", "table indices in range for all reachable states", oob is None, where_t, fn=f.name, key="oob", detail=oob or "")
    chk.floor("C16.automaton", "product states", len(seen), 5)
    chk.extra["product_states"], chk.extra["transitions_checked"] = len(seen), ntrans
    # each product state as its own obligation (for the evidence)
    for (s, r) in sorted(seen, key=str):
        chk.ob("C16.automaton", "product state (impl %d, ref %s): 256 bytes agree" % (s, r), not mism, where_t, fn=f.name,
               key="state:%d:%s" % (s, r))

    # ---- attachment --------------------------------------------------------------
    sh = prog.fn("cbor_string_set_handle")
    off = rules.item_offsets(prog)
    mo = off["metadata"]
    len_off = mo + prog.field_offset("_cbor_string_metadata", "length")
    cp_off = mo + prog.field_offset("_cbor_string_metadata", "codepoint_count")
    X3 = P.Executor(prog, eff)
    spaths = X3.run("cbor_string_set_handle")
    where_s = "%s:%d" % (sh.file, sh.line)
    ITEM, DATA, LEN = ("arg", 0), ("arg", 1), ("arg", 2)
    for k, pa in enumerate(spaths):
        stores = {P.ptr_key(e.args[0]): e.args[1] for e in pa.events if e.kind == "store"}
        okd = stores.get((ITEM, off["data"])) == DATA
        okl = stores.get((ITEM, len_off)) == LEN
        chk.ob("C16.attach", "path %d: data and length stored unchanged" % k, okd and okl, where_s, fn=sh.name, key="dl:%d" % k,
               detail="" if okd and okl else "data=%r length=%r" % (stores.get((ITEM, off["data"])), stores.get((ITEM, len_off))))
        calls = pa.calls("_cbor_unicode_codepoint_count")
        okc = len(calls) == 1 and calls[0].args[0] == DATA and calls[0].args[1] == LEN
        chk.ob("C16.attach", "path %d: counter called on (data, length)" % k, okc, where_s, fn=sh.name, key="call:%d" % k)
        if not okc:
            continue
        cnt = calls[0].res
        v = stores.get((ITEM, cp_off))
        # which edge? status == OK fact
        is_ok = None
        for t, tr in pa.st.truth.items():
            if t[0] == "icmp" and t[1] == "eq" and t[3] == ("c", OK):
                is_ok = tr
        if is_ok is True:
            good = v == cnt
        elif is_ok is False:
            good = v in (("c", 0), cnt)
        else:
            good = v == cnt
        chk.ob("C16.attach", "path %d: code point count = counter result (OK) / 0 (invalid)" % k, good, where_s, fn=sh.name,
               key="cp:%d" % k, detail="" if good else "stores %r on the status %s edge" % (v, "OK" if is_ok else "not-OK"))
    # ---- reach -----------------------------------------------------------------------
    check_builders_copy(chk, "C16.reach", prog, eff, (("cbor_build_string", "strlen"), ("cbor_build_stringn", "param"), ("cbor_builder_string_callback", "param")),
                        "cbor_string_set_handle")
    cb = prog.fn("cbor_builder_string_callback")
    tc = eff.summ[cb.name]["callees"]
    bad = [x for x in tc if x in ("_cbor_unicode_codepoint_count", "cbor_string_codepoint_count", "_cbor_unicode_decode")]
    okv = not bad and sh.ret_type == "void"
    chk.ob("C16.reach", "the decoder's string callback never consults the unicode status", okv, "%s:%d" % (cb.file, cb.line),
           fn=cb.name, detail="" if okv else "calls %s / set_handle returns a value" % bad)
    # ---- who may write the count
    chk.rule("C16.count-writers", "the stored code point count is only ever the counter's verdict on the bytes being attached, or 0: every store to "
             "the codepoint_count field of a string's metadata writes 0, the result of _cbor_unicode_codepoint_count, or a merge of the two "
             "(a count copied from another item, or kept from before the payload was edited in place, is not the count of these bytes)")
    from ir import Inst as _I, Const as _C
    cpo = prog.field_offset("_cbor_string_metadata", "codepoint_count")
    nw = 0

    def counter_value(v, depth=0):
        v = strip_casts(v, ("bitcast", "zext", "sext", "trunc"))
        if isinstance(v, _C):
            return v.v == 0
        if isinstance(v, _I) and v.op == "call":
            return v.callee == "_cbor_unicode_codepoint_count"
        if isinstance(v, _I) and v.op in ("phi", "select") and depth < 4:
            ops_ = v.operands if v.op == "phi" else v.operands[1:]
            return all(counter_value(x, depth + 1) for x in ops_)
        return False
    for g_ in prog.lib_funcs():
        for i_ in g_.all_insts():
            if i_.op != "store":
                continue
            a_ = strip_casts(i_.operands[1])
            if isinstance(a_, _I) and a_.op == "getelementptr" and a_.d.get("src_type") == "%struct._cbor_string_metadata" and a_.d.get("const_offset") == cpo:
                nw += 1
                okw = counter_value(i_.operands[0])
                chk.ob("C16.count-writers", "%s: the value stored to codepoint_count at line %d is 0 or the counter's result" % (g_.name, i_.line), okw,
                       i_.loc(), fn=g_.name, key="cpw:%s:%d" % (g_.name, rules._ordinal_of(g_, i_)),
                       detail="" if okw else "stores %r: a count that was not computed from the bytes this item holds" % (i_.operands[0],))
    chk.floor("C16.count-writers", "stores to the codepoint_count field", nw, 1)
    chk.rule("C16.getter", "cbor_string_codepoint_count and cbor_string_length report the stored values as they are: every path returns "
             "the item's field (no second opinion in the accessor; shared field-accessor rule)")
    rules.check_field_getters(chk, "C16.getter", prog, eff, names=("cbor_string_codepoint_count", "cbor_string_length", "cbor_string_handle"))
    chk.rule("C16.set-handle", "the set-handle routines attach what they are given on every path - data pointer and length become the arguments, with no "
             "early way out for a block the item already holds - and obtain or release no memory (byte length and content are preserved unchanged; the count is that of the bytes now attached)")
    import rules as _rsh
    _rsh.check_set_handle(chk, "C16.set-handle", prog, eff)
    chk.exhaustive = True
