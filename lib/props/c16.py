"""C16 - code point count equals the strict UTF-8 count, or 0 (DESIGN §4 C16)."""
from build import AnalysisBroken
from ir import Agg, Const
import paths as P
import decoder_rules as DR
import termeval
import rules


# ---- reference automaton, written from RFC 3629 §4 (UTF8-octets ABNF) -------
def ref_step(r, b):
    """state: 'start' | 'dead' | (lo, hi, remaining-after-this)"""
    if r == "dead":
        return "dead"
    if r == "start":
        if b <= 0x7F:
            return "start"
        if 0xC2 <= b <= 0xDF:
            return (0x80, 0xBF, 0)
        if b == 0xE0:
            return (0xA0, 0xBF, 1)
        if 0xE1 <= b <= 0xEC or 0xEE <= b <= 0xEF:
            return (0x80, 0xBF, 1)
        if b == 0xED:
            return (0x80, 0x9F, 1)
        if b == 0xF0:
            return (0x90, 0xBF, 2)
        if 0xF1 <= b <= 0xF3:
            return (0x80, 0xBF, 2)
        if b == 0xF4:
            return (0x80, 0x8F, 2)
        return "dead"
    lo, hi, rem = r
    if not (lo <= b <= hi):
        return "dead"
    if rem == 0:
        return "start"
    return (0x80, 0xBF, rem - 1)


def run(ctx, chk):
    prog = ctx.prog()
    eff = ctx.effects(prog)
    chk.explanation = ("the validator is a constant table: the step function's terms are extracted from the IR of "
                       "_cbor_unicode_decode by the path engine and tabulated over (state, byte) with the table read from "
                       "the utf8d initialiser; its product with a reference DFA built from the RFC 3629 ABNF is explored "
                       "exhaustively (decidable language equivalence over all byte strings of all lengths). The counting "
                       "loop and the attachment in cbor_string_set_handle are checked on every path of those functions.")
    chk.rule("C16.automaton", "product of the implementation DFA with the RFC 3629 reference: implementation state = REJECT "
                              "iff the reference is dead, = ACCEPT iff the reference is at a scalar boundary, for every "
                              "reachable pair and every byte")
    chk.rule("C16.bounds", "every table index computed for a reachable state and any byte is inside utf8d")
    chk.rule("C16.count", "the counter is incremented exactly on results equal to ACCEPT; a REJECT result and an unfinished "
                          "final state reach the error exit, which returns 0 and stores a non-OK status; bytes are read "
                          "at source[pos] for pos < length, zero-extended")
    chk.rule("C16.attach", "cbor_string_set_handle stores data and length unchanged and stores as code point count the "
                           "counter's result (status OK) or 0 / that same result (otherwise)")
    chk.rule("C16.reach", "cbor_build_string / cbor_build_stringn / the decoder's string callback attach the copied buffer "
                          "with the same length; decoding never tests the unicode status")
    # ---- whatever the validator is built from, the counting routine must be able to say "not UTF-8"
    chk.rule("C16.can-reject", "_cbor_unicode_codepoint_count has a path that stores a status other than OK and returns 0, and every "
                               "path that returns with status OK has examined its input through a validating step (a call or table "
                               "lookup whose result decides an exit): a routine that reports OK for every byte string counts "
                               "ill-formed text")
    cc = prog.fn("_cbor_unicode_codepoint_count")
    sti = cc.param_index("status")
    ok_v = prog.enum("_cbor_unicode_status_error")["_CBOR_UNICODE_OK"]
    st_off = prog.field_offset("_cbor_unicode_status", "status")
    import ownership as _O16
    cpaths = P.Executor(prog, eff, loop_bound=2, inline=_O16.static_callees(prog, eff, cc.name)).run(cc.name)
    rejecting = 0
    for pa in cpaths:
        v = pa.st.load(P.mkptr(("arg", sti), st_off), "i32", None) if pa.st.is_defined(P.mkptr(("arg", sti), st_off), 4) else None
        if v is not None and P.is_const(v) and v[1] != ok_v and pa.ret == ("c", 0):
            rejecting += 1
    chk.ob("C16.can-reject", "%s has %d rejecting path(s) (status != OK, result 0) among %d" % (cc.name, rejecting, len(cpaths)), rejecting >= 1,
           "%s:%d" % (cc.file, cc.line), fn=cc.name, key="can-reject",
           detail="" if rejecting else "every path leaves status OK: ill-formed UTF-8 is counted instead of yielding 0")
    chk.floor("C16.can-reject", "paths of the counting routine", len(cpaths), 3)
    f = prog.fn("_cbor_unicode_decode")
    g = prog.global_for(f, "utf8d")
    if g is None or not isinstance(g.get("init_val"), Agg):
        raise AnalysisBroken("table utf8d not found")
    T = [e.v for e in g["init_val"].elems]
    chk.ob("C16.bounds", "utf8d is constant", g["constant"], g["unit"], nontrivial=False)
    X = P.Executor(prog, eff)
    dpaths = X.run("_cbor_unicode_decode")
    si, bi = f.param_index("state"), f.param_index("byte")
    STATE_IN = None
    steps = []
    for pa in dpaths:
        st_store = [e for e in pa.events if e.kind == "store" and P.ptr_key(e.args[0]) == (("arg", si), 0)]
        if len(st_store) != 1:
            raise AnalysisBroken("_cbor_unicode_decode: expected exactly one store to *state per path")
        new_state = st_store[0].args[1]
        if pa.ret != new_state:
            raise AnalysisBroken("_cbor_unicode_decode does not return the new state")
        for e in pa.events:
            if e.kind == "load" and P.ptr_key(e.args[0]) == (("arg", si), 0) and STATE_IN is None:
                STATE_IN = e.res
        steps.append((pa.facts, new_state))
    if STATE_IN is None:
        raise AnalysisBroken("_cbor_unicode_decode does not read *state")

    def step(s, b):
        env = {STATE_IN: s, ("arg", bi): b}
        for facts, ns in steps:
            if all(bool(termeval.evaluate(t, env, {"utf8d": T})) == truth for t, truth, _ in facts):
                return termeval.evaluate(ns, env, {"utf8d": T})
        raise AnalysisBroken("no path of the step function applies to state %d byte %d" % (s, b))

    # ---- counting loop: find ACCEPT / REJECT constants --------------------
    c = prog.fn("_cbor_unicode_codepoint_count")
    X2 = P.Executor(prog, eff, loop_bound=2)
    cpaths = X2.run("_cbor_unicode_codepoint_count")
    chk.floor("C16.count", "paths of the counting loop (0..3 iterations)", len(cpaths), 10)
    status_i = c.param_index("status")
    src_i, len_i = c.param_index("source"), c.param_index("source_length")
    where_c = "%s:%d" % (c.file, c.line)
    uni = prog.enum("_cbor_unicode_status_error")
    OK = uni["_CBOR_UNICODE_OK"]
    status_off = prog.field_offset("_cbor_unicode_status", "status")
    # constants compared with the step result
    consts = []
    for pa in cpaths:
        for t, truth, _ in pa.facts:
            if t[0] == "icmp" and t[1] == "eq" and isinstance(t[2], tuple) and t[2][0] == "call" and t[3][0] == "c":
                if t[3][1] not in consts:
                    consts.append(t[3][1])
    if len(consts) != 2:
        raise AnalysisBroken("counting loop compares the step result with %s (expected two constants)" % consts)
    # ACCEPT is the one whose truth increments the count: decide from the single-iteration paths
    ACCEPT = REJECT = None
    for pa in cpaths:
        calls = pa.calls("_cbor_unicode_decode")
        if len(calls) == 1 and pa.ret == ("c", 1):
            for t, truth, _ in pa.facts:
                if t[0] == "icmp" and t[2] == calls[0].res and truth:
                    ACCEPT = t[3][1]
    if ACCEPT is None:
        raise AnalysisBroken("cannot identify the ACCEPT constant (no one-iteration path returns 1)")
    REJECT = [x for x in consts if x != ACCEPT][0]
    chk.extra["accept_state"], chk.extra["reject_state"] = ACCEPT, REJECT
    state_cell = None
    nviol = 0
    for k, pa in enumerate(cpaths):
        calls = pa.calls("_cbor_unicode_decode")
        truth = pa.st.truth
        acc = rej = 0
        for i, cl in enumerate(calls):
            state_cell = cl.args[0]
            # the byte passed is source[i], zero-extended
            b = cl.args[2]
            okb = (b[0] == "cast" and b[1] == "zext" and b[3][0] == "ld" and b[3][1][0] == "idx"
                   and b[3][1][1] == ("arg", src_i) and b[3][1][3] == (("c", i),))
            okg = truth.get(("icmp", "ult", ("c", i), ("arg", len_i))) is True
            chk.ob("C16.count", "path %d call %d reads source[pos], pos < length" % (k, i), okb and okg, cl.ins.loc(), fn=c.name,
                   key="read:%d:%d" % (k, i), detail="" if okb and okg else "byte argument %r / loop guard missing" % (b,))
            if truth.get(("icmp", "eq", cl.res, ("c", ACCEPT))) is True:
                acc += 1
            if truth.get(("icmp", "eq", cl.res, ("c", REJECT))) is True:
                rej += 1
        # classify exit
        status_store = None
        for e in pa.events:
            if e.kind == "memcpy" and P.ptr_key(e.args[0])[0] == ("arg", status_i):
                status_store = pa.st.load(P.mkptr(("arg", status_i), status_off), "i32", None)
        final_status = pa.st.load(P.mkptr(("arg", status_i), status_off), "i32", None)
        is_err = final_status != ("c", OK)
        final_state_ok = None
        if state_cell is not None:
            for t, tr in truth.items():
                if t[0] == "icmp" and t[1] == "eq" and t[3] == ("c", ACCEPT) and t[2][0] == "ld" and t[2][1] == state_cell:
                    final_state_ok = tr
        if rej:
            ok = is_err and pa.ret == ("c", 0)
            chk.ob("C16.count", "path %d: REJECT result -> error exit" % k, ok, where_c, fn=c.name, key="rej:%d" % k,
                   detail="" if ok else "a REJECT result returns %r with status %r" % (pa.ret, final_status))
        elif is_err:
            ok = pa.ret == ("c", 0) and (final_state_ok is False)
            chk.ob("C16.count", "path %d: error exit returns 0, only for an unfinished sequence" % k, ok, where_c, fn=c.name,
                   key="err:%d" % k, detail="" if ok else "error exit returns %r (final state test: %s)" % (pa.ret, final_state_ok))
        else:
            ok = pa.ret == ("c", acc) and (final_state_ok is True or not calls)
            if not calls:
                # zero iterations: the initial state must be ACCEPT itself
                init = pa.st.truth
                ok = pa.ret == ("c", 0)
            chk.ob("C16.count", "path %d: returns the number of ACCEPT results (%d)" % (k, acc), ok, where_c, fn=c.name,
                   key="cnt:%d" % k, detail="" if ok else "returns %r after %d ACCEPT results; final state accepted: %s" % (pa.ret, acc, final_state_ok))
    # initial state constant
    init_state = None
    for pa in cpaths[:1]:
        for e in pa.events:
            if e.kind == "store" and state_cell is not None and e.args[0] == state_cell:
                init_state = e.args[1]
                break
    chk.ob("C16.count", "validation starts in the ACCEPT state", init_state == ("c", ACCEPT), where_c, fn=c.name,
           detail="" if init_state == ("c", ACCEPT) else "initial state is %r" % (init_state,))

    # ---- product construction ---------------------------------------------------
    seen = {(ACCEPT, "start")}
    work = [(ACCEPT, "start")]
    mism = []
    ntrans = 0
    oob = None
    while work:
        s, r = work.pop()
        for b in range(256):
            try:
                s2 = step(s, b)
            except termeval.OutOfBounds as e:
                oob = "state %d byte 0x%02X: %s" % (s, b, e)
                continue
            r2 = ref_step(r, b)
            ntrans += 1
            good = ((s2 == REJECT) == (r2 == "dead")) and ((s2 == ACCEPT) == (r2 == "start"))
            if not good:
                if len(mism) < 5:
                    mism.append("after impl state %d / reference %s, byte 0x%02X: implementation -> %d, reference -> %s"
                                % (s, r, b, s2, r2))
                continue
            if s2 == REJECT:
                continue
            if (s2, r2) not in seen:
                seen.add((s2, r2))
                work.append((s2, r2))
    where_t = "%s:%d" % (f.file, f.line)
    chk.ob("C16.automaton", "language equivalence with RFC 3629 (%d product states, %d transitions)" % (len(seen), ntrans),
           not mism, where_t, fn=f.name, key="product", detail="; ".join(mism))
    chk.ob("C16.bounds", "table indices in range for all reachable states", oob is None, where_t, fn=f.name, key="oob", detail=oob or "")
    chk.floor("C16.automaton", "product states", len(seen), 5)
    chk.extra["product_states"], chk.extra["transitions_checked"] = len(seen), ntrans
    # each product state as its own obligation (for the evidence)
    for (s, r) in sorted(seen, key=str):
        chk.ob("C16.automaton", "product state (impl %d, ref %s): 256 bytes agree" % (s, r), not mism, where_t, fn=f.name,
               key="state:%d:%s" % (s, r))

    # ---- attachment --------------------------------------------------------------
    sh = prog.fn("cbor_string_set_handle")
    off = rules.item_offsets(prog)
    mo = off["metadata"]
    len_off = mo + prog.field_offset("_cbor_string_metadata", "length")
    cp_off = mo + prog.field_offset("_cbor_string_metadata", "codepoint_count")
    X3 = P.Executor(prog, eff)
    spaths = X3.run("cbor_string_set_handle")
    where_s = "%s:%d" % (sh.file, sh.line)
    ITEM, DATA, LEN = ("arg", 0), ("arg", 1), ("arg", 2)
    for k, pa in enumerate(spaths):
        stores = {P.ptr_key(e.args[0]): e.args[1] for e in pa.events if e.kind == "store"}
        okd = stores.get((ITEM, off["data"])) == DATA
        okl = stores.get((ITEM, len_off)) == LEN
        chk.ob("C16.attach", "path %d: data and length stored unchanged" % k, okd and okl, where_s, fn=sh.name, key="dl:%d" % k,
               detail="" if okd and okl else "data=%r length=%r" % (stores.get((ITEM, off["data"])), stores.get((ITEM, len_off))))
        calls = pa.calls("_cbor_unicode_codepoint_count")
        okc = len(calls) == 1 and calls[0].args[0] == DATA and calls[0].args[1] == LEN
        chk.ob("C16.attach", "path %d: counter called on (data, length)" % k, okc, where_s, fn=sh.name, key="call:%d" % k)
        if not okc:
            continue
        cnt = calls[0].res
        v = stores.get((ITEM, cp_off))
        # which edge? status == OK fact
        is_ok = None
        for t, tr in pa.st.truth.items():
            if t[0] == "icmp" and t[1] == "eq" and t[3] == ("c", OK):
                is_ok = tr
        if is_ok is True:
            good = v == cnt
        elif is_ok is False:
            good = v in (("c", 0), cnt)
        else:
            good = v == cnt
        chk.ob("C16.attach", "path %d: code point count = counter result (OK) / 0 (invalid)" % k, good, where_s, fn=sh.name,
               key="cp:%d" % k, detail="" if good else "stores %r on the status %s edge" % (v, "OK" if is_ok else "not-OK"))
    # ---- reach -----------------------------------------------------------------------
    for name, kind in (("cbor_build_string", "strlen"), ("cbor_build_stringn", "param"), ("cbor_builder_string_callback", "param")):
        fn = prog.fn(name)
        # library routines this function delegates the copy/attachment to are inlined (so the rule speaks about the
        # buffer that finally reaches cbor_string_set_handle, whoever allocates and copies it)
        import ownership as O_
        inl = set(O_.static_callees(prog, eff, name))
        for c_ in eff.transitive_callees(name):
            if c_ in prog.funcs and c_ not in ("cbor_string_set_handle", name) and c_ not in eff.transitive_callees(c_) and \
                    "cbor_string_set_handle" in eff.transitive_callees(c_):
                inl.add(c_)
                inl |= O_.static_callees(prog, eff, c_)
        paths_ = P.Executor(prog, eff, inline=inl).run(name)
        names_ = [p_["name"] for p_ in fn.params]
        n_attach = 0
        good = True
        det = ""
        for pa in paths_:
            for cl in pa.calls("cbor_string_set_handle"):
                n_attach += 1
                h, ln = cl.args[1], cl.args[2]
                mc = [e for e in pa.events if e.kind == "call" and e.callee == "memcpy"]
                okh = h[0] == "call" and h[1] == "_cbor_malloc"
                okcpy = any(m.args[0] == h and m.args[2] == ln for m in mc) or \
                    (not mc and (pa.st.eqc.get(ln) == 0 or pa.st.hi.get(ln, 1) == 0))   # nothing to copy for an empty string
                # the allocation request equals the length
                mal = [e for e in pa.events if e.kind == "call" and e.res == h]
                okal = bool(mal) and mal[0].args[0] == ln
                # ... and it is the caller's length (or strlen of the caller's string)
                if kind == "param":
                    okln = "length" in names_ and ln == ("arg", names_.index("length"))
                else:
                    okln = ln[0] == "call" and ln[1] == "strlen" and any(e.kind == "call" and e.res == ln and e.args[0] == ("arg", 0) for e in pa.events)
                if not (okh and okcpy and okal and okln):
                    good = False
                    det = "handle=%r length=%r copy/alloc mismatch" % (h, ln) if okln else \
                        "attached length %s is not the %s" % (DR.fmt_term(ln), "length the caller passed" if kind == "param" else "strlen of the argument")
        chk.ob("C16.reach", "%s attaches the copied buffer with the same length" % name, good and n_attach >= 1,
               "%s:%d" % (fn.file, fn.line), fn=name, detail=det or ("no attachment found" if not n_attach else ""))
    cb = prog.fn("cbor_builder_string_callback")
    tc = eff.summ[cb.name]["callees"]
    bad = [x for x in tc if x in ("_cbor_unicode_codepoint_count", "cbor_string_codepoint_count", "_cbor_unicode_decode")]
    okv = not bad and sh.ret_type == "void"
    chk.ob("C16.reach", "the decoder's string callback never consults the unicode status", okv, "%s:%d" % (cb.file, cb.line),
           fn=cb.name, detail="" if okv else "calls %s / set_handle returns a value" % bad)
    chk.rule("C16.getter", "cbor_string_codepoint_count and cbor_string_length report the stored values as they are: every path returns "
             "the item's field (no second opinion in the accessor; shared field-accessor rule)")
    rules.check_field_getters(chk, "C16.getter", prog, eff, names=("cbor_string_codepoint_count", "cbor_string_length", "cbor_string_handle"))
    chk.exhaustive = True
