"""C06 - any allocation failure is reported cleanly, atomically and without leaks (DESIGN §4 C06)."""
from build import AnalysisBroken
import paths as P
from paths import ptr_key, is_const
import ownership as O
import decoder_rules as DR
import tables
import rules

CONTAINER_OPS = ["cbor_array_push", "cbor_array_set", "cbor_array_replace", "_cbor_map_add_key", "_cbor_map_add_value",
                 "cbor_map_add", "cbor_bytestring_add_chunk", "cbor_string_add_chunk"]
NOT_CLIENTS = {"cbor_decref", "cbor_intermediate_decref", "cbor_incref", "cbor_move"}


def check_balance(chk, rule, prog, eff, cache, N, B, ctors, fnames=None, floor=None, tag=""):
    """ownership balance over every path of the given functions (shared with C04/C11)"""
    nacq = 0
    # the release routine, and the unit-internal helpers it is split into, are not clients of the ownership rules:
    # dropping the references a dying item holds is their job (decided by the release rules, C04.release)
    release_helpers = O.static_callees(prog, eff, "cbor_decref") if "cbor_decref" in prog.funcs else set()
    # unit-internal helpers are judged in the context of the functions they are inlined into (a helper may release or
    # hand off a reference its caller acquired)
    in_context = set()
    for g_ in prog.lib_funcs():
        in_context |= O.static_callees(prog, eff, g_.name)
    for f in (prog.lib_funcs() if fnames is None else [prog.fn(n) for n in fnames]):
        if f.name in NOT_CLIENTS or f.name in release_helpers or f.name in in_context:
            continue
        where = "%s:%d" % (f.file, f.line)
        worst = {}
        for k, pa in enumerate(cache.get(f.name, inline_static=True)):
            owned = (0,) if f.name == "_cbor_builder_append" else ()
            res = B.analyse(f, pa, owned_params=owned)
            for (t_, mv, ce) in B.lost:
                key = (f.name, "moved", ce.ins.id)
                worst[key] = (False, "reference moved into %s" % ce.callee,
                              "cbor_move gave up the only reference before %s, which takes one only on success: if it fails the item is "
                              "owned by nobody (leak)" % ce.callee, ce.ins.loc(), pa)
            # raw frees of owned items: only legal for an item that owns no separate block yet
            raw = {}
            for e in pa.events:
                if e.kind == "call" and e.ckind == "alloc" and e.callee == "_cbor_free":
                    raw[O.base_of(e.args[0])] = e
            for t, b, hist, acq in res:
                if pa.st.known_null(t):
                    continue
                if t in raw and b == 1:
                    # freed directly: acceptable when the constructor allocates nothing besides the item block
                    origin = acq.callee if acq is not None else None
                    kind = ctors.get(origin, {}).get("data") if origin else None
                    okraw = kind == "null"
                    key = (f.name, "raw", origin)
                    cur = worst.get(key)
                    if cur is None or (cur[0] and not okraw):
                        worst[key] = (okraw, "raw release of the fresh %s result" % origin,
                                      "" if okraw else "_cbor_free of an item whose constructor (%s) also allocated a data block: that block leaks" % origin,
                                      raw[t].ins.loc(), pa)
                    continue
                key = (f.name, acq.ins.id if acq is not None and acq.ins is not None else str(t)[:40])
                ok = b == 0
                if ok:
                    cur = worst.get(key)
                    if cur is None:
                        worst[key] = (True, "reference from %s" % (acq.callee if acq is not None else "parameter"), "",
                                      acq.ins.loc() if acq is not None and acq.ins is not None else where, pa)
                else:
                    what = "leaked (never released or handed off)" if b > 0 else "released more often than it was acquired"
                    steps = "; ".join("%+d %s@%s" % (d, w, e.ins.loc() if e is not None and e.ins is not None else "entry") for d, w, e in hist)
                    worst[key] = (False, "reference from %s" % (acq.callee if acq is not None and acq.kind == "call" else "parameter/slot"),
                                  "reference is %s on a path returning %s: %s" % (what, pa.ret, steps),
                                  acq.ins.loc() if acq is not None and acq.ins is not None else where, pa)
        for key, (ok, inst, detail, loc, pa) in worst.items():
            nacq += 1
            chk.ob(rule, "%s%s: %s" % (tag, f.name, inst), ok, loc, fn=f.name, key="%s%s:%s" % (tag, key[0], key[1] if len(key) < 3 else key[2]),
                   detail=detail, path=pa.block_lines() if not ok else None)
    if floor:
        chk.floor(rule, "owned references tracked", nacq, floor)
    return nacq


def run(ctx, chk):
    prog = ctx.prog()
    eff = ctx.effects(prog)
    cache = O.PathCache(prog, eff)
    N = O.Nullness(prog, eff, cache)
    B = O.Balance(prog, eff, cache, N)
    ctors = tables.constructors(prog, eff)
    chk.explanation = ("the dynamic formulation refuses the k-th request per scenario; the static one enumerates every "
                       "allocation site x every path after it (path engine over all %d library functions), covering all k "
                       "for all inputs: NULL-test discipline with interprocedurally computed may-return-alloc-null / "
                       "may-deref-unchecked summaries, reference and raw-block ownership balance on every path, "
                       "no-store/no-incref before a false return in container operations, and the failure channel of "
                       "cbor_serialize_alloc and the builders." % len(prog.lib_funcs()))
    chk.rule("C06.null", "a possibly-NULL allocation result (allocator call, or call to a function whose summary may return "
                         "an allocation-NULL) is tested before it is dereferenced, passed to a callee that dereferences it "
                         "unchecked, or left inside a structure that is returned")
    chk.rule("C06.release", "every owned reference is released, handed off or returned exactly once on every path (failure "
                            "arms included); a raw _cbor_free of an item is legal only while it owns no other block")
    chk.rule("C06.blocks", "every raw allocator block is, on every path, exactly one of: attached to an item / out-parameter, "
                           "returned, transferred by set_handle, or passed to _cbor_free")
    chk.rule("C06.atomic", "container operations: no store through the container and no incref of the argument on a path that "
                           "returns false; a failed reallocation's NULL is never stored")
    chk.rule("C06.channel", "cbor_serialize_alloc failure: returns 0 with *buffer = NULL and *buffer_size = 0; builder "
                            "callbacks raise creation_failed on every allocation-NULL edge")
    chk.not_decided += ["behaviour of the allocator itself; clients' handling of the reported failure"]

    # ---- null discipline
    nsites = 0
    for f in prog.lib_funcs():
        for ok, kind, origin, e, detail, pa in N.check_function(f):
            nsites += 1
            use = (e.callee if e.kind == "call" else e.kind) if kind == "deref" else "returned structure"
            chk.ob("C06.null", "%s: %s result -> %s" % (f.name, origin.callee, use), ok,
                   (e.ins.loc() if kind == "deref" else origin.ins.loc()), fn=f.name,
                   key="%s:%s:%s" % (f.name, origin.callee, use), detail="" if ok else detail,
                   path=pa.block_lines() if not ok else None)
    chk.floor("C06.null", "source x use sites", nsites, 150)
    chk.extra["may_return_alloc_null"] = sorted(N.mrn)
    chk.count("may_deref_unchecked summaries", sum(len(v) for v in N.mdu.values()))

    # ---- release / balance
    check_balance(chk, "C06.release", prog, eff, cache, N, B, ctors, floor=60)

    if ctx.tier == "thorough":
        # deeper unrolling (every loop 0..3 times) for the two generic trace checkers
        deep = O.PathCache(prog, eff, loop_bound=3)
        N3 = O.Nullness(prog, eff, deep)
        B3 = O.Balance(prog, eff, deep, N3)
        nd = 0
        for f in prog.lib_funcs():
            for ok, kind, origin, e, detail, pa in N3.check_function(f):
                nd += 1
                use = (e.callee if e.kind == "call" else e.kind) if kind == "deref" else "returned structure"
                chk.ob("C06.null", "[3 iterations] %s: %s result -> %s" % (f.name, origin.callee, use), ok,
                       (e.ins.loc() if kind == "deref" else origin.ins.loc()), fn=f.name, key="deep:%s:%s:%s" % (f.name, origin.callee, use),
                       detail="" if ok else detail)
        check_balance(chk, "C06.release", prog, eff, deep, N3, B3, ctors, tag="[3 iterations] ")
        chk.extra["deep_paths"] = sum(len(deep.get(f.name)) for f in prog.lib_funcs())

    check_blocks(chk, "C06.blocks", prog, cache, floor=26)
    chk.rule("C06.stack-records", "every record unlinked from a decoding stack on a path of the function that owns the stack is handed to the "
                                  "installed free before that function returns (stack module inlined)")
    check_stack_records(chk, "C06.stack-records", prog, eff)
    chk.rule("C06.no-stale-block", "a refused (re)allocation leaves no field pointing at a freed block: after freeing a block read from a "
                                   "heap field the field is overwritten or its owner freed on the same path (reallocation wrappers inlined)")
    check_dangling(chk, "C06.no-stale-block", prog, eff, cache)

    check_atomic(chk, "C06.atomic", prog, cache, floor=12)

    # ---- failure channel
    f = prog.fn("cbor_serialize_alloc")
    where = "%s:%d" % (f.file, f.line)
    bi, si = f.param_index("buffer"), f.param_index("buffer_size")
    nfail = 0
    for k, pa in enumerate(cache.get(f.name)):
        if pa.ret != ("c", 0):
            continue
        nfail += 1
        buf = pa.st.load(("arg", bi), "i8*", None) if pa.st.is_defined(("arg", bi), 8) else None
        okb = buf is not None and (buf == ("c", 0) or pa.st.known_null(buf))
        sz_nonnull = pa.st.known_nonnull(("arg", si))
        oks = True
        if sz_nonnull:
            oks = pa.st.is_defined(("arg", si), 8) and pa.st.load(("arg", si), "i64", None) == ("c", 0)
        chk.ob("C06.channel", "cbor_serialize_alloc failure path %d: *buffer NULL, *buffer_size 0" % k, okb and oks, where, fn=f.name,
               key="ser_alloc:%d" % k, detail="" if okb and oks else "*buffer=%r, size written correctly: %s" % (buf, oks))
    chk.floor("C06.channel", "failure paths of cbor_serialize_alloc", nfail, 3)
    cf_off = prog.field_offset("_cbor_decoder_context", "creation_failed")
    load = prog.fn("cbor_load")
    g = __import__("tables").load_callbacks_global(prog)
    builders = sorted({el.name for el in g["init_val"].elems if hasattr(el, "name")})
    nb = 0
    for bn in builders + ["_cbor_builder_append"]:
        bf = prog.fn(bn)
        for k, pa in enumerate(cache.get(bn)):
            src, alias = N.sources(pa)
            nulls = [s for s in src if pa.st.known_null(s)]
            falses = [e for e in pa.events if e.kind == "call" and e.ckind == "lib" and e.callee in CONTAINER_OPS and _falsy(pa.st, e.res)]
            if not nulls and not falses:
                continue
            cf = any(e.kind == "store" and ptr_key(e.args[0])[1] == cf_off and isinstance(ptr_key(e.args[0])[0], tuple) and ptr_key(e.args[0])[0][0] == "arg" and e.extra == "i8" and e.args[1] == ("c", 1) for e in pa.events)
            nb += 1
            chk.ob("C06.channel", "%s path %d: refused allocation raises creation_failed" % (bn, k), cf, "%s:%d" % (bf.file, bf.line),
                   fn=bn, key="%s:cf:%d" % (bn, k), detail="" if cf else "allocation failure is swallowed (no MEMERROR)",
                   path=pa.block_lines() if not cf else None)
    chk.floor("C06.channel", "allocation-failure paths in builders", nb, 20)
    chk.count("functions", len(prog.lib_funcs()))
    chk.count("paths", sum(len(cache.get(f.name)) for f in prog.lib_funcs()))
    chk.rule("C06.record-items", "the item a decoding-stack record carries is released (cbor_decref) or handed on (stored into its parent / the "
             "context) on every path that unlinks the record: otherwise the partially built item and every block attached to it "
             "never reach the installed free (failure leaves no partial state behind)")
    check_record_items(chk, "C06.record-items", prog, eff)
    chk.rule("C06.no-access-after-free", "on every path of every library function (unit-internal helpers and the stack module inlined) no load or "
             "store addresses a block after it was handed to the installed free, and no block is handed to it twice (failure atomicity does not depend on what freed memory holds)")
    check_no_access_after_free(chk, "C06.no-access-after-free", prog, eff)
    chk.rule("C06.null-belief", "a pointer parameter that the function itself compares with NULL (an optional out-parameter) is accessed only "
             "where the path has established it is not NULL (a refused allocation in cbor_serialize_alloc called without a size out-parameter must return 0, not fault)")
    import rules as _rnb
    import ownership as _Onb
    _rnb.check_null_belief(chk, "C06.null-belief", prog, _Onb.PathCache(prog, eff))
    chk.rule("C06.drain", "every NULL-returning path of cbor_load that follows a decoder call leaves through the drain loop: each round releases "
             "the top item and pops its record, and the loop is left on the stack-empty edge - nothing the decoder built stays behind "
             "(failure leaves no partial state; shared with C01.drain)")
    from props.c01 import check_load_paths
    check_load_paths(chk, prog, eff, R_window=None, R_drain="C06.drain", R_outcome=None)
    chk.rule("C06.push-atomic", "the decoding stack's push either links a record and counts it or refuses and leaves the stack as it was: no field of the "
             "stack header is written on a path of _cbor_stack_push that returns NULL (a refused record allocation must not be counted - "
             "cbor_load unwinds `size` records), and a successful push makes the returned record the top and the depth one larger")
    import rules as _rpa
    _rpa.check_push_atomic(chk, "C06.push-atomic", prog, eff)
    chk.rule("C06.capacity-field", "a block installed as a container's storage comes with its element capacity, and a recorded capacity is the one the "
             "installed block was requested with: the slots between count and capacity exist (a refused or half-granted growth must not publish a capacity; shared with C12.capacity-field)")
    import ownership as _Ocf
    from props.c12 import check_capacity_field as _ccf
    _ccf(chk, "C06.capacity-field", prog, eff, _Ocf.PathCache(prog, eff))
    chk.exhaustive = True


def _falsy(st, r):
    for t, truth in st.truth.items():
        x = t
        while isinstance(x, tuple) and x[0] == "cast":
            x = x[3]
        if x == r and truth is False:
            return True
    return False


def check_atomic(chk, rule, prog, cache, floor=None):
    natom = 0
    for name in CONTAINER_OPS:
        f = prog.fn(name)
        where = "%s:%d" % (f.file, f.line)
        CONT = ("arg", 0)
        for k, pa in enumerate(cache.get(name, inline_static=True)):
            if pa.ret != ("c", 0):
                # success, or result of a nested container operation (its own atomicity is checked)
                if not is_const(pa.ret):
                    callee_ev = [e for e in pa.events if e.kind == "call" and e.res == pa.ret]
                    ok = bool(callee_ev) and callee_ev[0].callee in CONTAINER_OPS
                    # before delegating, nothing may have been modified unless that earlier step succeeded
                    natom += 1
                    chk.ob(rule, "%s path %d delegates to %s" % (name, k, callee_ev[0].callee if callee_ev else "?"), ok, where,
                           fn=name, key="%s:delegate:%d" % (name, k))
                continue
            bad = []
            for e in pa.events:
                if e.kind == "store":
                    b = ptr_key(e.args[0])[0]
                    if P.derives(b, CONT):
                        bad.append("store at %s" % e.ins.loc())
                elif e.kind == "call" and e.ckind == "lib":
                    if e.callee == "cbor_incref":
                        bad.append("incref at %s" % e.ins.loc())
                    elif e.callee in CONTAINER_OPS:
                        if pa.st.truth.get(e.res) is not False and not _falsy(pa.st, e.res):
                            bad.append("nested %s succeeded before the failure at %s" % (e.callee, e.ins.loc()))
                    elif e.callee in ("_cbor_realloc_multiple",):
                        if not pa.st.known_null(e.res):
                            bad.append("reallocation succeeded but the operation reports failure (block lost) at %s" % e.ins.loc())
                    elif e.callee == "cbor_intermediate_decref" or e.callee == "cbor_decref":
                        bad.append("release at %s" % e.ins.loc())
            natom += 1
            chk.ob(rule, "%s path %d returns false without side effects" % (name, k), not bad, where, fn=name,
                   key="%s:false:%d" % (name, k), detail="; ".join(bad), path=pa.block_lines() if bad else None)
    if floor:
        chk.floor(rule, "failure paths of container operations", natom, floor)
    return natom



def check_dangling(chk, rule, prog, eff, cache, floor=4):
    """No field of a live object is left pointing at a block that has been handed to the installed free: on every path
    of every library function (static helpers and the two reallocation wrappers inlined), a block that was read out of
    a heap field and then freed has that field overwritten, or the object holding the field freed, later on the path.
    Otherwise the block would be released (or resized) a second time through the stale field."""
    wrappers = {n for n in ("_cbor_realloc_multiple", "_cbor_alloc_multiple") if n in prog.funcs}
    n = 0
    # unit-internal helpers are judged in the context of the functions they are inlined into (a helper may free or
    # resize a block whose field its caller then updates, or whose owner its caller then frees)
    in_context = set()
    for g_ in prog.lib_funcs():
        in_context |= O.static_callees(prog, eff, g_.name)
    for f in prog.lib_funcs():
        if f.name in wrappers or f.name in in_context:
            continue
        for k, pa in enumerate(cache.get(f.name, inline=O.static_callees(prog, eff, f.name) | wrappers)):
            evs = pa.events
            for i, e in enumerate(evs):
                if e.kind == "call" and e.ckind == "alloc" and e.callee == "_cbor_realloc" and pa.st.known_nonnull(e.res):
                    # a successful resize: the old block is gone, the field it was read from must receive the new one
                    p = e.args[0]
                    while isinstance(p, tuple) and p[0] == "cast":
                        p = p[3]
                    if isinstance(p, tuple) and p[0] == "ld" and not (isinstance(ptr_key(p[1])[0], tuple) and ptr_key(p[1])[0][0] == "alloca"):
                        n += 1
                        tgt = (ptr_key(p[1])[0], ptr_key(p[1])[1] + p[2])
                        ok = any(x.kind == "store" and ptr_key(x.args[0]) == tgt and x.args[1] == e.res for x in evs[i + 1:])
                        chk.ob(rule, "%s path %d: a resized block replaces the old one in the field it came from" % (f.name, k), ok, e.ins.loc(),
                               fn=f.name, key="%s:resized:%s:%d" % (f.name, e.fn.name, e.ins.id),
                               detail="" if ok else "the block read from %s was resized successfully but the field still holds the old address"
                               % DR.fmt_term(("p", p[1], p[2]) if p[2] else p[1]), path=pa.block_lines() if not ok else None)
                    continue
                if not (e.kind == "call" and e.ckind == "alloc" and e.callee == "_cbor_free"):
                    continue
                p = e.args[0]
                while isinstance(p, tuple) and p[0] == "cast":
                    p = p[3]
                if not (isinstance(p, tuple) and p[0] == "ld"):
                    continue
                X, off = p[1], p[2]
                bx = ptr_key(X)[0] if isinstance(X, tuple) else X
                if isinstance(bx, tuple) and bx[0] == "alloca":
                    continue     # a local variable holding the pointer, not a field of a heap object
                n += 1
                # where was p loaded?
                li = next((j for j, x in enumerate(evs) if x.kind == "load" and x.res == p), 0)
                later = evs[li:]
                cleared = any(x.kind == "store" and ptr_key(x.args[0]) == (ptr_key(X)[0], ptr_key(X)[1] + off) for x in later)
                if not cleared:
                    # ... or overwritten wholesale (the enclosing struct published from a working copy): the field's final value
                    final = pa.st.load(P.mkptr(X, off), "i8*", None)
                    cleared = final != p
                owner_freed = any(x.kind == "call" and x.callee == "_cbor_free" and x is not e and
                                  isinstance(x.args[0], tuple) and (x.args[0] == X or ptr_key(x.args[0])[0] == ptr_key(X)[0]) for x in evs[i + 1:])
                ok = cleared or owner_freed
                chk.ob(rule, "%s path %d: a freed block is not left behind in a live field" % (f.name, k), ok, e.ins.loc(), fn=f.name,
                       key="%s:dangling:%s:%d" % (f.name, e.fn.name, e.ins.id),
                       detail="" if ok else "the block read from %s is freed, but that field is neither overwritten nor its owner freed on this "
                                            "path: the stale pointer will be freed or resized again" % DR.fmt_term(("p", X, off) if off else X),
                       path=pa.block_lines() if not ok else None)
    chk.floor(rule, "frees of blocks read from heap fields", n, floor)


def _is_record_ptr(ty):
    """the stored value is a pointer to a stack record (the `top` field sits at offset 0, where many other things live too)"""
    return isinstance(ty, str) and "_cbor_stack_record" in ty and ty.rstrip().endswith("*")


def check_stack_records(chk, rule, prog, eff, floor=4):
    """Frames of the decoding stack: a record that a function unlinks from a decoding stack (the top pointer moves past it)
    is handed to the installed free on the same path - it is not parked anywhere that outlives the unlinking without being
    released before the function returns.  Decided on the paths of every function that owns a `struct _cbor_stack` local
    (cbor_load), with the functions of the stack module inlined so that what pop / release / init really do is visible."""
    stack_unit = prog.fn("_cbor_stack_pop").unit
    mod = {f.name for f in prog.lib_funcs() if f.unit == stack_unit}
    top_off = prog.field_offset("_cbor_stack", "top")
    lower_off = prog.field_offset("_cbor_stack_record", "lower")
    n = 0
    for f in prog.lib_funcs():
        if f.name in mod:
            continue
        if not any(i.op == "alloca" and "struct._cbor_stack" in i.d.get("alloc_type", "") and "record" not in i.d.get("alloc_type", "")
                   for i in f.all_insts()):
            continue
        where = "%s:%d" % (f.file, f.line)
        for k, pa in enumerate(P.Executor(prog, eff, inline=mod, loop_bound=2).run(f.name)):
            cur = {}        # stack base -> current top term
            unlinked = []
            for e in pa.events:
                if e.kind == "load":
                    b, o = ptr_key(e.args[0])
                    if o == top_off and isinstance(b, tuple) and b[0] == "alloca":
                        cur[b] = e.res
                elif e.kind == "store":
                    b, o = ptr_key(e.args[0])
                    if o == top_off and isinstance(b, tuple) and b[0] == "alloca" and _is_record_ptr(e.extra):
                        old = cur.get(b)
                        new = e.args[1]
                        if isinstance(old, tuple) and old[0] in ("ld", "call") and new != old:
                            relinked = any(x.kind == "store" and x.args[1] == old and ptr_key(x.args[0]) == (ptr_key(new)[0] if isinstance(new, tuple) else None, lower_off)
                                           for x in pa.events)
                            if not relinked:
                                unlinked.append((old, e))
                        cur[b] = new
            if not unlinked:
                continue
            freed = {x.args[0] for x in pa.events if x.kind == "call" and x.ckind == "alloc" and x.callee == "_cbor_free"}
            for rec, e in unlinked:
                n += 1
                ok = rec in freed
                chk.ob(rule, "%s path %d: a record unlinked from the decoding stack is released" % (f.name, k), ok, e.ins.loc(), fn=f.name,
                       key="%s:rec:%s:%d" % (f.name, e.fn.name, e.ins.id),
                       detail="" if ok else "the record popped at %s is not handed to the installed free before %s returns (it is kept somewhere "
                                            "the function's exit never releases)" % (e.ins.loc(), f.name), path=pa.block_lines() if not ok else None)
    chk.floor(rule, "records unlinked on paths", n, floor)


def check_record_items(chk, rule, prog, eff, floor=8):
    """The item a stack record carries is owned by that record: a function that unlinks a record from a decoding stack
    (cbor_load's drain loop, the builder callbacks that complete a container) has, on the same path, released that item
    (cbor_decref on the record's item field or on the value read from it) or handed it on (stored it into its parent,
    the context's root, ...).  A record popped without either takes the partially built item - and everything attached
    to it - out of reach: nothing ever hands those blocks to the installed free."""
    stack_unit = prog.fn("_cbor_stack_pop").unit
    mod = {f.name for f in prog.lib_funcs() if f.unit == stack_unit}
    top_off = prog.field_offset("_cbor_stack", "top")
    lower_off = prog.field_offset("_cbor_stack_record", "lower")
    item_off = prog.field_offset("_cbor_stack_record", "item")
    n = 0
    in_context = set()
    for g in prog.lib_funcs():
        in_context |= O.static_callees(prog, eff, g.name)
    for f in prog.lib_funcs():
        if f.name in mod or f.name in in_context:
            continue
        if "_cbor_stack_pop" not in eff.transitive_callees(f.name):
            continue
        lb = 2 if f.back_edges() else 1
        for k, pa in enumerate(P.Executor(prog, eff, inline=mod | O.static_callees(prog, eff, f.name), loop_bound=lb).run(f.name)):
            cur = {}
            unlinked = []
            for e in pa.events:
                if e.kind == "load":
                    b, o = ptr_key(e.args[0])
                    if o == top_off:
                        cur[b] = e.res
                elif e.kind == "store":
                    b, o = ptr_key(e.args[0])
                    if o == top_off and _is_record_ptr(e.extra):
                        old = cur.get(b)
                        new = e.args[1]
                        if isinstance(old, tuple) and old[0] in ("ld", "call") and new != old:
                            relinked = any(x.kind == "store" and x.args[1] == old and ptr_key(x.args[0]) == (ptr_key(new)[0] if isinstance(new, tuple) else None, lower_off)
                                           for x in pa.events)
                            # a block allocated on this path that becomes the top is a push, whatever way its `lower` is filled in
                            pushed = any(x.kind == "call" and x.ckind == "alloc" and x.res == new for x in pa.events)
                            if not pushed and isinstance(new, tuple):
                                # ... or any record (a cached spare) whose `lower` link ends up pointing at the old top
                                lp = P.mkptr(new, lower_off)
                                pushed = pa.st.is_defined(lp, 8) and pa.st.load(lp, "i8*", None) == old
                            if not relinked and not pushed:
                                unlinked.append((old, e))
                        cur[b] = new
            for rec, e in unlinked:
                items = {x.res for x in pa.events if x.kind == "load" and ptr_key(x.args[0]) == (rec, item_off)}
                ok = False
                for x in pa.events:
                    if x.kind == "call" and x.callee in ("cbor_decref", "cbor_intermediate_decref"):
                        a0 = x.args[0]
                        if ptr_key(a0) == (rec, item_off) or a0 in items or (x.extra and isinstance(x.extra, dict) and x.extra.get("pointee") and x.extra["pointee"][0] in items):
                            ok = True
                    elif x.kind == "store" and x.args[1] in items:
                        ok = True
                    elif x.kind == "call" and x.ckind == "lib" and any(a in items for a in x.args):
                        # handed to a routine that keeps it (stores it somewhere reachable from its arguments) or counts it
                        S_ = eff.summ.get(x.callee, {})
                        if x.callee in O.TAKES_REF or any(v_ == ("param", j_) for j_, a in enumerate(x.args) if a in items
                                                          for _t, v_ in S_.get("stores", ())):
                            ok = True
                n += 1
                chk.ob(rule, "%s path %d: the item of a record unlinked from the decoding stack is released or handed on" % (f.name, k), ok,
                       e.ins.loc(), fn=f.name, key="%s:recitem:%s:%d" % (f.name, e.fn.name, e.ins.id),
                       detail="" if ok else "the record is popped but its item is neither passed to cbor_decref nor stored anywhere on this path: "
                                            "the partially built item and all blocks attached to it are never handed to the installed free",
                       path=pa.block_lines() if not ok else None)
    chk.floor(rule, "records unlinked on paths (item ownership)", n, floor)


def _addr_root(t):
    """the pointer an address is computed from: peel constant offsets and indexing"""
    while isinstance(t, tuple) and t[0] in ("p", "idx"):
        t = t[1]
    return t


def check_no_access_after_free(chk, rule, prog, eff, floor=20):
    """A block handed to the installed free is gone: on every path of every library function (unit-internal helpers and
    the stack module inlined) no later load or store addresses that block, and it is not handed to free a second time.
    What the block contained must have been read BEFORE the release - its contents afterwards are whatever the
    allocator likes (glibc happens to keep bytes 16.. of a small block; a poisoning or unmapping allocator does not)."""
    stack_unit = prog.fn("_cbor_stack_pop").unit
    mod = {f.name for f in prog.lib_funcs() if f.unit == stack_unit}
    in_context = set()
    for g in prog.lib_funcs():
        in_context |= O.static_callees(prog, eff, g.name)
    n = 0
    for f in prog.lib_funcs():
        if f.name in in_context and f.name not in mod:
            continue
        S = eff.summ.get(f.name, {})
        if not S.get("frees"):
            continue
        inl = (mod | O.static_callees(prog, eff, f.name)) - {f.name}
        worst = {}
        for k, pa in enumerate(P.Executor(prog, eff, inline=inl, loop_bound=1).run(f.name)):
            freed = {}
            handed = {}
            for e in pa.events:
                if e.kind == "call" and e.ckind == "alloc" and e.callee == "_cbor_free":
                    x = e.args[0]
                    while isinstance(x, tuple) and x[0] == "cast":
                        x = x[3]
                    key = ("free", e.fn.name, e.ins.id)
                    n_key = key
                    if x in freed and x != ("c", 0):
                        worst[n_key] = (False, e, "the block released at %s is handed to free again" % freed[x].ins.loc(), pa)
                    else:
                        worst.setdefault(n_key, (True, e, "", pa))
                    if isinstance(x, tuple) and x[0] in ("ld", "call", "arg"):
                        freed[x] = e
                elif e.kind in ("load", "store") and freed:
                    r = _addr_root(e.args[0])
                    if r in freed:
                        fe = freed[r]
                        worst[("free", fe.fn.name, fe.ins.id)] = (False, fe, "%s at %s addresses the block after it was released" % (e.kind, e.ins.loc()), pa)
                if e.kind == "call" and e.ckind == "lib" and e.callee in O.CONSUMES and e.depth == 0:
                    # handing an item to a routine that consumes the reference (the builder's append: attaches it to its parent, or
                    # releases it when the parent refuses it): from here on the item may be gone
                    for kk in O.CONSUMES[e.callee]:
                        x = e.args[kk] if kk < len(e.args) else None
                        if isinstance(x, tuple) and x[0] == "call" and x[1].startswith(("cbor_new_", "cbor_build_")):
                            handed[x] = e
                            worst.setdefault(("handoff", e.fn.name, e.ins.id), (True, e, "", pa))
                elif handed and e.kind in ("load", "store", "call") and e.depth == 0:
                    roots = [_addr_root(e.args[0])] if e.kind != "call" else [a for a in e.args if isinstance(a, tuple)]
                    for r in roots:
                        if r in handed:
                            he = handed[r]
                            worst[("handoff", he.fn.name, he.ins.id)] = (
                                False, he, "%s at %s uses the item after it was handed to %s, which releases it when its parent refuses it" % (
                                    e.callee if e.kind == "call" else e.kind, e.ins.loc(), he.callee), pa)
        for key, (ok, e, det, pa) in worst.items():
            n += 1
            chk.ob(rule, "%s: nothing addresses a block after its release in %s" % (f.name, e.fn.name), ok, e.ins.loc(), fn=f.name,
                   key="%s:uaf:%s:%d" % (f.name, key[1], key[2]), detail=det, path=pa.block_lines() if not ok else None)
    chk.floor(rule, "release sites on paths", n, floor)


def check_blocks(chk, rule, prog, cache, floor=None):
    nblocks = 0
    for f in prog.lib_funcs():
        worst = {}
        for pa in cache.get(f.name):
            for e in pa.events:
                if not (e.kind == "call" and ((e.ckind == "alloc" and e.callee == "_cbor_malloc") or
                                              (e.ckind == "lib" and e.callee in ("_cbor_alloc_multiple",)))):
                    continue
                if f.name in ("_cbor_alloc_multiple",):
                    continue
                blk = e.res
                if pa.st.known_null(blk):
                    continue
                sinks = []
                for e2 in pa.events:
                    if e2 is e:
                        continue
                    if e2.kind == "store" and e2.args[1] == blk and ptr_key(e2.args[0])[0][0] != "alloca":
                        sinks.append("stored")
                    elif e2.kind == "store" and e2.args[1] == blk:
                        # into a local aggregate: counts if that aggregate is copied out
                        lb = ptr_key(e2.args[0])[0]
                        if any(e3.kind == "memcpy" and ptr_key(e3.args[1])[0] == lb and ptr_key(e3.args[0])[0][0] != "alloca"
                               for e3 in pa.events):
                            sinks.append("stored")
                    elif e2.kind == "call" and e2.ckind == "alloc" and e2.callee == "_cbor_free" and O.base_of(e2.args[0]) == blk:
                        sinks.append("freed")
                    elif e2.kind == "call" and e2.ckind == "lib" and e2.callee.endswith("_set_handle") and blk in e2.args:
                        sinks.append("handed over")
                    elif e2.kind == "memcpy" and ptr_key(e2.args[0]) == (blk, 0) and False:
                        pass
                if pa.ret == blk:
                    sinks.append("returned")
                # the item block itself: initialised by memcpy from the literal and then returned/freed
                uniq = set(sinks)
                ok = len(uniq) >= 1 and not ({"freed"} < uniq and ("returned" in uniq or "handed over" in uniq))
                if "freed" in uniq and "stored" in uniq and len(uniq) == 2:
                    ok = False
                key = (f.name, e.ins.id)
                det = "" if ok else ("block from %s is %s on a path returning %s" %
                                     (e.callee, "leaked" if not uniq else "both " + " and ".join(sorted(uniq)), pa.ret))
                cur = worst.get(key)
                if cur is None or (cur[0] and not ok):
                    worst[key] = (ok, e, det, pa)
        for key, (ok, e, det, pa) in worst.items():
            nblocks += 1
            chk.ob(rule, "%s: block from %s" % (f.name, e.callee), ok, e.ins.loc(), fn=f.name,
                   key="%s:%s:%d" % (f.name, e.callee, [x.id for x in prog.fn(f.name).calls() if x.line <= e.ins.line].__len__()),
                   detail=det, path=pa.block_lines() if not ok else None)
    if floor:
        chk.floor(rule, "allocation sites", nblocks, floor)
    return nblocks

