"""C07 - size, serialize and serialize_alloc agree; nothing is written beyond the buffer (DESIGN §4 C07)."""
from build import AnalysisBroken
import paths as P
from paths import ptr_key, is_const
import encoder_rules as ER
import ownership as O
import decoder_rules as DR

COMPOSITES = ["cbor_serialize_bytestring", "cbor_serialize_string", "cbor_serialize_array", "cbor_serialize_map", "cbor_serialize_tag"]


def leaves(t):
    if isinstance(t, tuple) and t[0] == "op" and t[1] == "add":
        return leaves(t[3]) + leaves(t[4])
    return [t]


def same_sum(a, b):
    if a is None or b is None:
        return a is b
    return sorted(map(repr, leaves(a))) == sorted(map(repr, leaves(b))) or P.linear(a) == P.linear(b)


def window_args(bufarg, sizearg, BUF, SIZE, W):
    """the nested call receives buffer + W and buffer_size - W for the running total W - however the two are spelled (a
    cursor pointer advanced step by step and a remaining-room counter decremented step by step are the same thing)"""
    if W is None:
        return bufarg == BUF, sizearg == SIZE
    lw = P.linear(W)
    return P.linear_diff(bufarg, BUF) == lw, P.linear_diff(SIZE, sizearg) == lw


def positive(st, r):
    return st.lo.get(r, 0) >= 1 or 0 in st.nec.get(r, ()) or st.truth.get(("icmp", "eq", r, ("c", 0))) is False or st.truth.get(r) is True


def run(ctx, chk):
    prog = ctx.prog()
    eff = ctx.effects(prog)
    cache = O.PathCache(prog, eff)
    chk.explanation = ("(1) every primitive write buffer[i] is on a path whose facts imply buffer_size >= i+1, the constant "
                       "returned equals the bytes stored, and a path returning 0 stores nothing - relational in exactly the "
                       "way needed (a guard '>= 8' before a store to buffer[8] is a violation); (2) in the composite "
                       "serializers every nested call receives buffer + w and buffer_size - w for the same running total "
                       "w, a zero result is propagated before it is added, memcpy is guarded by remaining >= length; (3) "
                       "cbor_serialized_size returns, case by case, the constant the serializer's primitive returns, and "
                       "the header-size partition equals the shortest-form partition; (4) serialize_alloc uses one value "
                       "for the allocation, the serialization and the reported size.")
    chk.rule("C07.guard", "primitive encoders: every store to buffer[i] only where buffer_size >= i+1; returned constant = bytes "
                          "written; a path returning 0 leaves the buffer untouched and is taken only when the buffer is too small")
    chk.rule("C07.window-writes", "second opinion by a different engine: every store through a (buffer, buffer_size) parameter pair, and every "
             "such pair handed on to a nested encoder, stays inside the window on every path (forward dataflow, lib/window.py)")
    import rules as _rw
    _rw.check_window(chk, "C07.window-writes", prog, {"w"}, 60, "verif_ctl_window_write")
    chk.rule("C07.window", "composite serializers pass buffer + w / buffer_size - w with the same running total w, which only "
                           "accumulates callee results; the value returned is that total")
    chk.rule("C07.zero", "a nested result of 0 makes the serializer return 0 before the result is used")
    chk.rule("C07.memcpy", "payload copy goes to buffer + w, is guarded by buffer_size - w >= length, and copies the length "
                           "announced in the head")
    chk.rule("C07.size-encoder", "every encoder writes, for each argument value, the number of bytes of the shortest-form class of that "
                                 "value - the same partition _cbor_encoded_header_size uses (shared with C03.shortest)")
    chk.rule("C07.size-leaf", "cbor_serialized_size returns for every leaf type/width the length the matching encoder writes")
    chk.rule("C07.size-header", "_cbor_encoded_header_size partitions the values exactly like the shortest-form selector")
    chk.rule("C07.size-sum", "composite sizes are header (or 2 for indefinite) plus members, combined only through the "
                             "zero-signalling add")
    chk.rule("C07.alloc", "cbor_serialize_alloc: allocation size = size passed to cbor_serialize = *buffer_size = "
                          "cbor_serialized_size(item), tested non-zero first")
    chk.not_decided += ["byte-for-byte output equality for concrete trees (C03 covers the tables it is built from)",
                        "no underflow of buffer_size - w follows by induction on the callee contract 'returns <= the size it was given'"]

    # (1) guards
    encs = ER.public_encoders(prog)
    for n in encs:
        res, np_ = ER.check_encoder(prog, eff, n)
        for rule, inst, ok, where, detail in res:
            if rule == "guard":
                chk.ob("C07.guard", inst, ok, where, fn=n, detail=detail)
            elif rule in ("shortest", "cover"):
                # the number of bytes an encoder writes for a value is the head size the sizing routine computes for that
                # value (_cbor_encoded_header_size is checked against the same shortest-form classes: C07.size-header)
                chk.ob("C07.size-encoder", inst, ok, where, fn=n, detail=detail)
    chk.floor("C07.guard", "public encoders", len(encs), 27)

    # (2) windows
    nwin = 0
    for name in COMPOSITES:
        f = prog.fn(name)
        where = "%s:%d" % (f.file, f.line)
        bi, si = f.param_index("buffer"), f.param_index("buffer_size")
        BUF, SIZE = ("arg", bi), ("arg", si)
        for k, pa in enumerate(cache.get(name, inline_static=True)):
            st = pa.st
            W = None
            results = []
            length_announced = None
            for e in pa.events:
                if e.kind == "call" and e.ckind == "lib" and (e.callee.startswith("cbor_encode_") or e.callee.startswith("cbor_serialize")):
                    g = prog.fn(e.callee)
                    gn = [p["name"] for p in g.params]
                    gb, gs = gn.index("buffer"), gn.index("buffer_size")
                    wantb = BUF if W is None else None
                    okb, oks = window_args(e.args[gb], e.args[gs], BUF, SIZE, W)
                    nwin += 1
                    chk.ob("C07.window", "%s path %d: %s gets buffer+w, size-w" % (name, k, e.callee), okb and oks, e.ins.loc(), fn=name,
                           key="%s:%s:%d" % (name, e.callee, e.ins.line),
                           detail="" if okb and oks else "buffer=%s size=%s with w=%s" % (DR.fmt_term(e.args[gb]), DR.fmt_term(e.args[gs]),
                                                                                           DR.fmt_term(W) if W else 0),
                           path=pa.block_lines() if not (okb and oks) else None)
                    if e.callee.endswith("string_start") and "length" in gn:
                        length_announced = e.args[gn.index("length")]
                    # was the previous total positive-checked before being extended?
                    results.append(e)
                    W = e.res if W is None else ("op", "add", "i64", W, e.res)
                elif (e.kind == "call" and e.callee == "memcpy") or e.kind == "memcpy" and ptr_key(e.args[0])[0] not in (None,) and \
                        isinstance(ptr_key(e.args[0])[0], tuple) and ptr_key(e.args[0])[0][0] == "idx":
                    dst, src, n = e.args[0], e.args[1], e.args[2]
                    okd = W is not None and dst[0] == "idx" and dst[1] == BUF and same_sum(dst[3][0], W)
                    guard = ("icmp", "uge", ("op", "sub", "i64", SIZE, W), n) if W is not None else None
                    okg = False
                    if W is not None:
                        for t, truth, _ in pa.facts:
                            if t[0] != "icmp":
                                continue
                            for rem in (t[2], t[3]):
                                if isinstance(rem, tuple) and rem[0] == "op" and rem[1] == "sub" and rem[3] == SIZE and same_sum(rem[4], W):
                                    if st.rel_ge(rem, n):
                                        okg = True
                    okl = length_announced is not None and n == length_announced
                    chk.ob("C07.memcpy", "%s path %d: payload copy" % (name, k), okd and okg and okl, e.ins.loc(), fn=name,
                           key="%s:memcpy" % name,
                           detail="" if okd and okg and okl else "destination ok: %s, guarded by remaining >= length: %s, length = announced length: %s"
                           % (okd, okg, okl), path=pa.block_lines() if not (okd and okg and okl) else None)
                    W = ("op", "add", "i64", W, n) if W is not None else n
            # zero propagation
            for i, e in enumerate(results):
                used_later = i + 1 < len(results) or (pa.ret != ("c", 0)) or any(ev.kind == "call" and ev.callee == "memcpy" for ev in pa.events)
                zero = st.truth.get(("icmp", "eq", e.res, ("c", 0))) is True or st.hi.get(e.res, 1) == 0
                if zero:
                    ok = pa.ret == ("c", 0) and i + 1 == len(results)
                    chk.ob("C07.zero", "%s path %d: zero from %s returns 0 at once" % (name, k, e.callee), ok, e.ins.loc(), fn=name,
                           key="%s:zero:%s:%d" % (name, e.callee, e.ins.line), path=pa.block_lines() if not ok else None)
                elif i + 1 < len(results) or pa.ret != ("c", 0):
                    ok = positive(st, e.res)
                    chk.ob("C07.zero", "%s path %d: result of %s checked before use" % (name, k, e.callee), ok, e.ins.loc(), fn=name,
                           key="%s:checked:%s:%d" % (name, e.callee, e.ins.line),
                           detail="" if ok else "a 0 from %s would be swallowed (added to the total / ignored)" % e.callee,
                           path=pa.block_lines() if not ok else None)
            if pa.ret != ("c", 0):
                ok = same_sum(pa.ret, W) or (W is not None and P.linear(pa.ret) == P.linear(W))
                chk.ob("C07.window", "%s path %d: returns the running total" % (name, k), ok, where, fn=name, key="%s:ret:%d" % (name, k),
                       detail="" if ok else "returns %s, total is %s" % (DR.fmt_term(pa.ret), DR.fmt_term(W) if W else 0))
    chk.floor("C07.window", "nested serializer/encoder calls", nwin, 60)

    # (2b) 0 means "too small" and nothing else
    import typestate as _ts
    import serializer_rules as SR
    H_, PA_, _IF, _ = ctx.typestate()
    chk.rule("C07.total", "a serializer returns 0 only on a path where a nested encoder/serializer returned 0 or a comparison "
                          "against buffer_size was decided (so with n >= size the result is not 0); a successful result is positive")
    nt = SR.zero_only_on_short_buffer(chk, "C07.total", prog, eff, _ts.CallSites(prog, eff, cache, H_, PA_), encs)
    chk.floor("C07.total", "serializer paths", nt, 60)

    # (3) size mirrors
    check_size(chk, prog, eff, cache, H_)

    # (4) exact allocation
    f = prog.fn("cbor_serialize_alloc")
    where = "%s:%d" % (f.file, f.line)
    bi, si = f.param_index("buffer"), f.param_index("buffer_size")
    nsucc = 0
    for k, pa in enumerate(cache.get(f.name)):
        sizes = pa.calls("cbor_serialized_size")
        mall = pa.calls("_cbor_malloc")
        ser = pa.calls("cbor_serialize")
        if not ser:
            continue
        nsucc += 1
        S = sizes[0].res if sizes else None
        ok = (len(sizes) == 1 and len(mall) == 1 and mall[0].args[0] == S and ser[0].args[2] == S and sizes[0].args[0] == ("arg", 0)
              and ser[0].args[0] == ("arg", 0) and ser[0].args[1] == mall[0].res and positive(pa.st, S) and pa.st.known_nonnull(mall[0].res))
        chk.ob("C07.alloc", "path %d: one size value for malloc and cbor_serialize, tested non-zero" % k, ok, where, fn=f.name, key="alloc:%d" % k)
        if pa.st.known_nonnull(("arg", si)):
            v = pa.st.load(("arg", si), "i64", None)
            chk.ob("C07.alloc", "path %d: *buffer_size = that size" % k, v == S, where, fn=f.name, key="alloc-size:%d" % k,
                   detail="" if v == S else "*buffer_size = %s" % DR.fmt_term(v))
        chk.ob("C07.alloc", "path %d: returns what cbor_serialize wrote" % k, pa.ret == ser[0].res, where, fn=f.name, key="alloc-ret:%d" % k)
    chk.floor("C07.alloc", "success paths", nsucc, 2)
    chk.rule("C07.null-belief", "a pointer parameter that the function itself compares with NULL (an optional out-parameter) is accessed only "
             "where the path has established it is not NULL (cbor_serialize_alloc behaves the same with and without the optional size out-parameter)")
    import rules as _rnb
    import ownership as _Onb
    _rnb.check_null_belief(chk, "C07.null-belief", prog, _Onb.PathCache(prog, eff))
    chk.rule("C07.getters", "each field accessor returns, on every path, the value of the field it stands for (resolved through the struct "
             "types): no guard, clamp or second opinion between the stored value and the caller (size and serialize read the same counts, lengths and widths)")
    import rules as _rg
    _rg.check_field_getters(chk, "C07.getters", prog, eff, names=('cbor_string_length', 'cbor_bytestring_length', 'cbor_string_handle', 'cbor_bytestring_handle', 'cbor_string_chunk_count', 'cbor_bytestring_chunk_count', 'cbor_string_chunks_handle', 'cbor_bytestring_chunks_handle', 'cbor_array_size', 'cbor_map_size', 'cbor_array_handle', 'cbor_map_handle', 'cbor_tag_value', 'cbor_ctrl_value', 'cbor_float_get_width', 'cbor_int_get_width', 'cbor_typeof'))
    chk.rule("C07.narrowing", "no 64-bit quantity is converted to a narrower integer type except to take one byte of it or below a range test that makes "
             "the conversion lossless (size and serializer see the same length; shared with C02.narrowing)")
    import rules as _rnw2
    _rnw2.check_narrowing(chk, "C07.narrowing", prog, eff=eff)
    chk.rule("C07.width", "each width arm of the integer / float serializers calls the encoder of THAT width - the one whose byte count the sizing "
             "routine reports for the arm (a half that is quietly written as a single is two bytes longer than its size; shared with C03.width)")
    import typestate as _ts7
    import ownership as _O7
    from props.c03 import check_width as _cw7
    _H7, _PA7, _IF7, _x7 = ctx.typestate()
    _c7 = _O7.PathCache(prog, eff)
    _cw7(chk, "C07.width", prog, eff, _c7, _H7, _PA7, _ts7.CallSites(prog, eff, _c7, _H7, _PA7))
    chk.exhaustive = True


def check_header_partition(chk, rule, prog, cache):
    """_cbor_encoded_header_size partitions all 2^64 values exactly like the shortest-form selector of the encoders"""
    # header size partition vs shortest-form classes
    h = prog.fn("_cbor_encoded_header_size")
    cls = ER.classes("shortest", None, (1 << 64) - 1)
    covered = []
    for pa in cache.get(h.name):
        A = ("arg", 0)
        lo, hi = pa.st.lo.get(A, 0), pa.st.hi.get(A, (1 << 64) - 1)
        match = [c for c in cls if c[0] <= lo and hi <= c[1]]
        want = (1 if match[0][3] else 1 + match[0][2]) if match else None
        ok = bool(match) and pa.ret == ("c", want)
        covered.append((lo, hi))
        chk.ob(rule, "values [%d, %d] -> %s byte head" % (lo, hi, want), ok, "%s:%d" % (h.file, h.line), fn=h.name,
               key="hdr:%d" % lo, detail="" if ok else "returns %r; the selector emits %s bytes (classes %s)" % (pa.ret, want, [(a, b) for a, b, _, _ in cls]))
    covered.sort()
    pos = 0
    for lo, hi in covered:
        if lo > pos:
            break
        pos = max(pos, hi + 1)
    chk.ob(rule, "partition covers all 2^64 values", pos > (1 << 64) - 1, "%s:%d" % (h.file, h.line), fn=h.name, key="hdr:cover")
    chk.floor(rule, "partition cells", len(covered), 5)


def check_size(chk, prog, eff, cache, H=None, prefix="C07"):
    import typestate as _ts
    PA_ = _ts.PredAlgebra(prog)
    CS_ = _ts.CallSites(prog, eff, cache, {}, PA_)
    CS_H = _ts.CallSites(prog, eff, cache, H or {}, PA_)
    import serializer_rules as SR_
    f, _size_names = SR_.size_core(prog, eff, cache)
    where = "%s:%d" % (f.file, f.line)
    T = prog.enum("cbor_type")
    IW = prog.enum("cbor_int_width")
    FW = prog.enum("cbor_float_width")
    check_header_partition(chk, prefix + ".size-header", prog, cache)

    # expected leaf lengths from the encoder tables: width -> bytes
    nleaf = 0
    sums = 0
    nzero = 0
    npaths_ = 0
    chk.rule(prefix + ".size-total", "the sizing routine answers 0 (overflow / does not fit) only through the zero-signalling add: no path "
                               "returns the constant 0 for an item whose type and width lie inside the enumerations")
    for k, pa in enumerate(cache.get(f.name, inline_static=True)):
        st = pa.st
        tys_, iw_, fw_, _fl = CS_.summary(f, pa, ("arg", 0))
        npaths_ += 1
        if pa.ret == ("c", 0) and tys_:
            # 0 is the overflow signal (and what cbor_serialize_alloc reports as failure): the sizing routine may produce it
            # only through the signalling add; a path that answers 0 by itself for an item of the enumeration disagrees with
            # the serializer, which encodes that item
            nzero += 1
            outside = (set(tys_) <= {T["CBOR_TYPE_UINT"], T["CBOR_TYPE_NEGINT"]} and not iw_) or (sorted(tys_) == [T["CBOR_TYPE_FLOAT_CTRL"]] and not fw_)
            chk.ob(prefix + ".size-total", "%s path %d: 0 is returned only through the signalling add" % (f.name, k), outside, where, fn=f.name,
                   key="sizetotal:%d" % k, detail="" if outside else "returns 0 by its own decision for items of type %s under %s: "
                   "cbor_serialize encodes such an item, cbor_serialized_size says it has no size"
                   % (sorted(tys_), [DR.fmt_term(t) for t, _tr, _ in pa.facts][:3]), path=pa.block_lines() if not outside else None)
            if not outside:
                continue
        if not tys_ or len(tys_) == 8:
            continue   # infeasible path or the arm for a value outside the enumeration
        ty = sorted(tys_)
        wd = None
        if set(ty) <= {T["CBOR_TYPE_UINT"], T["CBOR_TYPE_NEGINT"]} and len(iw_) == 1:
            wd = ("cbor_int_get_width", sorted(iw_))
        elif ty == [T["CBOR_TYPE_FLOAT_CTRL"]] and len(fw_) == 1:
            wd = ("cbor_float_get_width", sorted(fw_))
        if set(ty) <= {T["CBOR_TYPE_UINT"], T["CBOR_TYPE_NEGINT"]} or ty == [T["CBOR_TYPE_FLOAT_CTRL"]]:
            if wd is None:
                # several widths share this path and the answer is computed from the width (a table indexed by the enumerator, an
                # arithmetic formula): evaluated for each width the path admits
                is_int_ = ty != [T["CBOR_TYPE_FLOAT_CTRL"]]
                ws_ = sorted(iw_ if is_int_ else fw_)
                wname = "cbor_int_get_width" if is_int_ else "cbor_float_get_width"
                if len(ws_) > 1 and not is_const(pa.ret):
                    import termeval as _te
                    wterms = [e.res for e in pa.events if e.kind == "call" and e.callee == wname]
                    tabs_ = {}
                    for g_ in prog.globals.values():
                        iv_ = g_.get("init_val")
                        if g_.get("constant") and iv_ is not None and hasattr(iv_, "elems") and iv_.elems and all(hasattr(x_, "v") for x_ in iv_.elems):
                            tabs_[g_["name"]] = [x_.v for x_ in iv_.elems]
                    for w in ws_:
                        if (is_int_ and w == IW["CBOR_INT_8"]) or (not is_int_ and w == FW["CBOR_FLOAT_0"]):
                            continue
                        try:
                            got_ = _te.evaluate(pa.ret, {t_: w for t_ in wterms}, tabs_)
                        except Exception:
                            got_ = None
                        if got_ is None:
                            continue
                        nbytes = {1: 2, 2: 4, 3: 8}[w]
                        nleaf += 1
                        chk.ob(prefix + ".size-leaf", "%s width %d -> %d bytes" % ("int" if is_int_ else "float", w, 1 + nbytes), got_ == 1 + nbytes, where,
                               fn=f.name, key="leaf:%s:%d" % (is_int_, w),
                               detail="" if got_ == 1 + nbytes else "size reports %r, the encoder writes %d" % (got_, 1 + nbytes))
                continue   # default arms (unreachable widths)
            w = wd[1][0]
            is_int = wd[0] == "cbor_int_get_width"
            if is_int and w == IW["CBOR_INT_8"] or (not is_int and w == FW["CBOR_FLOAT_0"]):
                # one-byte value: 1 up to 23, else 2 - or delegated to the header-size function
                if pa.ret[0] == "call" and pa.ret[1] == "_cbor_encoded_header_size":
                    arg = [e for e in pa.events if e.kind == "call" and e.res == pa.ret][0].args[0]
                    x = arg
                    while x[0] == "cast":
                        x = x[3]
                    ok = x[0] == "call" and x[1] in ("cbor_ctrl_value", "cbor_get_uint8")
                    chk.ob(prefix + ".size-leaf", "8-bit value: size = header size of the value", ok, where, fn=f.name, key="leaf8:hdr:%s" % is_int)
                else:
                    val = None
                    for t, truth, _ in pa.facts:
                        if t[0] == "icmp" and t[1] in ("ule", "ult", "ugt", "uge"):
                            val = (t, truth)
                    ok = False
                    if val and is_const(pa.ret):
                        t, truth = val
                        x = t[2]
                        while x[0] == "cast":
                            x = x[3]
                        hi = st.hi.get(t[2], None)
                        lo = st.lo.get(t[2], 0)
                        ok = x[0] == "call" and x[1] == "cbor_get_uint8" and ((pa.ret == ("c", 1) and hi == 23) or (pa.ret == ("c", 2) and lo == 24))
                    chk.ob(prefix + ".size-leaf", "8-bit integer: 1 byte up to 23, 2 above (path returns %s)" % (pa.ret[1] if is_const(pa.ret) else "?"),
                           ok, where, fn=f.name, key="leaf8:%s" % (pa.ret,), detail="" if ok else "threshold does not match the encoder's immediate range")
                nleaf += 1
            else:
                nbytes = {1: 2, 2: 4, 3: 8}[w]
                ok = pa.ret == ("c", 1 + nbytes)
                nleaf += 1
                chk.ob(prefix + ".size-leaf", "%s width %d -> %d bytes" % ("int" if is_int else "float", w, 1 + nbytes), ok, where, fn=f.name,
                       key="leaf:%s:%d" % (is_int, w), detail="" if ok else "size reports %r, the encoder writes %d" % (pa.ret, 1 + nbytes))
        else:
            # composites: every add of two non-constant sizes goes through the signalling add
            raw_adds = [e for e in pa.events if False]
            sums += 1
            ret = pa.ret
            ok = True
            det = ""
            if is_const(ret):
                ok = ret == ("c", 2)   # empty indefinite container / string: start byte + break
                det = "empty indefinite item must be 2 bytes"
            elif ret[0] == "call" and ret[1] in ("_cbor_safe_signaling_add", "_cbor_encoded_header_size"):
                ok = True
            else:
                ok = False
                det = "size is combined by %s instead of _cbor_safe_signaling_add" % DR.fmt_term(ret)
            # header-only return is allowed only for zero length / zero members
            if ok and ret[0] == "call" and ret[1] == "_cbor_encoded_header_size":
                zero_len = any(t[0] == "icmp" and t[1] == "eq" and t[3] == ("c", 0) and truth for t, truth, _ in pa.facts) or \
                    any(t[0] == "icmp" and t[1] == "ult" and t[2] == ("c", 0) and not truth for t, truth, _ in pa.facts)
                ok = zero_len
                det = "header-only size on a path where the length / member count is not known to be 0"
            chk.ob(prefix + ".size-sum", "path %d (type %s)" % (k, ty), ok, where, fn=f.name, key="sum:%d" % k, detail="" if ok else det)
            # the arguments of every signalling add are sizes, not raw sums
            for e in pa.calls("_cbor_safe_signaling_add"):
                for a in e.args:
                    if isinstance(a, tuple) and a[0] == "op" and a[1] in ("add", "mul"):
                        chk.ob(prefix + ".size-sum", "path %d: operand of the signalling add is itself an unchecked %s" % (k, a[1]), False, e.ins.loc(),
                               fn=f.name, key="rawop:%d" % e.ins.line)
    chk.floor(prefix + ".size-total", "sizing paths examined", npaths_, 20)
    # no raw 64-bit add of two non-constant values in the function at all
    for i in f.all_insts():
        if i.op in ("add", "mul") and i.type == "i64":
            from ir import Const
            a, b = i.operands
            both_var = not isinstance(a, Const) and not isinstance(b, Const)
            is_induction = any(u.op == "phi" for u in f.users(i))
            if both_var and not is_induction:
                chk.ob(prefix + ".size-sum", "raw %s of two sizes at %s" % (i.op, i.loc()), False, i.loc(), fn=f.name, key="raw:%d" % i.line,
                       detail="sizes must be combined with _cbor_safe_signaling_add so that overflow yields 0")
    # the head's argument: the size function sizes the head for the very quantity the serializer writes into it
    chk.rule(prefix + ".size-arg", "for every type with a counted head (definite strings, arrays, maps; tags) the value cbor_serialized_size hands "
                             "to the header-size function is the same field of the item that the serializer hands to the head encoder "
                             "(accessor calls resolved to the fields they read)")
    pure = {n for n, g in prog.funcs.items() if not g.is_extra and n in eff.summ and not eff.summ[n]["writes"] and not eff.summ[n]["allocates"]
            and not eff.summ[n]["frees"] and not eff.summ[n]["callbacks"] and n not in eff.transitive_callees(n) and not g.back_edges()
            and n not in ("_cbor_encoded_header_size", "_cbor_safe_signaling_add", "_cbor_safe_to_add", "_cbor_safe_to_multiply")
            and not n.startswith("cbor_encode_") and not n.startswith("_cbor_encode_")}

    def canon(t):
        if isinstance(t, tuple) and t[0] == "ld":
            return ("ld", canon(t[1]), t[2])
        if isinstance(t, tuple) and t[0] == "cast":
            return canon(t[3])
        if isinstance(t, tuple):
            return tuple(canon(x) if isinstance(x, tuple) else x for x in t)
        return t

    def head_args(fname, is_head):
        out = {}
        g_ = prog.fn(fname)
        X_ = P.Executor(prog, eff, inline=(O.static_callees(prog, eff, fname) | pure) - {fname}, loop_bound=1)
        for pa in X_.run(fname):
            tys_, _iw, _fw, fl_ = CS_H.summary(g_, pa, ("arg", 0))
            if len(tys_) != 1:
                continue
            for e in pa.events:
                if e.kind == "call" and is_head(e):
                    out.setdefault((sorted(tys_)[0], tuple(sorted(fl_))), set()).add(canon(e.args[0]))
                    break
        return out
    size_side = head_args(f.name, lambda e: e.callee == "_cbor_encoded_header_size")
    ser_side = {}
    for sn in ("cbor_serialize_bytestring", "cbor_serialize_string", "cbor_serialize_array", "cbor_serialize_map", "cbor_serialize_tag"):
        for k_, v_ in head_args(sn, lambda e: e.ckind == "lib" and e.callee.startswith("cbor_encode_") and
                                (e.callee.endswith("_start") or e.callee == "cbor_encode_tag") and "indef" not in e.callee).items():
            ser_side.setdefault(k_, set()).update(v_)
    narg = 0
    Tn_ = {v: k for k, v in T.items()}
    for key_, terms in sorted(size_side.items()):
        t_, fl_ = key_
        if t_ not in (T["CBOR_TYPE_BYTESTRING"], T["CBOR_TYPE_STRING"], T["CBOR_TYPE_ARRAY"], T["CBOR_TYPE_MAP"], T["CBOR_TYPE_TAG"]):
            continue
        want = ser_side.get(key_)
        if want is None:
            want = set().union(*[v for k2, v in ser_side.items() if k2[0] == t_]) if any(k2[0] == t_ for k2 in ser_side) else None
        narg += 1
        ok = want is not None and terms <= want
        chk.ob(prefix + ".size-arg", "%s (flavours %s): header sized for the quantity the serializer encodes" % (Tn_[t_], list(fl_)), ok, where, fn=f.name,
               key="sizearg:%d:%s" % (t_, fl_),
               detail="" if ok else "size uses %s, the serializer encodes %s" % (sorted(DR.fmt_term(x) for x in terms),
                                                                                 sorted(DR.fmt_term(x) for x in (want or []))))
    chk.floor(prefix + ".size-arg", "counted heads compared", narg, 4)
    chk.floor(prefix + ".size-leaf", "leaf cases", nleaf, 6)
    chk.floor(prefix + ".size-sum", "composite paths", sums, 12)
