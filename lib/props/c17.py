"""C17 - independent items can be used from different threads (DESIGN §4 C17).

With thread-private items the only locations two threads can share are objects
of static storage duration, so the property reduces to an inventory of every
global / function-static plus an effect check, exhaustive over the library and
independent of the schedule."""
from build import AnalysisBroken
from ir import Inst, Arg, Const, GlobalRef, FuncRef, CExpr, strip_casts
from effects import ALLOC_GLOBALS
import rules


def run(ctx, chk):
    _run(ctx, chk, ctx.prog(), "")
    if ctx.tier == "thorough":
        # the configuration without the pretty printer has a different function and global inventory
        _run(ctx, chk, ctx.prog(overrides={"CBOR_PRETTY_PRINTER": 0}), "[CBOR_PRETTY_PRINTER=0] ")
        chk.extra["configurations"] = ["default", "CBOR_PRETTY_PRINTER=0"]


def _run(ctx, chk, prog, tag):
    eff = ctx.effects(prog)
    if tag:
        base = chk

        class _Tagged:
            """view of the Check that prefixes instances and keys with the configuration"""
            def __getattr__(self, a):
                return getattr(base, a)

            def __setattr__(self, a, v):
                setattr(base, a, v)

            def ob(self, rule, instance, ok, where="", detail="", nontrivial=True, fn="", key=None, path=None):
                return base.ob(rule, tag + instance, ok, where, detail, nontrivial, fn, tag + (key or instance), path)

            def floor(self, rule, what, count, minimum):
                return base.floor(rule, tag + what, count, max(1, minimum * 3 // 4))

            def rule(self, name, text):
                if name not in base.rules:
                    base.rule(name, text)
        chk = _Tagged()
    chk.explanation = ("inventory of every object of static storage duration in all library units (IR globals, "
                       "including function-statics) + interprocedural mod-set analysis (E1): a global is immutable "
                       "(IR constant), never the derived target of any store in any function, or one of the three "
                       "allocator pointers written only by cbor_set_allocs; external callees are within a reentrant "
                       "allow-list. Covers every schedule at once because it quantifies over locations, not runs.")
    chk.rule("C17.inventory", "every global / function-static of every library unit is IR-constant, or never the "
                              "(derived) target of a store in any function, or an allocator pointer written only by "
                              "cbor_set_allocs")
    chk.rule("C17.no-global-write", "writes_global(f) is empty for every library function except cbor_set_allocs")
    chk.rule("C17.reentrant-libc", "every external callee is reentrant (no hidden libc state)")
    chk.rule("C17.hooks-shared", "the allocator hooks, the one piece of mutable state the library has, are ordinary process-wide objects: an "
             "allocator configured once before any thread starts is the allocator of every thread (a thread-local hook silently falls "
             "back to its initial value - libc - in every thread but the configuring one, and a block crosses threads between two allocators)")
    from effects import ALLOC_GLOBALS as _AG
    nh = 0
    for gname in _AG:
        g_ = prog.globals.get(gname)
        if g_ is None:
            continue
        nh += 1
        tl = bool(g_.get("thread_local"))
        chk.ob("C17.hooks-shared", "%s is a process-wide object" % gname, not tl, g_.get("unit", "src/allocators.c"), key="hook:" + gname,
               detail="" if not tl else "declared thread-local: cbor_set_allocs only reaches the calling thread")
    chk.floor("C17.hooks-shared", "allocator hooks", nh, 3)
    chk.rule("C17.control", "positive control: seeded hidden state in /verif/controls is reported")
    chk.assumptions.append("release configuration: the debug build's _cbor_enable_assert flag (written only by test code) is not part of the shipped library")
    chk.assumptions.append("the allocator is configured once before threads start (the property's own proviso)")
    chk.not_decided += ["races inside client callbacks or on items the client itself shares between threads",
                        "'same results as running alone' follows by argument from the three rules (functions of their "
                        "arguments and thread-private heap only); it is not separately machine-checked"]

    # who writes which global (derived: through any pointer whose provenance root is the global)
    writers = {}
    for f in prog.funcs.values():
        for r in eff.summ[f.name]["writes"]:
            if r[0] == "global":
                # only functions that themselves contain the store or call: attribute to all (transitive) - fine
                writers.setdefault(r[1], set()).add(f.name)
    ninv = 0
    ctl_hits = set()
    for key, g in sorted(prog.globals.items()):
        is_lib = g["unit"].startswith("src/")
        name = g["name"]
        w = sorted(writers.get(name, ()))
        direct = sorted(fn for fn in w if any(i.op == "store" or (i.op == "call") for i in eff.summ[fn]["write_sites"].get(("global", name), [])))
        if not is_lib:
            if w and name in ("verif_ctl_static_cache.last", "verif_ctl_counter"):
                ctl_hits.add(name)
            continue
        ninv += 1
        if g["constant"]:
            chk.ob("C17.inventory", "global %s" % name, True, g["unit"], key="global:" + name, nontrivial=False,
                   detail="IR constant (read-only data)")
            # a constant that is written anyway would be UB - still report
            libw = [x for x in w if not prog.funcs[x].is_extra]
            if libw:
                chk.ob("C17.inventory", "store to constant %s" % name, False, g["unit"], key="constwrite:" + name,
                       detail="written by %s" % libw)
            continue
        libw = [x for x in w if not prog.funcs[x].is_extra]
        if name in ALLOC_GLOBALS:
            # cbor_set_allocs and nothing else (C13.setter checks the stores one by one)
            holders = [x for x in libw if any(i.op == "store" for i in eff.summ[x]["write_sites"].get(("global", name), []))]
            ok = holders == ["cbor_set_allocs"]
            chk.ob("C17.inventory", "global %s" % name, ok, g["unit"], key="global:" + name,
                   detail="allocator pointer; stores in: %s" % holders)
            continue
        ok = not libw
        detail = "mutable object, never written by any library function (address flows only to read-only uses)"
        if not ok:
            wit = eff.write_witness(libw[0], ("global", name))
            detail = "hidden mutable state: written by %s; chain: %s" % (
                libw[:4], " -> ".join("%s@%s" % (fn, ins.loc()) for fn, ins, _ in wit))
        chk.ob("C17.inventory", "global %s" % name, ok, g["unit"], key="global:" + name, detail=detail)
    chk.floor("C17.inventory", "globals", ninv, 4 if tag else 6)   # (the three allocator pointers and the callback table at least)

    nfun = 0
    for f in prog.lib_funcs():
        nfun += 1
        gw = sorted(r[1] for r in eff.summ[f.name]["writes"] if r[0] == "global")
        uw = sorted(r[1] for r in eff.summ[f.name]["writes"] if r[0] == "unknown")
        if f.name == "cbor_set_allocs":
            ok = set(gw) <= set(ALLOC_GLOBALS)
        else:
            ok = not gw
        chk.ob("C17.no-global-write", f.name, ok, "%s:%d" % (f.file, f.line), fn=f.name, nontrivial=bool(eff.summ[f.name]["callees"]) or not ok,
               detail="" if ok else "may store to global(s) %s" % gw)
        if uw:
            chk.ob("C17.no-global-write", f.name + " (store through pointer of unknown provenance)", False,
                   "%s:%d" % (f.file, f.line), fn=f.name, key=f.name + ":unknown", detail=str(uw))
    chk.floor("C17.no-global-write", "functions", nfun, 120)

    seen = set()
    for sym, kind, where, fname in rules.ext_refs(prog, lib_only=True):
        if rules.is_intrinsic(sym) or sym in seen:
            continue
        seen.add(sym)
        if sym in rules.NON_REENTRANT_LIBC:
            chk.ob("C17.reentrant-libc", sym, False, where, fn=fname, detail="libc function with hidden shared state")
        elif sym in rules.PURE_LIBC or sym in rules.ALLOCATING_LIBC:
            chk.ob("C17.reentrant-libc", sym, True, where, fn=fname, nontrivial=False)
        else:
            raise AnalysisBroken("external symbol %s not classified for reentrancy" % sym)
    chk.floor("C17.reentrant-libc", "external symbols", len(seen), 5)
    chk.rule("C17.no-access-after-free", "on every path of every library function (unit-internal helpers and the stack module inlined) no load or "
             "store addresses a block after it was handed to the installed free, and no block is handed to it twice (a released block may already belong to another thread)")
    from props.c06 import check_no_access_after_free
    check_no_access_after_free(chk, "C17.no-access-after-free", prog, eff)

    chk.ob("C17.control", "function-static scratch (verif_ctl_static_cache.last)", "verif_ctl_static_cache.last" in ctl_hits,
           "controls/ctl_state.c")
    chk.ob("C17.control", "file-scope counter (verif_ctl_counter)", "verif_ctl_counter" in ctl_hits, "controls/ctl_state.c")
    chk.count("units", len(prog.facts["units"]))
    chk.rule("C17.count-width", "the reference count is stepped at the full width of size_t: it cannot wrap to zero while references are held and hand a "
             "live block back to the shared allocator (shared with C13.count-width)")
    import ownership as _O17c
    import rules as _r17c
    _r17c.check_refcount_width(chk, "C17.count-width", prog, _O17c.PathCache(prog, eff))
    chk.rule("C17.debug-writes", "also in the debug configuration (assertions compiled in) no library function writes an object with static storage "
             "other than the allocator hooks in cbor_set_allocs - the switch that lets the test suite silence assertions is for test code, "
             "never flipped by the library itself (one thread's failing load would disarm every other thread's assertions, and race on the flag)")
    dprog = ctx.prog("debug", with_controls=False)
    deff = ctx.effects(dprog)
    nd = 0
    for f_ in dprog.lib_funcs():
        nd += 1
        # (objects the library itself defines - a diagnostic stream of the C library handed to fprintf is not the library's state)
        gw_ = sorted(r_[1] for r_ in deff.summ[f_.name]["writes"] if r_[0] == "global" and r_[1] not in ALLOC_GLOBALS and r_[1] in dprog.globals)
        okd = not gw_
        chk.ob("C17.debug-writes", f_.name, okd, "%s:%d" % (f_.file, f_.line), fn=f_.name, key="dbgw:" + f_.name,
               nontrivial=bool(deff.summ[f_.name]["callees"]) or not okd, detail="" if okd else "writes %s in the debug configuration" % gw_)
    chk.floor("C17.debug-writes", "functions of the debug configuration", nd, 100)
    chk.exhaustive = True
