"""C02 - cbor_load accepts exactly the well-formed items and builds the faithful tree (DESIGN §4 C02).
The accepted LANGUAGE is the behaviour of a push-down machine over runtime counters and is not claimed;
the decided clauses are necessary conditions whose truth is in the shape of the code."""
from build import AnalysisBroken
from ir import Const
import paths as P
from paths import ptr_key, is_const
import decoder_rules as DR
import ownership as O
import tables
import typestate
import rules

# field -> (constructor, marker, setter) the builder wired to it must use
LEAF = {
    "uint8": ("cbor_new_int8", "cbor_mark_uint", "cbor_set_uint8"), "uint16": ("cbor_new_int16", "cbor_mark_uint", "cbor_set_uint16"),
    "uint32": ("cbor_new_int32", "cbor_mark_uint", "cbor_set_uint32"), "uint64": ("cbor_new_int64", "cbor_mark_uint", "cbor_set_uint64"),
    "negint8": ("cbor_new_int8", "cbor_mark_negint", "cbor_set_uint8"), "negint16": ("cbor_new_int16", "cbor_mark_negint", "cbor_set_uint16"),
    "negint32": ("cbor_new_int32", "cbor_mark_negint", "cbor_set_uint32"), "negint64": ("cbor_new_int64", "cbor_mark_negint", "cbor_set_uint64"),
    "float2": ("cbor_new_float2", None, "cbor_set_float2"), "float4": ("cbor_new_float4", None, "cbor_set_float4"),
    "float8": ("cbor_new_float8", None, "cbor_set_float8"),
    "null": ("cbor_new_null", None, None), "undefined": ("cbor_new_undef", None, None), "boolean": ("cbor_build_bool", None, None),
}
OPENERS = {  # field -> (constructor, takes size?, pushed count)
    "array_start": ("cbor_new_definite_array", True, "size"), "map_start": ("cbor_new_definite_map", True, "2*size"),
    "indef_array_start": ("cbor_new_indefinite_array", False, 0), "indef_map_start": ("cbor_new_indefinite_map", False, 0),
    "byte_string_start": ("cbor_new_indefinite_bytestring", False, 0), "string_start": ("cbor_new_indefinite_string", False, 0),
    "tag": ("cbor_new_tag", True, 1),
}
CHUNKS = {"byte_string": ("cbor_new_definite_bytestring", "cbor_bytestring_set_handle", "cbor_bytestring_add_chunk", "cbor_isa_bytestring", "cbor_bytestring_is_indefinite"),
          "string": ("cbor_new_definite_string", "cbor_string_set_handle", "cbor_string_add_chunk", "cbor_isa_string", "cbor_string_is_indefinite")}


def truth_of(pa, r):
    for t, truth in pa.st.truth.items():
        x = t
        while isinstance(x, tuple) and x[0] == "cast":
            x = x[3]
        if x == r:
            return truth
    return None


def frame_facts(prog, pa):
    """what a path of a builder routine knows about the frame on top of the decoding stack:
    (TOP item term, record term, stack empty? (True/False/None), map count odd? (True/False/None))"""
    stack_off = prog.field_offset("_cbor_decoder_context", "stack")
    top_off = prog.field_offset("_cbor_stack", "top")
    size_off = prog.field_offset("_cbor_stack", "size")
    item_off = prog.field_offset("_cbor_stack_record", "item")
    sub_off = prog.field_offset("_cbor_stack_record", "subitems")
    TOP = REC = None
    for e in pa.events:
        b_ = ptr_key(e.args[0])[0] if e.kind == "load" else None
        if e.kind == "load" and ptr_key(e.args[0])[1] == item_off and isinstance(b_, tuple) and b_[0] == "ld" and b_[2] == top_off and \
                isinstance(b_[1], tuple) and b_[1][0] == "ld" and b_[1][2] == stack_off:
            TOP, REC = e.res, b_
            break
    empty = None
    parity = None
    for t, truth, _ in pa.facts:
        if t[0] == "icmp" and t[3] == ("c", 0) and isinstance(t[2], tuple) and t[2][0] == "ld" and t[2][2] == size_off and \
                isinstance(t[2][1], tuple) and t[2][1][0] == "ld" and t[2][1][2] == stack_off:
            if t[1] in ("eq", "ule"):
                empty = bool(truth)
            elif t[1] in ("ugt", "ne"):
                empty = not truth
        u, neg = t, False
        if t[0] == "icmp" and t[1] in ("eq", "ne") and t[3] == ("c", 0):
            u, neg = t[2], t[1] == "eq"
        if isinstance(u, tuple) and u[0] == "op" and ((u[1] == "urem" and u[4] == ("c", 2)) or (u[1] == "and" and ("c", 1) in (u[3], u[4]))):
            x_ = u[3] if u[3][0] != "c" else u[4]
            if isinstance(x_, tuple) and x_[0] == "ld" and x_[2] == sub_off:
                parity = (truth != neg)
    return TOP, REC, empty, parity


def append_steps(prog, eff, cache, name="_cbor_builder_append"):
    """paths of the builder's append routine, one automaton step each: when the routine goes round a loop to hand a completed
    container on (instead of calling itself) the paths are cut at the back edge"""
    app = prog.fn(name)
    if app.back_edges():
        return P.Executor(prog, eff, inline=O.static_callees(prog, eff, name), loop_bound=0, cut_loops=True, generic_rounds=True).run(name)
    return cache.get(name)


def check_automaton(chk, rule, prog, eff, cache, CS):
    """The transition table of the tree builder: what _cbor_builder_append does with a finished item, by the kind of the
    frame on top of the decoding stack (read off the path's facts through the predicate algebra, not off the code's
    spelling), compared with the table RFC 8949's grammar dictates:

        empty stack                  root := item
        definite array               push; expected-- ; when it reaches 0: pop the frame and append the array itself
        indefinite array             push; frame untouched
        map, even count / odd count  add key / add value; definite: expected--, at 0 pop and append the map;
                                     indefinite: the key/value indicator flips
        tag                          set item; pop; append the tag
        anything else                release the item, raise syntax_error
    Failure paths (creation_failed raised) are the subject of C05/C06."""
    import termeval
    chk.rule(rule, "frame automaton of _cbor_builder_append equals the reference table over the parent's kind: attach operation, "
                   "counter update (decrement / indicator flip / none), and 'close the frame' (pop + append the container) exactly "
                   "when the definite count reaches 0 or the parent is a tag")
    app = prog.fn("_cbor_builder_append")
    where = "%s:%d" % (app.file, app.line)
    T = prog.enum("cbor_type")
    ci = 1
    stack_off = prog.field_offset("_cbor_decoder_context", "stack")
    root_off = prog.field_offset("_cbor_decoder_context", "root")
    cf_off = prog.field_offset("_cbor_decoder_context", "creation_failed")
    se_off = prog.field_offset("_cbor_decoder_context", "syntax_error")
    top_off = prog.field_offset("_cbor_stack", "top")
    size_off = prog.field_offset("_cbor_stack", "size")
    item_off = prog.field_offset("_cbor_stack_record", "item")
    sub_off = prog.field_offset("_cbor_stack_record", "subitems")
    ITEM = ("arg", 0)
    seen = {}
    n = 0
    # the routine may hand a completed container to ITS parent by calling itself (tail recursion) or by going round a loop
    # with the container as the new item: one round of the loop is one step of the automaton, so the paths are cut at the
    # back edge and "continue with item := X" counts as the recursive call append(X)
    item_phis = set()
    item_cells = set()
    if app.back_edges():
        from ir import Arg
        loops_ = app.loops()
        for hid, body in loops_.items():
            for pi in app.bmap[hid].insts:
                if pi.op == "phi" and any(isinstance(v, Arg) and v.i == 0 and pb.id not in body for v, pb in pi.incoming):
                    item_phis.add(pi.id)
        # ... or, when its address is taken (cbor_decref(&item)), the stack slot that is initialised with the parameter
        item_cells = set()
        for st_ in app.all_insts():
            if st_.op == "store" and isinstance(st_.operands[0], Arg) and st_.operands[0].i == 0:
                tgt = st_.operands[1]
                if getattr(tgt, "op", None) == "alloca":
                    item_cells.add(("alloca", app.name, tgt.id, 0))
        apaths = P.Executor(prog, eff, inline=O.static_callees(prog, eff, app.name), loop_bound=0, cut_loops=True, generic_rounds=True).run(app.name)
    else:
        apaths = cache.get(app.name, inline_static=True)
    for k, pa in enumerate(apaths):
        st = pa.st
        evs = pa.events
        # the parent: first load of a frame's item
        TOP = None
        for e in evs:
            b_ = ptr_key(e.args[0])[0] if e.kind == "load" else None
            if e.kind == "load" and ptr_key(e.args[0])[1] == item_off and isinstance(b_, tuple) and b_[0] == "ld" and b_[2] == top_off and \
                    isinstance(b_[1], tuple) and b_[1][0] == "ld" and b_[1][2] == stack_off:
                TOP = e.res
                REC = b_
                break
        empty = None
        for t, truth, _ in pa.facts:
            if t[0] == "icmp" and t[1] == "eq" and t[3] == ("c", 0) and isinstance(t[2], tuple) and t[2][0] == "ld" and t[2][2] == size_off:
                empty = truth
        CTX = ("arg", ci)
        flag_cf = any(e.kind == "store" and ptr_key(e.args[0]) == (CTX, cf_off) and e.args[1] == ("c", 1) for e in evs)
        flag_se = any(e.kind == "store" and ptr_key(e.args[0]) == (CTX, se_off) and e.args[1] == ("c", 1) for e in evs)
        attach = [e.callee for e in evs if e.kind == "call" and e.callee in ("cbor_array_push", "_cbor_map_add_key", "_cbor_map_add_value", "cbor_tag_set_item")]
        root = any(e.kind == "store" and ptr_key(e.args[0]) == (CTX, root_off) and e.args[1] == ITEM for e in evs)
        pops = [e for e in evs if e.kind == "call" and e.callee == "_cbor_stack_pop"]
        rec_calls = [e for e in evs if e.kind == "call" and e.callee == app.name]
        closes = bool(pops) and len(rec_calls) == 1 and TOP is not None and rec_calls[0].args[0] == TOP
        if isinstance(pa.ret, tuple) and pa.ret and pa.ret[0] == "cut":
            nxt_items = [tv for pid, tv in pa.ret[2] if pid in item_phis]
            for cell in item_cells:
                if st.is_defined(cell, 8):
                    nxt_items.append(st.load(cell, "i8*", None))
            closes = bool(pops) and not rec_calls and TOP is not None and TOP in nxt_items
        counter = "none"
        zero = None
        parity = None
        if TOP is not None:
            for e in evs:
                if e.kind == "store" and ptr_key(e.args[0]) == (REC, sub_off):
                    v = e.args[1]
                    old = [x for x in P.subterms(v) if isinstance(x, tuple) and x[0] == "ld" and x[1] == REC and x[2] == sub_off]
                    kind = "other"
                    if old:
                        try:
                            f0 = termeval.evaluate(v, {old[0]: 0}, {})
                            f1 = termeval.evaluate(v, {old[0]: 1}, {})
                            f5 = termeval.evaluate(v, {old[0]: 5}, {})
                            if (f0, f1) == (1, 0):
                                kind = "flip"
                            elif f1 == 0 and f5 == 4:
                                kind = "dec"
                        except AnalysisBroken:
                            kind = "other"
                        z = P.zero_truth(st, v)
                        if z is not None:
                            zero = z
                    counter = kind
            for t, truth, _ in pa.facts:
                # parity test: (subitems % 2) or (subitems & 1), as a truth value or compared with 0
                u = t
                neg = False
                if t[0] == "icmp" and t[1] in ("eq", "ne") and t[3] == ("c", 0):
                    u = t[2]
                    neg = t[1] == "eq"
                if isinstance(u, tuple) and u[0] == "op" and ((u[1] == "urem" and u[4] == ("c", 2)) or (u[1] == "and" and ("c", 1) in (u[3], u[4]))):
                    x_ = u[3] if u[3][0] != "c" else u[4]
                    if isinstance(x_, tuple) and x_[0] == "ld" and x_[2] == sub_off:
                        parity = (truth != neg)      # True: odd
        if empty is True:
            cls = "empty"
            exp = dict(root=True, attach=[], counter="none", closes=False, error=None)
        elif TOP is None:
            if empty is None and not flag_cf and not flag_se and not root and not attach:
                # a step that ends without having looked at the stack at all: the item is neither made the root nor attached
                # nor refused (a round limit, an early return) - whatever the stack holds, the table has an action for it
                released = any(e.kind == "call" and e.callee in ("cbor_decref", "cbor_intermediate_decref") for e in evs)
                chk.ob(rule, "path %d: every step consults the stack" % k, False, where, fn=app.name, key="blind:%d" % k,
                       detail="returns %s without testing the stack: the item is neither stored as the root nor attached nor rejected%s"
                       % ("after releasing it" if released else "", " (%s)" % [DR.fmt_term(t_) for t_, _tr, _x in pa.facts][:2]),
                       path=pa.block_lines())
            continue
        else:
            tys_, _iw, _fw, fl = CS.summary(app, pa, TOP)
            if len(tys_) != 1 and not (tys_ and not (tys_ & {T["CBOR_TYPE_ARRAY"], T["CBOR_TYPE_MAP"], T["CBOR_TYPE_TAG"]})):
                if not tys_:
                    continue
                chk.ob(rule, "path %d: the parent's kind is decided before anything is attached" % k, False, where, fn=app.name, key="undecided:%d" % k,
                       detail="parent may be any of %s" % sorted(tys_))
                continue
            t0 = sorted(tys_)[0]
            if flag_cf:
                continue      # a refused insertion: C05 / C06
            if t0 == T["CBOR_TYPE_ARRAY"]:
                if fl == {0}:
                    cls = "definite array"
                    exp = dict(root=False, attach=["cbor_array_push"], counter="dec", closes=(zero is True), error=None)
                elif fl == {1}:
                    cls = "indefinite array"
                    exp = dict(root=False, attach=["cbor_array_push"], counter="none", closes=False, error=None)
                else:
                    cls, exp = "array (flavour undecided)", None
            elif t0 == T["CBOR_TYPE_MAP"]:
                op = None if parity is None else ("_cbor_map_add_value" if parity else "_cbor_map_add_key")
                if fl == {0}:
                    cls = "definite map, %s count" % ("odd" if parity else "even")
                    exp = dict(root=False, attach=[op], counter="dec", closes=(zero is True), error=None) if op else None
                elif fl == {1}:
                    cls = "indefinite map, %s count" % ("odd" if parity else "even")
                    exp = dict(root=False, attach=[op], counter="flip", closes=False, error=None) if op else None
                else:
                    cls, exp = "map (flavour undecided)", None
            elif t0 == T["CBOR_TYPE_TAG"]:
                cls = "tag"
                exp = dict(root=False, attach=["cbor_tag_set_item"], counter="none", closes=True, error=None)
            else:
                cls = "no legal parent"
                exp = dict(root=False, attach=[], counter="none", closes=False, error="syntax")
        got = dict(root=root, attach=attach, counter=counter, closes=closes, error="syntax" if flag_se else None)
        if exp is not None and exp["counter"] == "dec" and zero is None:
            exp = None
            why = "the decremented count is not tested for 0"
        else:
            why = "kind / parity / flavour of the parent is not decided on this path"
        if cls == "tag" and exp is not None and got["counter"] == "dec" and exp["counter"] == "none":
            # the frame's count taken down in a bookkeeping tail shared with the definite containers: a tag frame is pushed with the
            # constant 1 (C02.counter) and nothing else writes it, so the decrement reaches 0 - the path on which it "stays positive"
            # does not exist, and on the other the frame is popped whatever its count
            if zero is False:
                continue
            if zero is True:
                got = dict(got, counter="none")
        n += 1
        ok = exp is not None and got == exp
        seen.setdefault(cls, []).append(ok)
        chk.ob(rule, "path %d, parent %s%s" % (k, cls, "" if zero is None else (", count reaches 0" if zero else ", count stays positive")), ok, where,
               fn=app.name, key="auto:%s:%s:%d" % (cls, zero, k),
               detail="" if ok else (why if exp is None else "does %s, the table says %s" % (got, exp)), path=pa.block_lines() if not ok else None)
    want = {"empty", "definite array", "indefinite array", "definite map, even count", "definite map, odd count", "indefinite map, even count",
            "indefinite map, odd count", "tag", "no legal parent"}
    chk.ob(rule, "every row of the table is exercised by some path", want <= set(seen), where, fn=app.name, key="auto:rows",
           detail="" if want <= set(seen) else "no path for %s" % sorted(want - set(seen)))
    chk.floor(rule, "paths of _cbor_builder_append classified", n, 10)


def wired_builders(prog):
    load = prog.fn("cbor_load")
    g = __import__("tables").load_callbacks_global(prog)
    if g is None:
        raise AnalysisBroken("cbor_load.callbacks not found")
    return {name: getattr(el, "name", None) for name, el in zip(tables.callback_fields(prog), g["init_val"].elems)}


def check_plain_when(chk, rule, prog, cache, wired, CS):
    """a chunk callback treats its chunk as an ordinary item (handing it to the append routine) only on paths that know that no
    indefinite string of its kind is open: the stack is empty, or the top frame fails one of the two tests - at every depth"""
    n = 0
    stk_ = ("ld", ("arg", 0), prog.field_offset("_cbor_decoder_context", "stack"))
    size_ = ("ld", stk_, prog.field_offset("_cbor_stack", "size"))
    for field, (ctor, seth, addc, isa, isindef) in CHUNKS.items():
        fn = wired.get(field)
        f = prog.fn(fn)
        where = "%s:%d" % (f.file, f.line)
        for k, pa in enumerate(cache.get(fn, inline_static=True)):
            cs = [e for e in pa.events if e.kind == "call" and e.ckind == "lib" and e.callee.startswith("cbor_new_")]
            if not cs or not pa.st.known_nonnull(cs[0].res):
                continue
            if any(e.kind == "call" and e.callee in ("cbor_bytestring_add_chunk", "cbor_string_add_chunk") for e in pa.events):
                continue
            if not pa.calls("_cbor_builder_append"):
                continue
            n += 1
            szs_ = [t for t in list(pa.st.eqc) + list(pa.st.hi) + [f_[0] for f_ in pa.st.facts] if isinstance(t, tuple) and t[0] == "ld" and t[2] == size_[2]
                    and isinstance(t[1], tuple) and t[1][0] == "ld" and t[1][2] == stk_[2]]
            emptyk = any(pa.st.eqc.get(t) == 0 or pa.st.hi.get(t, 1) == 0 or pa.st.known_null(t) for t in szs_ + [size_])
            # ... or that the item in the top frame cannot be an indefinite string of this kind (whichever way the path learned it:
            # a predicate call, a test of the type field or of the flavour field)
            Tt_ = prog.enum("cbor_type")["CBOR_TYPE_BYTESTRING" if field == "byte_string" else "CBOR_TYPE_STRING"]
            top_off_, item_off_ = prog.field_offset("_cbor_stack", "top"), prog.field_offset("_cbor_stack_record", "item")

            def is_top_item(t):
                def ldof(x, off):
                    return isinstance(x, tuple) and len(x) >= 3 and x[0] == "ld" and x[2] == off
                return ldof(t, item_off_) and ldof(t[1], top_off_) and ldof(t[1][1], stk_[2]) and t[1][1][1] == ("arg", 0)
            tops_ = set()

            def scan(t):
                if isinstance(t, tuple) and t:
                    if is_top_item(t):
                        tops_.add(t)
                    for x_ in t:
                        scan(x_)
            for e_ in pa.events:
                scan(e_.args)
            for f_ in pa.st.facts:
                scan(f_[0])
            notopen = any(not any(p_[0] == Tt_ and p_[3] == 1 for p_ in CS.pts_all(f, pa, t_)) for t_ in tops_)
            chk.ob(rule, "%s: a chunk is treated as an ordinary item only when no indefinite %s is open" % (fn, field), emptyk or notopen,
                   where, fn=fn, key="plainwhen:%s:%d" % (field, k),
                   detail="" if emptyk or notopen else "the path neither knows the stack to be empty nor the top frame not to be an open indefinite "
                   "string: at some depth a chunk of an open string is attached to the string's parent instead", path=pa.block_lines() if not (emptyk or notopen) else None)
    chk.floor(rule, "paths of the chunk callbacks that append the chunk as an ordinary item", n, 2)


def check_builder_preconditions(chk, rule, CS, wired):
    """every call the builders (the callbacks wired into cbor_load, the append routine, cbor_load itself) make to an operation with
    an asserted type / flavour / width precondition establishes it on the path: a chunk is added only to an indefinite string of its
    kind and is itself definite, a pair only to a map, ..."""
    subjects = sorted({v for v in wired.values() if v}) + ["_cbor_builder_append", "cbor_load"]
    res = CS.check(subjects)
    for fn, callee, atom, ok, where, detail, pa in res:
        chk.ob(rule, "%s: %s needs %s" % (fn, callee, atom.get("text", "")), ok, where, fn=fn,
               key="%s:%s:%s" % (fn, callee, atom.get("text", "")), detail=detail, path=pa.block_lines() if not ok else None)
    chk.floor(rule, "precondition obligations in the builders", len(res), 25)


def check_break(chk, rule, prog, cache, CS, PA, bfname):
    """the break callback: pops and appends only when the stack is non-empty, the top is an indefinite item and, for a map,
    the count is even; otherwise it raises the syntax error; _cbor_is_indefinite is true exactly for indefinite items"""
    T = prog.enum("cbor_type")
    se_off = prog.field_offset("_cbor_decoder_context", "syntax_error")
    # 5. break
    bf = prog.fn(bfname)
    bwhere = "%s:%d" % (bf.file, bf.line)
    size_off = prog.field_offset("_cbor_stack", "size")
    for k, pa in enumerate(cache.get(bf.name)):
        pops = pa.calls("_cbor_stack_pop")
        apps = pa.calls("_cbor_builder_append")
        se = any(e.kind == "store" and ptr_key(e.args[0])[1] == se_off and isinstance(ptr_key(e.args[0])[0], tuple) and ptr_key(e.args[0])[0][0] == "arg" and e.args[1] == ("c", 1) for e in pa.events)
        TOP, _REC, empty, parity = frame_facts(prog, pa)
        if pops or apps:
            tys_, _iw, _fw, fl = CS.summary(bf, pa, TOP) if TOP is not None else (set(), set(), set(), set())
            indef = bool(tys_) and tys_ <= set(PA.flavour_types) and fl == {1}
            even_if_map = T["CBOR_TYPE_MAP"] not in tys_ or parity is False
            ok = empty is False and indef and even_if_map and len(pops) == 1 and len(apps) == 1 and apps[0].args[0] == TOP and not se
            chk.ob(rule, "break path %d: closes an open indefinite item (map: even parity)" % k, ok, bwhere, fn=bf.name, key="break-close:%d" % k,
                   detail="" if ok else "stack known non-empty: %s, top known indefinite: %s (types %s, flavours %s), not a map or even count: %s"
                   % (empty is False, indef, sorted(tys_), sorted(fl), even_if_map), path=pa.block_lines() if not ok else None)
        else:
            chk.ob(rule, "break path %d: otherwise a syntax error" % k, se, bwhere, fn=bf.name, key="break-err:%d" % k)
    tab = PA.table("_cbor_is_indefinite")
    bad = []
    for pt, r in tab.items():
        want = 1 if (pt[0] in PA.flavour_types and pt[3] == 1) else 0
        if r != frozenset([want]):
            bad.append((PA.relevant(pt), sorted(map(str, r))))
    chk.ob(rule, "_cbor_is_indefinite is true exactly for indefinite strings/arrays/maps", not bad, "src/cbor/internal/builder_callbacks.c",
           fn="_cbor_is_indefinite", key="is-indef", detail=str(bad[:3]))


def run(ctx, chk):
    prog = ctx.prog()
    eff = ctx.effects(prog)
    H, PA, IF, _ = ctx.typestate()
    cache = O.PathCache(prog, eff)
    chk.explanation = ("necessary conditions of faithful decoding, each decided for all inputs on the program's paths and "
                       "tables: the decoder action table equals the RFC 8949 reference for all 256 initial bytes; every "
                       "callback field is wired to a builder that constructs the kind and width the field denotes with the "
                       "decoded value unchanged; openers push the right expected-children count; chunks, members and tagged "
                       "items are attached only where the parent's type/flavour has been established (typestate from the "
                       "library's own assertions); break closes only an open indefinite item at even map parity; no pointer "
                       "into the input buffer survives; read is the sum of consumed heads.")
    chk.rule("C02.action", "T-dispatch equals the RFC 8949 reference (callback kind, argument width/loader/bias, constants) for every initial byte")
    chk.rule("C02.payload", "string payload window is source+head .. +length")
    chk.rule("C02.read", "FINISHED: read = head (+payload) length")
    chk.rule("C02.claim", "claims are head byte, argument bytes, payload")
    chk.rule("C02.error-arm", "reserved / unsupported bytes are rejected")
    chk.rule("C02.wiring", "every field of cbor_load's callback table (and of cbor_empty_callbacks) is initialised; the builder "
                           "wired to a field constructs the kind and width the field's name denotes, storing the callback's value unchanged")
    chk.rule("C02.counter", "openers push: array size, map 2 x size, tag 1, indefinite kinds 0; zero-size definite containers are "
                            "appended instead of pushed")
    chk.rule("C02.attach", "every internal call of an accessor with an asserted type/flavour/width precondition is established on "
                           "the path (chunk added only to an open indefinite string of the same major type, push/add/set only in "
                           "the matching arm of the switch on the parent's type)")
    chk.rule("C02.default-arm", "an item with no legal parent is released and raises the syntax flag")
    chk.rule("C02.break", "the break callback pops and appends only when the stack is non-empty, the top is indefinite and, for a "
                          "map, parity is even; every other path raises syntax_error; _cbor_is_indefinite is true exactly for the "
                          "indefinite flavour of the four kinds that have one")
    chk.rule("C02.no-buffer-ref", "no pointer derived from the input buffer is stored by cbor_load or any builder callback; the "
                                  "payload pointer is only the source operand of a bounded copy")
    chk.not_decided += ["acceptance IF AND ONLY IF well-formed (language of a push-down machine driven by runtime counts)",
                        "'every definite container completely filled' and value fidelity beyond the per-head tables (C10/C15)"]
    chk.rule("C02.status", "per initial byte: the status the decoder returns is the one the reference assigns")
    chk.rule("C02.stop", "between two steps of cbor_load that can hand an item to the builder, control passes through a test that found the "
             "decoding stack non-empty (must-pass-through on the flow graph - decided without enumerating paths, so a loader with a fast "
             "path too rich for the path engine is still judged): once the stack is empty the item is complete, and what follows it in the "
             "buffer is not part of it")
    # the path-based rules below (automaton, drain, stop) own this question; the flow-graph form is the fallback for a loader
    # whose paths the path engine gives up on
    try:
        cache.get("cbor_load")
        too_rich = False
    except AnalysisBroken as ex_:
        too_rich = "more than" in str(ex_)
        if not too_rich:
            raise
    import os as _os
    if too_rich or _os.environ.get("VERIF_STOPCFG_ALWAYS"):
        rules.check_stop_cfg(chk, "C02.stop", prog, eff)
    # 1. dispatch
    n = DR.per_byte(chk, "C02", prog, eff, {"action", "payload", "read", "claim", "error-arm", "status"})
    chk.floor("C02.action", "per-byte obligations", n, 500)

    # 2. wiring
    load = prog.fn("cbor_load")
    g = __import__("tables").load_callbacks_global(prog)
    if g is None:
        raise AnalysisBroken("cbor_load.callbacks not found")
    fields = tables.callback_fields(prog)
    wired = {}
    for name, el in zip(fields, g["init_val"].elems):
        fn = getattr(el, "name", None)
        wired[name] = fn
        chk.ob("C02.wiring", "cbor_load.callbacks.%s is set" % name, fn is not None and fn in prog.funcs, "src/cbor.c", fn="cbor_load", key="set:" + name,
               nontrivial=False)
    chk.floor("C02.wiring", "callback fields", len(wired), 24)
    ge = prog.globals.get("cbor_empty_callbacks")
    if ge is None:
        raise AnalysisBroken("cbor_empty_callbacks not found")
    for name, el in zip(fields, ge["init_val"].elems):
        chk.ob("C02.wiring", "cbor_empty_callbacks.%s is set" % name, getattr(el, "name", None) in prog.funcs, "src/cbor/callbacks.c",
               fn="cbor_empty_callbacks", key="empty:" + name, nontrivial=False)
    cf_off = prog.field_offset("_cbor_decoder_context", "creation_failed")
    se_off = prog.field_offset("_cbor_decoder_context", "syntax_error")
    T_ = prog.enum("cbor_type")
    IWn = {"8": 0, "16": 1, "32": 2, "64": 3}
    FWn = {"float2": 1, "float4": 2, "float8": 3}
    CTRL = {"null": 22, "undefined": 23}
    for field in LEAF:
        fn = wired.get(field)
        if fn is None:
            continue
        f = prog.fn(fn)
        where = "%s:%d" % (f.file, f.line)
        rs = tables.result_states(prog, eff, fn, at_call="_cbor_builder_append")
        nok = 0
        for k, r in enumerate(rs):
            d, pa, item = r["desc"], r["path"], r["item"]
            nok += 1
            det = []
            if d["refcount"] != ("c", 1):
                det.append("reference count %s" % (d["refcount"],))
            if field.startswith(("uint", "negint")):
                bits = field.lstrip("uintneg")
                wt = T_["CBOR_TYPE_NEGINT"] if field.startswith("negint") else T_["CBOR_TYPE_UINT"]
                if d["type"] != ("c", wt):
                    det.append("item type %s, field denotes %s" % (d["type"], "negative" if wt else "unsigned"))
                if d["meta0"] != ("c", IWn[bits]):
                    det.append("width %s, field denotes %s bits" % (d["meta0"], bits))
                pay = (d.get("payload") or {}).get("i" + bits)
                if pay != ("arg", 1):
                    det.append("stored value %s is not the callback's argument" % (pay,))
            elif field in FWn:
                ty = "double" if field == "float8" else "float"
                if d["type"] != ("c", T_["CBOR_TYPE_FLOAT_CTRL"]) or d["meta0"] != ("c", FWn[field]):
                    det.append("type/width %s/%s, field denotes %s" % (d["type"], d["meta0"], field))
                pay = (d.get("payload") or {}).get(ty)
                if pay != ("arg", 1):
                    det.append("stored value %s is not the callback's argument" % (pay,))
            else:
                if d["type"] != ("c", T_["CBOR_TYPE_FLOAT_CTRL"]) or d["meta0"] != ("c", 0):
                    det.append("not a simple-value item: type %s width %s" % (d["type"], d["meta0"]))
                c = d.get("ctrl")
                if field in CTRL:
                    if c != ("c", CTRL[field]):
                        det.append("simple value %s, %s is %d" % (c, field, CTRL[field]))
                else:
                    # boolean: 21 when the argument is true, 20 when false
                    tv = None
                    for t0, tr in pa.st.truth.items():
                        x = t0
                        while isinstance(x, tuple) and x[0] == "cast":
                            x = x[3]
                        if x == ("arg", 1):
                            tv = tr
                    want = {True: 21, False: 20}.get(tv)
                    cc = c
                    while isinstance(cc, tuple) and cc[0] == "cast":
                        cc = cc[3]
                    okb = want is not None and c == ("c", want)
                    if not okb and isinstance(cc, tuple) and cc[0] == "sel":
                        cond = cc[1]
                        while isinstance(cond, tuple) and cond[0] == "cast":
                            cond = cond[3]
                        okb = cond == ("arg", 1) and cc[2] == ("c", 21) and cc[3] == ("c", 20)
                    if not okb:
                        det.append("boolean %s stored as simple value %s" % (tv, c))
            apps = [e for e in pa.events if e.kind == "call" and e.callee == "_cbor_builder_append"]
            if len(apps) != 1:
                det.append("%d hand-offs" % len(apps))
            chk.ob("C02.wiring", "%s -> %s: the item handed to the parent has the kind, width and value the field denotes" % (field, fn),
                   not det, where, fn=fn, key="leaf:%s:%d" % (field, k), detail="; ".join(det), path=pa.block_lines() if det else None)
        chk.ob("C02.wiring", "%s has a success path" % fn, nok >= 1, where, fn=fn, key="leafpath:" + field, nontrivial=False)
    # 3. counters
    for field, (ctor, takes, cnt) in OPENERS.items():
        fn = wired.get(field)
        f = prog.fn(fn)
        where = "%s:%d" % (f.file, f.line)
        for k, pa in enumerate(cache.get(fn)):
            cs = [e for e in pa.events if e.kind == "call" and e.ckind == "lib" and e.callee.startswith("cbor_new_")]
            if not cs or not pa.st.known_nonnull(cs[0].res):
                continue
            okc = len(cs) == 1 and cs[0].callee == ctor and (not takes or cs[0].args[0] == ("arg", 1))
            chk.ob("C02.wiring", "%s -> %s constructs %s%s" % (field, fn, ctor, "(value)" if takes else "()"), okc, where, fn=fn, key="open-ctor:%s:%d" % (field, k))
            pushes = pa.calls("_cbor_stack_push")
            app = pa.calls("_cbor_builder_append")
            if pushes:
                c = pushes[0].args[2]
                if cnt == "size":
                    ok = c == ("arg", 1)
                elif cnt == "2*size":
                    ok = c in (("op", "mul", "i64", ("c", 2), ("arg", 1)), ("op", "mul", "i64", ("arg", 1), ("c", 2)), ("op", "shl", "i64", ("arg", 1), ("c", 1)))
                else:
                    ok = c == ("c", cnt)
                ok = ok and pushes[0].args[1] == cs[0].res
                if cnt in ("size", "2*size"):
                    ok = ok and pa.st.known_positive(("arg", 1))
                chk.ob("C02.counter", "%s pushes expected-children = %s" % (fn, cnt), ok, pushes[0].ins.loc(), fn=fn, key="count:%s:%d" % (field, k),
                       detail="" if ok else "pushes %s (size known positive: %s)" % (DR.fmt_term(c), pa.st.known_positive(("arg", 1))))
            else:
                ok = cnt in ("size", "2*size") and len(app) == 1 and app[0].args[0] == cs[0].res and pa.st.known_zero_count(("arg", 1))
                chk.ob("C02.counter", "%s: only an empty definite container is appended without a frame" % fn, ok, where, fn=fn, key="empty:%s:%d" % (field, k))
    # chunk callbacks
    CSj = typestate.CallSites(prog, eff, cache, H, PA)
    for field, (ctor, seth, addc, isa, isindef) in CHUNKS.items():
        fn = wired.get(field)
        f = prog.fn(fn)
        where = "%s:%d" % (f.file, f.line)
        for k, pa in enumerate(cache.get(fn, inline_static=True)):
            cs = [e for e in pa.events if e.kind == "call" and e.ckind == "lib" and e.callee.startswith("cbor_new_")]
            if not cs or not pa.st.known_nonnull(cs[0].res):
                continue
            chunk = cs[0].res
            sh = pa.calls(seth)
            mc = [e for e in pa.events if e.kind == "call" and e.callee == "memcpy"]
            empty = pa.st.eqc.get(("arg", 2)) == 0 or pa.st.hi.get(("arg", 2), 1) == 0
            ok = cs[0].callee == ctor and len(sh) == 1 and sh[0].args[0] == chunk and sh[0].args[2] == ("arg", 2) and \
                ((len(mc) == 1 and mc[0].args[0] == sh[0].args[1] and mc[0].args[1] == ("arg", 1) and mc[0].args[2] == ("arg", 2)) or
                 (not mc and empty))
            chk.ob("C02.wiring", "%s -> %s: definite chunk holding a copy of exactly the payload" % (field, fn), ok, where, fn=fn, key="chunk:%s:%d" % (field, k))
            adds = pa.calls(addc)
            wrong = [e for e in pa.events if e.kind == "call" and e.callee in ("cbor_bytestring_add_chunk", "cbor_string_add_chunk") and e.callee != addc]
            if adds or wrong:
                top = adds[0].args[0] if adds else None
                Tt_ = prog.enum("cbor_type")["CBOR_TYPE_BYTESTRING" if field == "byte_string" else "CBOR_TYPE_STRING"]
                pts_ = CSj.pts_for(f, pa, adds[0], top) if adds else set()
                okt = not wrong and adds[0].args[1] == chunk and bool(pts_) and all(p_[0] == Tt_ and p_[3] == 1 for p_ in pts_)
                chk.ob("C02.attach", "%s: chunk joins only an open indefinite %s" % (fn, field), okt, where, fn=fn, key="join:%s:%d" % (field, k),
                       path=pa.block_lines() if not okt else None)
            else:
                app = pa.calls("_cbor_builder_append")
                chk.ob("C02.attach", "%s: otherwise the chunk is an ordinary item for its parent" % fn, len(app) == 1 and app[0].args[0] == chunk, where,
                       fn=fn, key="plain:%s:%d" % (field, k))
    check_plain_when(chk, "C02.attach", prog, cache, wired, CSj)
    # 4. typestate at call sites (builders and append)
    CS = typestate.CallSites(prog, eff, cache, H, PA)
    check_builder_preconditions(chk, "C02.attach", CS, wired)
    # default arm
    app = prog.fn("_cbor_builder_append")
    T = prog.enum("cbor_type")
    parents = {T["CBOR_TYPE_ARRAY"], T["CBOR_TYPE_MAP"], T["CBOR_TYPE_TAG"]}
    ndef = 0
    for k, pa in enumerate(append_steps(prog, eff, cache)):
        tys = None
        for key, vals in pa.st.inset.items():
            tys = set(vals)
        excluded = None
        for key, vals in pa.st.nec.items():
            if isinstance(key, tuple) and key[0] == "ld" and key[2] == prog.field_offset("cbor_item_t", "type"):
                excluded = set(vals)
        if tys is None and excluded is not None and parents <= excluded:
            ndef += 1
            dec = [e for e in pa.calls("cbor_decref") if e.extra and e.extra["pointee"][0] == ("arg", 0)]
            se = any(e.kind == "store" and ptr_key(e.args[0])[1] == se_off and isinstance(ptr_key(e.args[0])[0], tuple) and ptr_key(e.args[0])[0][0] == "arg" and e.args[1] == ("c", 1) for e in pa.events)
            inserted = [e for e in pa.events if e.kind == "call" and e.callee in O.TAKES_REF]
            ok = len(dec) == 1 and se and not inserted
            chk.ob("C02.default-arm", "_cbor_builder_append path %d: no legal parent -> release + syntax error" % k, ok, "%s:%d" % (app.file, app.line),
                   fn=app.name, key="default:%d" % k)
        elif tys is not None:
            ins = [e.callee for e in pa.events if e.kind == "call" and e.callee in O.TAKES_REF]
            allowed = {T["CBOR_TYPE_ARRAY"]: {"cbor_array_push"}, T["CBOR_TYPE_MAP"]: {"_cbor_map_add_key", "_cbor_map_add_value"},
                       T["CBOR_TYPE_TAG"]: {"cbor_tag_set_item"}}
            t0 = sorted(tys)[0]
            ok = len(tys) == 1 and set(ins) <= allowed.get(t0, set()) and bool(ins)
            chk.ob("C02.attach", "_cbor_builder_append path %d: parent type %d uses %s" % (k, t0, sorted(set(ins))), ok, "%s:%d" % (app.file, app.line),
                   fn=app.name, key="arm:%d:%d" % (t0, k))
    chk.floor("C02.default-arm", "default-arm paths", ndef, 1)
    # 4b. the frame automaton of _cbor_builder_append, as a table over the parent's kind
    check_automaton(chk, "C02.automaton", prog, eff, cache, CS)
    # 5. break
    check_break(chk, "C02.break", prog, cache, CS, PA, wired["indef_break"])
    # 6. no reference into the input buffer: trace-level uses of the buffer parameter
    for fn in sorted({v for v in wired.values() if v}) + ["cbor_load"]:
        f = prog.fn(fn)
        for j, p in enumerate(f.params):
            if p["name"] not in ("data", "source"):
                continue
            B = ("arg", j)
            bad = []
            nuse = 0
            for pa in cache.get(fn):
                for e in pa.events:
                    if e.kind == "store" and isinstance(e.args[1], tuple) and P.derives(e.args[1], B):
                        bad.append("stored at %s" % e.ins.loc())
                    elif e.kind == "call":
                        for k2, a in enumerate(e.args):
                            if isinstance(a, tuple) and P.derives(a, B):
                                nuse += 1
                                if e.callee == "memcpy" and k2 == 1:
                                    continue
                                if fn == "cbor_load" and e.callee == "cbor_stream_decode" and k2 == 1:
                                    continue
                                if e.ckind == "lib" and e.callee in eff.summ:
                                    # a library callee may read through the pointer; it must neither store it anywhere
                                    # nor hand it back (interprocedural effect summary, transitive)
                                    S_ = eff.summ[e.callee]
                                    kept = any(v == ("param", k2) for (_t, v) in S_["stores"]) or ("param", k2) in S_["ret"]
                                    if not kept:
                                        continue
                                bad.append("passed to %s at %s" % (e.callee, e.ins.loc()))
                if pa.ret is not None and isinstance(pa.ret, tuple) and P.derives(pa.ret, B):
                    bad.append("returned")
            chk.ob("C02.no-buffer-ref", "%s uses its %s pointer only as a copy source" % (fn, p["name"]), not bad,
                   "%s:%d" % (f.file, f.line), fn=fn, key="buf:%s" % fn, detail="; ".join(sorted(set(bad))[:3]))
    # 7. the nesting limit is part of the accepted profile: accepted up to L, refused at L (shared with C19)
    chk.rule("C02.gate", "the decoding stack accepts a frame at every depth below the configured limit and refuses exactly at it")
    from props.c19 import check_gate
    L = int(prog.values["CBOR_MAX_STACK_SIZE"])
    check_gate(chk, prog, eff, L, "default(L=%d)" % L, rule="C02.gate")
    chk.rule("C02.no-silent-drop", "every decoded head becomes a node of the tree or stops the load: each path of each builder callback hands "
                                   "its item off or raises an error flag (a chunk boundary, an empty chunk, a null is never skipped); shared "
                                   "with C05")
    from props.c05 import check_no_silent_drop
    check_no_silent_drop(chk, "C02.no-silent-drop", prog, eff)
    chk.rule("C02.half-classes", "a half-precision head denotes its IEEE-754 value in the tree: every one of the 65536 two-byte "
             "patterns reaches the action of its class (shared with C15.half-classes / C08)")
    from props.c15 import check_half_classes
    check_half_classes(chk, prog, eff, prefix="C02")
    chk.rule("C02.balance", "every node of the tree cbor_load hands over is owned exactly once: cbor_load, the builder callbacks and "
             "_cbor_builder_append release, hand off or return each reference they hold exactly once on every path - also where an "
             "insertion is refused (shared with C05.nothing-left / C04.client)")
    from props.c06 import check_balance
    _cb2 = O.PathCache(prog, eff)
    _N2 = O.Nullness(prog, eff, _cb2)
    _B2 = O.Balance(prog, eff, _cb2, _N2)
    check_balance(chk, "C02.balance", prog, eff, _cb2, _N2, _B2, tables.constructors(prog, eff),
                  fnames=sorted({v for v in wired.values() if v}) + ["_cbor_builder_append", "cbor_load"], floor=20)
    chk.rule("C02.insert-refusal", "well-formed input is accepted: the insertion routines the builder relies on refuse only when an "
             "allocation failed, an overflow guard answered false or a definite container is full - not for a reason of their own "
             "such as the content of a chunk (shared with C12.refusal-justified)")
    from props.c12 import check_insert_refusal
    check_insert_refusal(chk, "C02.insert-refusal", prog, eff, O.PathCache(prog, eff))
    chk.rule("C02.capacity-field", "the tree the builder fills is well-formed storage: a block installed as a container's storage comes "
             "with its element capacity (the very count of the request) and still covers the elements counted so far "
             "(shared with C12; an element stored beyond the real block is lost at the next reallocation)")
    from props.c12 import check_capacity_field
    check_capacity_field(chk, "C02.capacity-field", prog, eff, O.PathCache(prog, eff))
    chk.rule("C02.narrowing", "no 64-bit quantity is converted to a narrower integer type except to take one byte of it for the "
             "output buffer or below a range test that makes the conversion lossless (declared element counts decide when a definite container is complete; a count kept in 32 bits is "
             "tracked modulo 2^32)")
    import rules as _rn
    _rn.check_narrowing(chk, "C02.narrowing", prog, eff=eff)
    chk.rule("C02.block-bounds", "every load, store and block copy at a constant offset into a block that the same path obtained from the "
             "allocator with a constant request lies inside the request (the decoding stack's records and the items of the tree live in blocks of the size their type needs)")
    import rules as _rbb
    import ownership as _Obb
    _rbb.check_fresh_block_bounds(chk, "C02.block-bounds", prog, eff, _Obb.PathCache(prog, eff))
    chk.rule("C02.stateless", "the decoder is a function of its arguments: nothing reachable from cbor_load / cbor_stream_decode writes an object with static storage "
             "(no memo of the previous call, no flag that survives it) - the answer for a buffer does not depend on what was decoded before "
             "(transitive write sets from the effects engine; shared with C17.no-global-write)")
    import rules as _rst
    _rst.check_stateless(chk, "C02.stateless", prog, eff, ('cbor_load', 'cbor_stream_decode'))
    chk.exhaustive = True
