"""C12 - arrays, maps and chunked strings behave as bounded / unbounded sequences (DESIGN §4 C12)."""
from build import AnalysisBroken
import paths as P
import rules
from paths import ptr_key, is_const
import ownership as O
import decoder_rules as DR

GROW_OPS = ["cbor_array_push", "_cbor_map_add_key", "cbor_bytestring_add_chunk", "cbor_string_add_chunk"]
INDEXED = ["cbor_array_get", "cbor_array_set", "cbor_array_replace"]


def strip(t):
    while isinstance(t, tuple) and t[0] == "cast":
        t = t[3]
    return t


def index_of(ptr):
    """index term of a slot address idx(table, (i,)) possibly plus a constant field offset"""
    b, o = ptr_key(ptr)
    if isinstance(b, tuple) and b[0] == "idx" and b[3] and not is_const(b[3][-1]):
        return b[1], b[3][-1]
    return None, None


def growth_rules(chk, prog, eff, G, label):
    cache = O.PathCache(prog, eff)
    nsites = 0
    for name in GROW_OPS:
        f = prog.fn(name)
        where = "%s:%d" % (f.file, f.line)
        forms = set()
        # a new capacity computed by a (pure) library routine is followed into that routine
        extra = set()
        for _round in range(2):
            for pa in cache.get(name, inline=O.static_callees(prog, eff, name) | extra):
                for R_ in pa.calls("_cbor_realloc_multiple"):
                    nc = R_.args[2]
                    if isinstance(nc, tuple) and nc[0] == "call" and nc[1] in prog.funcs and nc[1] not in eff.transitive_callees(nc[1]):
                        S_ = eff.summ[nc[1]]
                        if not S_["writes"] and not S_["allocates"] and not S_["frees"]:
                            extra.add(nc[1])
        for k, pa in enumerate(cache.get(name, inline=O.static_callees(prog, eff, name) | extra)):
            st = pa.st
            slot_stores = [(e,) + index_of(e.args[0]) for e in pa.events if e.kind == "store" and index_of(e.args[0])[1] is not None]
            if not slot_stores:
                continue
            # the count field: the location that receives index + 1
            E = slot_stores[0][2]
            cnt_store = [e for e in pa.events if e.kind == "store" and e.args[1] in (("op", "add", "i64", ("c", 1), E), ("op", "add", "i64", E, ("c", 1)))]
            okE = len(cnt_store) == 1 and E[0] == "ld" and ptr_key(cnt_store[0].args[0]) == (E[1], E[2]) and all(s[2] == E for s in slot_stores)
            chk.ob("C12.slot", "%s %s path %d: slot index is the element count, which becomes count + 1" % (label, name, k), okE, where, fn=name,
                   key="%s:%s:cnt:%d" % (label, name, k), detail="" if okE else "slot index %s" % DR.fmt_term(E))
            # capacity: term compared with E
            A = None
            room = None
            rel = {"lt", "eq", "gt"}      # what the path knows about count vs capacity, however the tests are spelled / oriented
            for t, truth, _ in pa.facts:
                if not (t[0] == "icmp" and len(t) == 4 and t[1] in ("uge", "eq", "ne", "ult", "ugt", "ule")):
                    continue
                if t[2] == E and isinstance(t[3], tuple) and t[3][0] == "ld":
                    pred, other = t[1], t[3]
                elif t[3] == E and isinstance(t[2], tuple) and t[2][0] == "ld":
                    pred, other = {"ult": "ugt", "ugt": "ult", "ule": "uge", "uge": "ule"}.get(t[1], t[1]), t[2]
                else:
                    continue
                if A is not None and other != A:
                    continue
                A = other
                sat = {"ult": {"lt"}, "ule": {"lt", "eq"}, "ugt": {"gt"}, "uge": {"gt", "eq"}, "eq": {"eq"}, "ne": {"lt", "gt"}}[pred]
                rel &= sat if truth else ({"lt", "eq", "gt"} - sat)
            if A is not None:
                # count <= capacity is the inductive invariant these rules maintain, so "count != capacity" leaves "count < capacity"
                room = (rel - {"gt"}) == {"lt"}
            reallocs = pa.calls("_cbor_realloc_multiple")
            if room:
                chk.ob("C12.capacity", "%s %s path %d: slot written with room left (count < capacity)" % (label, name, k), True, where,
                       fn=name, key="%s:%s:room:%d" % (label, name, k))
                continue
            if A is None or not reallocs:
                chk.ob("C12.capacity", "%s %s path %d: slot written without a capacity test or growth" % (label, name, k), False, where,
                       fn=name, key="%s:%s:nocap:%d" % (label, name, k), path=pa.block_lines())
                continue
            R = reallocs[0]
            newcap = R.args[2]
            table = slot_stores[0][1]
            cap_store = [e for e in pa.events if e.kind == "store" and ptr_key(e.args[0]) == (A[1], A[2])]
            in_new = table == R.res
            if not in_new and table[0] == "call" and table[1] in prog.funcs:
                # table re-read through a getter after the new block was stored into the container
                gp = cache.get(table[1])
                ge = [e for e in pa.events if e.kind == "call" and e.res == table]
                data_off = prog.field_offset("cbor_item_t", "data")
                if len(gp) == 1 and gp[0].ret[0] == "ld" and gp[0].ret[1] == ("arg", 0) and gp[0].ret[2] == data_off and ge:
                    cont = ge[0].args[0]
                    st_new = [e for e in pa.events if e.kind == "store" and e.args[1] == R.res and ptr_key(e.args[0]) == (ptr_key(cont)[0], data_off)]
                    in_new = bool(st_new) and pa.events.index(st_new[0]) < pa.events.index(ge[0])
            ok = st.known_nonnull(R.res) and in_new and len(cap_store) == 1 and cap_store[0].args[1] == newcap \
                and any(e.kind == "store" and e.args[1] == R.res for e in pa.events)
            chk.ob("C12.capacity", "%s %s path %d: growth completed before the slot is written" % (label, name, k), ok, where, fn=name,
                   key="%s:%s:grown:%d" % (label, name, k),
                   detail="" if ok else "new block non-NULL: %s, slot in new block: %s, capacity := realloc count: %s"
                   % (st.known_nonnull(R.res), in_new, [DR.fmt_term(c.args[1]) for c in cap_store]), path=pa.block_lines() if not ok else None)
            # growth form
            nsites += 1
            form = None
            if is_const(newcap):
                zero = st.truth.get(("icmp", "eq", A, ("c", 0))) is True
                form = "initial" if (newcap[1] >= 1 and zero) else "constant"
                okf = form == "initial"
                det = "" if okf else "capacity becomes the constant %d although the old capacity is not known to be 0" % newcap[1]
            elif newcap[0] == "op" and newcap[1] == "mul" and {newcap[3], newcap[4]} == {("c", G), A}:
                form, okf, det = "geometric", True, ""
            elif newcap[0] == "op" and newcap[1] == "shl" and newcap[3] == A and is_const(newcap[4]) and (1 << newcap[4][1]) == G:
                form, okf, det = "geometric", True, ""
            elif newcap[0] == "op" and newcap[1] == "mul" and A in (newcap[3], newcap[4]):
                other = newcap[4] if newcap[3] == A else newcap[3]
                form, okf = "geometric-other", is_const(other) and other[1] >= 2 and False
                det = "growth factor %s does not track CBOR_BUFFER_GROWTH=%d" % (DR.fmt_term(other), G)
            elif newcap[0] == "op" and newcap[1] in ("add", "sub") and A in (newcap[3], newcap[4]):
                form, okf = "additive", False
                det = "capacity grows additively (%s): n insertions would need O(n) reallocations" % DR.fmt_term(newcap)
            else:
                inner_, narrowed_ = newcap, None
                while isinstance(inner_, tuple) and inner_[0] == "cast":
                    if inner_[1] == "trunc":
                        narrowed_ = inner_[2]
                    inner_ = inner_[3]
                if narrowed_ is not None:
                    form, okf = "narrowed", False
                    det = "the new capacity %s passes through %s on its way to the reallocation: above that type's range the request wraps" % (
                        DR.fmt_term(inner_), narrowed_)
                else:
                    chk.floor("C12.growth", "%s: new capacity expression of a recognised form (%s)" % (name, DR.fmt_term(newcap)), 0, 1)
                    continue
            forms.add(form)
            chk.ob("C12.growth", "%s %s path %d: new capacity is %s" % (label, name, k, form), okf, R.ins.loc(), fn=name,
                   key="%s:%s:form:%s" % (label, name, form), detail=det)
            if form == "geometric":
                g = [e for e in pa.calls("_cbor_safe_to_multiply") if set(e.args) == {("c", G), A} and st.truth.get(e.res) is True]
                chk.ob("C12.growth", "%s %s path %d: product guarded by _cbor_safe_to_multiply" % (label, name, k), bool(g), R.ins.loc(), fn=name,
                       key="%s:%s:guard" % (label, name))
        ok = {"initial", "geometric"} <= forms
        chk.ob("C12.growth", "%s %s has both the initial and the geometric arm" % (label, name), ok, where, fn=name,
               key="%s:%s:arms" % (label, name), detail=str(sorted(forms)))
    return nsites


def check_insert_refusal(chk, rule, prog, eff, cache, floor=8):
    """An insertion is refused (false) only for a stated reason: the decisive - last - test of every refusing path of the
    insertion routines is (a) an allocation that returned NULL, (b) an overflow guard (_cbor_safe_to_multiply / _add) that
    answered false, or (c) the count-against-capacity comparison of the container itself (a definite container that is
    full).  A refusal decided by anything else (a home-made overflow test that is right for one growth factor only, a
    depth counter, ...) makes the decoder report MEMERROR for a well-formed item although no allocation failed."""
    import paths as _P
    n = 0
    for name in GROW_OPS:
        f = prog.fn(name)
        where = "%s:%d" % (f.file, f.line)
        for k, pa in enumerate(cache.get(name, inline_static=True)):
            if pa.ret != ("c", 0):
                continue
            n += 1
            why = None
            if pa.facts:
                t, truth, _ins = pa.facts[-1]
                x, neg = t, False
                while isinstance(x, tuple) and x[0] in ("cast", "not"):
                    if x[0] == "not":
                        neg = not neg
                        x = x[1]
                    else:
                        x = x[3]
                val = truth != neg
                if isinstance(x, tuple) and x[0] == "call" and x[1] in _P.OPAQUE and val is False:
                    why = "overflow guard %s answered false" % x[1]
                elif isinstance(x, tuple) and x[0] == "icmp" and len(x) == 4:
                    l, r = x[2], x[3]
                    alloc_res = [e.res for e in pa.events if e.kind == "call" and (e.ckind == "alloc" or e.callee in ("_cbor_alloc_multiple", "_cbor_realloc_multiple"))]
                    if ((l in alloc_res and r == ("c", 0)) or (r in alloc_res and l == ("c", 0))) and ((x[1] == "eq") == val):
                        why = "allocation returned NULL"
                    elif isinstance(l, tuple) and isinstance(r, tuple) and l[0] == "ld" and r[0] == "ld" and l[1] == r[1] and l[2] != r[2] and not alloc_res:
                        why = "count against capacity of the container"
                    elif isinstance(l, tuple) and l[0] == "call" and l[1] in _P.OPAQUE and r == ("c", 0) and ((x[1] == "eq") == val):
                        why = "overflow guard %s answered false" % l[1]
                if why is None:
                    # "full" tested first and the flavour afterwards (guard-clause form): no allocation was attempted, the path
                    # compared count with capacity, and everything decided after that is a predicate of the container itself
                    alloc_res = [e for e in pa.events if e.kind == "call" and (e.ckind == "alloc" or e.callee in ("_cbor_alloc_multiple", "_cbor_realloc_multiple"))]
                    guards = [e for e in pa.events if e.kind == "call" and e.callee in _P.OPAQUE]
                    cmp_at = None
                    for i_, (t_, tr_, _x) in enumerate(pa.facts):
                        if isinstance(t_, tuple) and t_[0] == "icmp" and len(t_) == 4 and isinstance(t_[2], tuple) and isinstance(t_[3], tuple) and \
                                t_[2][0] == "ld" and t_[3][0] == "ld" and t_[2][1] == t_[3][1] and t_[2][2] != t_[3][2]:
                            cmp_at = i_
                    if cmp_at is not None and not alloc_res and not guards:
                        rest = pa.facts[cmp_at + 1:]

                        def container_predicate(t_):
                            while isinstance(t_, tuple) and t_[0] in ("cast", "not"):
                                t_ = t_[1] if t_[0] == "not" else t_[3]
                            if isinstance(t_, tuple) and t_[0] == "call":
                                ev_ = [e for e in pa.events if e.kind == "call" and e.res == t_]
                                S_ = eff.summ.get(t_[1], {})
                                return bool(ev_) and ev_[0].args and ev_[0].args[0] == ("arg", 0) and not S_.get("writes") and not S_.get("allocates")
                            if isinstance(t_, tuple) and t_[0] == "icmp" and len(t_) == 4:
                                # a field of the container other than its count and capacity (the flavour), against a constant
                                cnt_cap = {(pa.facts[cmp_at][0][2][1], pa.facts[cmp_at][0][2][2]), (pa.facts[cmp_at][0][3][1], pa.facts[cmp_at][0][3][2])}
                                return all(_P.is_const(x_) or (isinstance(x_, tuple) and x_[0] == "ld" and _P.derives(x_, ("arg", 0)) and
                                                               (x_[1], x_[2]) not in cnt_cap) for x_ in t_[2:4])
                            return False
                        if all(container_predicate(t_) for t_, _tr, _x in rest):
                            why = "count against capacity of the container (flavour decided afterwards)"
            chk.ob(rule, "%s path %d: a refusal is decided by the allocator, an overflow guard or the capacity of a definite container" % (name, k),
                   why is not None, where, fn=name, key="%s:refusal:%d" % (name, k),
                   detail="" if why else "refuses on %s: no allocation failed, no guard answered false and the container is not a full definite one - a "
                                         "well-formed item that needs this insertion is reported as MEMERROR"
                                         % ([DR.fmt_term(t_) + ("" if tr_ else " is false") for t_, tr_, _ in pa.facts][-2:]),
                   path=pa.block_lines() if not why else None)
    chk.floor(rule, "refusing paths of the insertion routines", n, floor)


def _truthy12(st, r):
    for t, truth in st.truth.items():
        x = t
        neg = False
        while isinstance(x, tuple) and x[0] in ("cast", "not"):
            if x[0] == "not":
                neg = not neg
                x = x[1]
            else:
                x = x[3]
        if x == r and (truth != neg):
            return True
        if isinstance(x, tuple) and x[0] == "icmp" and x[1] in ("eq", "ne") and x[3] == ("c", 0):
            y = x[2]
            while isinstance(y, tuple) and y[0] == "cast":
                y = y[3]
            if y == r and ((x[1] == "ne") == (truth != neg)):
                return True
    return False


def check_capacity_field(chk, rule, prog, eff, cache, floor=8):
    """Representation invariant behind 'size never exceeds allocated capacity': whenever a freshly (re)allocated block is
    installed as a container's storage (item.data, or the chunk table of a chunked string), the capacity field that sits
    next to it is written on the same path - with the very element count of the request where the request has one.
    Quantified over every path of every library function (static helpers inlined)."""
    data_off = prog.field_offset("cbor_item_t", "data")
    meta_off = prog.field_offset("cbor_item_t", "metadata")
    chunks_off = prog.field_offset("cbor_indefinite_string_data", "chunks")
    ccap_off = prog.field_offset("cbor_indefinite_string_data", "chunk_capacity")
    pairs = {data_off: meta_off + prog.field_offset("_cbor_array_metadata", "allocated"), chunks_off: ccap_off}
    counts = {data_off: meta_off + prog.field_offset("_cbor_array_metadata", "end_ptr"),
              chunks_off: prog.field_offset("cbor_indefinite_string_data", "chunk_count")}
    n = 0
    # unit-internal helpers are judged in the context of the functions they are inlined into
    in_context = set()
    for g in prog.lib_funcs():
        in_context |= O.static_callees(prog, eff, g.name)
    for f in prog.lib_funcs():
        if f.name in in_context:
            continue
        for k, pa in enumerate(cache.get(f.name, inline_static=True)):
            allocs = {}
            for e in pa.events:
                if e.kind == "call" and e.res is not None:
                    if e.callee in ("_cbor_alloc_multiple", "_cbor_realloc_multiple"):
                        allocs[e.res] = (e, e.args[-1])
                    elif e.ckind == "alloc" and e.callee in ("_cbor_malloc", "_cbor_realloc"):
                        allocs[e.res] = (e, None)
            if not allocs:
                continue
            for e in pa.events:
                if e.kind != "store" or e.args[1] not in allocs:
                    continue
                b, o = ptr_key(e.args[0])
                if o not in pairs:
                    continue
                if o == chunks_off and not (isinstance(b, tuple) and (b[0] in ("ld", "call", "alloca"))):
                    continue
                ae, cnt = allocs[e.args[1]]
                caps = [x for x in pa.events if x.kind == "store" and ptr_key(x.args[0]) == (b, pairs[o])]
                n += 1
                if cnt is not None:
                    ok = bool(caps) and caps[-1].args[1] == cnt
                    det = "capacity field := %s, block holds %s element(s)" % (DR.fmt_term(caps[-1].args[1]) if caps else "not written", DR.fmt_term(cnt))
                else:
                    ok = bool(caps) or pa.st.is_defined(P.mkptr(b, pairs[o]), 8)
                    det = "capacity / length field not written although a new block of %s bytes is installed" % DR.fmt_term(ae.args[-1])
                chk.ob(rule, "%s path %d: a newly installed block comes with its capacity" % (f.name, k), ok, e.ins.loc(), fn=f.name,
                       key="%s:capfield:%d" % (f.name, e.ins.id), detail="" if ok else det, path=pa.block_lines() if not ok else None)
                # ... and a block installed into an EXISTING container still holds every element already counted: the new
                # capacity is a multiple of the old one (count <= old capacity by induction), or the old capacity is known
                # to be 0, or the path's comparisons place the element count at or below it
                fresh = isinstance(b, tuple) and b[0] == "alloca" or isinstance(b, tuple) and b[0] == "call" and any(x.kind == "call" and x.res == b and x.ckind == "alloc" for x in pa.events)
                if cnt is not None and ok and not fresh:
                    cap_off, cnt_off = pairs[o], counts[o]
                    olds = [x.res for x in pa.events if x.kind == "load" and ptr_key(x.args[0]) == (b, cap_off) and pa.events.index(x) < pa.events.index(caps[-1])]
                    cur = [x.res for x in pa.events if x.kind == "load" and ptr_key(x.args[0]) == (b, cnt_off)]
                    st_ = pa.st
                    why = None
                    if is_const(cnt) and any(st_.eqc.get(o_) == 0 or st_.known_null(o_) for o_ in olds):
                        why = "old capacity is 0"
                    elif isinstance(cnt, tuple) and cnt[0] == "op" and cnt[1] == "mul" and any(
                            (cnt[3] == o_ and is_const(cnt[4]) and cnt[4][1] >= 1) or (cnt[4] == o_ and is_const(cnt[3]) and cnt[3][1] >= 1) for o_ in olds):
                        why = "multiple of the old capacity"
                    elif isinstance(cnt, tuple) and cnt[0] == "op" and cnt[1] == "shl" and cnt[3] in olds and is_const(cnt[4]):
                        why = "multiple of the old capacity"
                    elif any(st_.rel_ge(cnt, c_) for c_ in cur):
                        why = "compared with the element count"
                    elif any(st_.eqc.get(c_) == 0 for c_ in cur):
                        why = "container known empty"
                    chk.ob(rule, "%s path %d: the new capacity still covers the elements counted so far" % (f.name, k), why is not None,
                           e.ins.loc(), fn=f.name, key="%s:capcover:%d" % (f.name, e.ins.id),
                           detail="" if why else "capacity becomes %s; nothing on this path places the element count (%s) at or below it: a "
                                                 "smaller block with the old count lets every reader run past the end"
                                                 % (DR.fmt_term(cnt), ", ".join(DR.fmt_term(c_) for c_ in cur) or "not read"),
                           path=pa.block_lines() if not why else None)
    chk.floor(rule, "installations of fresh blocks on paths", n, floor)


def run(ctx, chk):
    prog = ctx.prog()
    eff = ctx.effects(prog)
    cache = O.PathCache(prog, eff)
    chk.explanation = ("structural necessary conditions of the sequence behaviour, decided on every path of the container "
                       "operations: indexed accesses lie on paths whose facts imply index < size and the refusal path touches "
                       "nothing; a slot is written only with room left or after a completed growth whose realloc count is "
                       "stored as the new capacity; the new capacity expression is 1 (from 0) or GROWTH x old, guarded, at all "
                       "four growth sites, tracking the generated CBOR_BUFFER_GROWTH.")
    chk.rule("C12.index", "get / set / replace: every access to data[index] lies on a path with index < size; the out-of-range "
                          "path returns the documented refusal having touched nothing")
    chk.rule("C12.slot", "the slot written is data[count] and count becomes count + 1 (size never exceeds what was written)")
    chk.rule("C12.capacity", "a slot is written only where count < capacity is known, or after a successful reallocation whose "
                             "element count is stored as the new capacity (definite containers have no growth arm and refuse)")
    chk.rule("C12.growth", "new capacity = positive constant when the old one is 0, else CBOR_BUFFER_GROWTH x old (same value "
                           "passed to the reallocation and stored), guarded by _cbor_safe_to_multiply; never additive")
    chk.rule("C12.value-slot", "_cbor_map_add_value (which writes pair count-1) is called only right after a successful "
                               "_cbor_map_add_key on the same map")
    chk.rule("C12.atomic", "a refused insertion (false) has performed no store through the container and no incref (shared with C06)")
    from props.c06 import check_atomic
    check_atomic(chk, "C12.atomic", prog, cache)
    chk.not_decided += ["equivalence with an abstract list over all histories, and the amortised reallocation count (runtime "
                        "quantities); the invariant count <= capacity is maintained by these rules by induction (argument)",
                        ]
    # ---- index guard
    off_meta = prog.field_offset("cbor_item_t", "metadata")
    end_off = off_meta + prog.field_offset("_cbor_array_metadata", "end_ptr")
    nidx = 0
    for name in INDEXED:
        f = prog.fn(name)
        where = "%s:%d" % (f.file, f.line)
        ii = f.param_index("index")
        I = ("arg", ii)
        # (the size may be read from the field or through its accessor: accessors are seen through)
        for k, pa in enumerate(cache.get(name, inline=rules.pure_getters(prog, eff) - {name})):
            st = pa.st
            acc = [e for e in pa.events if e.kind in ("load", "store") and index_of(e.args[0])[1] == I]
            # what the path knows about index vs size: the relations still possible, however the tests are ordered / spelled
            rel = {"lt", "eq", "gt"}
            tested = False
            for t, truth, _ in pa.facts:
                if t[0] == "icmp" and len(t) == 4:
                    l_, r_ = t[2], t[3]
                    is_size = lambda x: isinstance(x, tuple) and x[0] == "ld" and x[1] == ("arg", 0) and x[2] == end_off  # noqa: E731
                    if l_ == I and is_size(r_):
                        pred = t[1]
                    elif r_ == I and is_size(l_):
                        pred = {"ult": "ugt", "ugt": "ult", "ule": "uge", "uge": "ule"}.get(t[1], t[1])
                    else:
                        continue
                    sat = {"ult": {"lt"}, "ule": {"lt", "eq"}, "ugt": {"gt"}, "uge": {"gt", "eq"}, "eq": {"eq"}, "ne": {"lt", "gt"}}.get(pred)
                    if sat is None:
                        continue
                    tested = True
                    rel &= sat if truth else ({"lt", "eq", "gt"} - sat)
            inb = None if not tested else (True if rel == {"lt"} else ("append" if rel == {"eq"} else (False if rel and rel <= {"gt", "eq"} and "gt" in rel else None)))
            for e in acc:
                nidx += 1
                ok = inb is True
                chk.ob("C12.index", "%s path %d: data[index] accessed with index < size" % (name, k), ok, e.ins.loc(), fn=name,
                       key="%s:acc:%d:%d" % (name, k, e.ins.id), detail="" if ok else "no bound test on this path (index may exceed the array)",
                       path=pa.block_lines() if not ok else None)
            delegated = [e for e in pa.events if e.kind == "call" and e.callee in ("cbor_array_push", "cbor_array_replace")]
            if inb is False:
                nidx += 1
                stores = [e for e in pa.events if e.kind == "store"]
                ok = pa.ret == ("c", 0) and not stores and not acc and not delegated
                chk.ob("C12.index", "%s path %d: out-of-range index is refused without touching memory" % (name, k), ok, where, fn=name,
                       key="%s:refuse:%d" % (name, k))
            if inb == "append" and name == "cbor_array_set":
                # set at index == size IS push: the answer is push's answer (growth, refusal of a full definite array), never a
                # refusal decided here
                pushes = [e for e in pa.events if e.kind == "call" and e.callee == "cbor_array_push" and e.args[0] == ("arg", 0)]
                ok = bool(pushes) and (pa.ret == pushes[-1].res or (P.is_const(pa.ret) and pa.st.truth.get(pushes[-1].res) is not None
                                                                   and int(bool(pa.st.truth.get(pushes[-1].res))) == pa.ret[1]))
                nidx += 1
                chk.ob("C12.index", "%s path %d: index == size appends (the result is cbor_array_push's)" % (name, k), ok, where, fn=name,
                       key="%s:append:%d" % (name, k), detail="" if ok else "returns %s at index == size without asking cbor_array_push: an indefinite "
                       "array that is exactly full is refused instead of grown" % DR.fmt_term(pa.ret), path=pa.block_lines() if not ok else None)
            if inb is None and not acc and not delegated and name != "cbor_array_set":
                chk.ob("C12.index", "%s path %d has no bound test" % (name, k), False, where, fn=name, key="%s:nobound:%d" % (name, k))
    chk.floor("C12.index", "indexed accesses / refusals", nidx, 4)

    # ---- capacity & growth
    G = int(prog.values["CBOR_BUFFER_GROWTH"])
    n = growth_rules(chk, prog, eff, G, "G=%d" % G)
    chk.floor("C12.growth", "growth paths", n, 5)
    if ctx.tier == "thorough":
        for g2 in (3, 4):
            pr = ctx.prog(overrides={"CBOR_BUFFER_GROWTH": g2}, with_controls=False)
            growth_rules(chk, pr, ctx.effects(pr), g2, "G=%d" % g2)
        chk.extra["growth_factors_checked"] = [G, 3, 4]
    # ---- bounded: a definite container is never grown
    import typestate
    H_, PA_, _IF, _ = ctx.typestate()
    CS = typestate.CallSites(prog, eff, cache, H_, PA_)
    chk.rule("C12.bounded", "definite containers are never reallocated: in the insertion routines of the kinds that have a definite "
                            "flavour, a reallocation (and the capacity update) happens only on paths that have established the "
                            "indefinite flavour of the container")
    nb = 0
    cap_offs = {off_meta + prog.field_offset("_cbor_array_metadata", "allocated"), off_meta + prog.field_offset("_cbor_map_metadata", "allocated")}
    for name in GROW_OPS:
        f = prog.fn(name)
        for k, pa in enumerate(cache.get(name, inline_static=True)):
            grows = [e for e in pa.events if e.kind == "call" and (e.callee in ("_cbor_realloc_multiple", "_cbor_realloc", "_cbor_alloc_multiple")
                                                                     or (e.ckind == "alloc" and e.callee != "_cbor_free"))]
            if not grows:
                continue
            tys_, _iw, _fw, fl = CS.summary(f, pa, ("arg", 0), upto=grows[0].nfacts)
            if not tys_ or not (tys_ & set(PA_.flavour_types)):
                continue
            has_definite = {t_ for t_ in tys_ if t_ in (prog.enum("cbor_type")["CBOR_TYPE_ARRAY"], prog.enum("cbor_type")["CBOR_TYPE_MAP"])}
            if not has_definite:
                continue     # chunked strings: the insertion routine is only defined for the indefinite flavour (asserted)
            nb += 1
            ok = fl == {1}
            chk.ob("C12.bounded", "%s path %d: storage grows only for the indefinite flavour" % (name, k), ok, grows[0].ins.loc(), fn=name,
                   key="%s:bounded:%d" % (name, grows[0].ins.id),
                   detail="" if ok else "the container may be definite here (flavours possible: %s): a definite container would be reallocated "
                                        "and accept more entries than it was created for" % sorted(fl), path=pa.block_lines() if not ok else None)
    chk.floor("C12.bounded", "growth paths of array/map insertion", nb, 2)

    chk.rule("C12.capacity-field", "whenever a freshly (re)allocated block becomes a container's storage, the capacity field next to it is "
                                   "written on the same path, with the element count of the request (every function, every path)")
    check_capacity_field(chk, "C12.capacity-field", prog, eff, cache)

    # ---- value slot
    f = prog.fn("cbor_map_add")
    for k, pa in enumerate(cache.get("cbor_map_add")):
        av = pa.calls("_cbor_map_add_value")
        ak = pa.calls("_cbor_map_add_key")
        if av:
            ok = len(ak) == 1 and pa.st.truth.get(ak[0].res) is True and ak[0].args[0] == av[0].args[0] and pa.events.index(ak[0]) < pa.events.index(av[0])
            chk.ob("C12.value-slot", "cbor_map_add path %d" % k, ok, "%s:%d" % (f.file, f.line), fn=f.name, key="mapadd:%d" % k)
    chk.rule("C12.add-contract", "cbor_map_add reports success only for a pair that was appended: every path that can return true has a "
                                 "successful _cbor_map_add_key on the map (a full definite map refuses, it is never updated in place)")
    for k, pa in enumerate(cache.get("cbor_map_add")):
        r = pa.ret
        if r == ("c", 0):
            continue
        ak = [e for e in pa.calls("_cbor_map_add_key") if e.args[0] == ("arg", 0) and (pa.st.truth.get(e.res) is True or _truthy12(pa.st, e.res))]
        chk.ob("C12.add-contract", "cbor_map_add path %d: success only after the key was appended" % k, bool(ak), "%s:%d" % (f.file, f.line),
               fn=f.name, key="addc:%d" % k, detail="" if ak else "may return true (%s) although _cbor_map_add_key did not succeed on this path" % DR.fmt_term(r),
               path=pa.block_lines() if not ak else None)
    b = prog.fn("_cbor_builder_append")
    for c in b.calls("_cbor_map_add_value"):
        # in the odd-parity arm: dominated by the true edge of (subitems % 2)
        blk = c.block
        ok = False
        for p in b.blocks:
            if len(p.succs) == 2 and b.edge_dominates(p, p.succs[0], blk):
                cond = p.term.operands[0]
                from ir import Inst
                x = cond
                while isinstance(x, Inst) and x.op in ("icmp", "trunc", "zext") and x.op != "urem":
                    x = x.operands[0]
                if isinstance(x, Inst) and x.op in ("urem", "and"):
                    ok = True
        chk.ob("C12.value-slot", "builder: value slot written only in the odd-parity arm (a key was just added)", ok, c.loc(), fn=b.name, key="builder-odd")
    # the writer itself: stores at pair index count-1
    v = prog.fn("_cbor_map_add_value")
    for k, pa in enumerate(cache.get(v.name)):
        ss = [(e,) + index_of(e.args[0]) for e in pa.events if e.kind == "store" and index_of(e.args[0])[1] is not None]
        ok = len(ss) == 1 and ss[0][2][0] == "op" and ss[0][2][1] in ("add", "sub")
        chk.ob("C12.value-slot", "_cbor_map_add_value writes pair [count - 1]", ok, "%s:%d" % (v.file, v.line), fn=v.name, key="vslot:%d" % k)
    chk.rule("C12.no-stale-block", "a refused insertion leaves the container as it was - in particular its storage block alive: a block "
                                   "read from a field and freed has that field overwritten or its owner freed on the same path "
                                   "(reallocation wrappers inlined; shared with C06)")
    from props.c06 import check_dangling
    check_dangling(chk, "C12.no-stale-block", prog, eff, cache)
    chk.rule("C12.refusal-justified", "an insertion is refused only because an allocation failed, an overflow guard answered false or a "
                                      "definite container is full")
    check_insert_refusal(chk, "C12.refusal-justified", prog, eff, cache)
    # the growth step's guard means what C12.growth takes it to mean (shared with C20.guard-semantics)
    import guard_rules as _g12
    _g12.check_guard_semantics(chk, prog, eff, cache, "C12.growth-guard")
    chk.rule("C12.declared-effects", "a function whose prototype promises `pure` / `const` to the client's compiler neither stores outside its frame "
             "nor allocates, releases or calls back (cbor_array_get and the other accessors of the sequence behave as the list model says for every client, also one compiled with optimisation)")
    import rules as _rde
    _rde.check_declared_effects(chk, "C12.declared-effects", prog, eff)
    chk.rule("C12.getters", "each field accessor returns, on every path, the value of the field it stands for (resolved through the struct "
             "types): no guard, clamp or second opinion between the stored value and the caller (size, capacity and storage of the sequences are what the containers store)")
    import rules as _rg
    _rg.check_field_getters(chk, "C12.getters", prog, eff, names=('cbor_array_size', 'cbor_array_allocated', 'cbor_array_handle', 'cbor_map_size', 'cbor_map_allocated', 'cbor_map_handle'))
    chk.rule("C12.signed-compare", "no 64-bit comparison in the library is signed: sizes, lengths, counts, indices and remainders are compared as the unsigned "
             "quantities they are (an out-of-range index is refused whatever its top bit)")
    import rules as _rsc
    _rsc.check_signed_compare(chk, "C12.signed-compare", prog)
    chk.rule("C12.contract", "an insertion that reports success has stored the element in exactly one slot and taken exactly one reference; one that "
             "reports failure has done neither (a call that answers true without adding anything leaves the list one short; shared with C04.contract)")
    import ownership as _O12c
    import rules as _r12c
    from props.c04 import check_contracts as _cc12
    _cc12(chk, "C12.contract", prog, eff, _O12c.PathCache(prog, eff), _r12c.item_offsets(prog))
    chk.exhaustive = True
