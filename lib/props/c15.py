"""C15 - floating-point values keep their exact bits through decode and encode (DESIGN §4 C15).
Deliberately narrow: the single/double bit-identity paths, NaN constants, width wiring and the
structural totality of the half encoder are decided; half-precision arithmetic is declined."""
from build import AnalysisBroken
import paths as P
import decoder_rules as DR15
import ownership as _O15
from paths import ptr_key
import encoder_rules as ER
import decoder_rules as DR
import tables
import ownership as O
import rules

FP_CONV = {"fpext", "fptrunc", "fptoui", "fptosi", "uitofp", "sitofp", "fadd", "fsub", "fmul", "fdiv", "frem", "fneg"}
MOVERS = ["cbor_float_get_float2", "cbor_float_get_float4", "cbor_float_get_float8", "cbor_set_float2", "cbor_set_float4",
          "cbor_set_float8", "cbor_build_float2", "cbor_build_float4", "cbor_build_float8", "cbor_builder_float2_callback",
          "cbor_builder_float4_callback", "cbor_builder_float8_callback", "_cbor_copy_float_ctrl", "cbor_serialize_float_ctrl",
          "_cbor_load_float", "_cbor_load_double", "cbor_encode_single", "cbor_encode_double"]


def run(ctx, chk):
    prog = ctx.prog()
    eff = ctx.effects(prog)
    cache = O.PathCache(prog, eff)
    chk.explanation = ("single and double precision are bit-identity paths: the SSA/memory trace from the float parameter to "
                       "the integer handed to the big-endian primitive (and from the loader's integer to the returned float) is "
                       "a pure reinterpretation with no arithmetic or conversion instruction; every function that moves a "
                       "float between decoder, item and encoder does so by plain load/store; NaN paths emit the canonical "
                       "constants; the width wiring 0xF9/FA/FB <-> float2/4/8 is checked in T-dispatch, the builders and "
                       "the serializer; the half encoder is loop-free, total and ends in the 3-byte primitive on every path.")
    chk.rule("C15.bits-encode", "cbor_encode_single/double: on the non-NaN edge the integer passed to the primitive is the bit "
                                "reinterpretation of the parameter; bytes are its big-endian image")
    chk.rule("C15.bits-decode", "_cbor_load_float/_double return the bit reinterpretation of the big-endian integer loader of "
                                "the same width applied to the same pointer")
    chk.rule("C15.no-conversion", "functions that move floats between decoder, item and encoder contain no floating-point "
                                  "conversion or arithmetic instruction")
    chk.rule("C15.identity-move", "setters store the parameter unchanged into the item's data; getters return the stored value; "
                                  "builders and the copy routine pass the value through getter/setter/constructor of one width")
    chk.rule("C15.nan", "NaN (fcmp uno edge) is encoded as 0x7E00 / 0x7FC00000 / 0x7FF8000000000000")
    chk.rule("C15.wiring", "0xF9/0xFA/0xFB claim 2/4/8 bytes, call the half/single/double loader at source+1 and the "
                           "float2/float4/float8 callback; the builders wired to those fields construct that width")
    chk.rule("C15.half-total", "cbor_encode_half is loop-free, contains no division and no failing call, and every path that "
                               "has room ends in the 3-byte primitive with initial byte 0xF9")
    chk.rule("C15.half-classes", "class dispatch of the half decoder, for all 65536 patterns: the integer path conditions are "
                                 "evaluated per pattern (bit-field terms only, no floating-point evaluation); exponent 31 must "
                                 "return the constants infinity (mantissa 0) or a NaN, every other pattern the scaled-mantissa "
                                 "computation, negated exactly when the sign bit is set")
    check_half_classes(chk, prog, eff)
    check_half_encode_table(chk, prog, eff)
    chk.rule("C15.width-serialize", "serializing a float item uses the getter and the encoder of the item's recorded width, unconverted "
                                    "(a half stays a half whatever its value; shared with C03.width)")
    import typestate as _ts15
    from props.c03 import check_width
    H15, PA15, _IF15, _x15 = ctx.typestate()
    cache15 = _O15.PathCache(prog, eff)
    check_width(chk, "C15.width-serialize", prog, eff, cache15, H15, PA15, _ts15.CallSites(prog, eff, cache15, H15, PA15),
                families=(("cbor_serialize_float_ctrl", ("float", 0xE0)),))
    import shift_rules
    import ownership as _O
    chk.rule("C15.shift-range", "the half encoder's two shifts by a run-time distance stay below the operand width for every exponent "
                                "that reaches them")
    shift_rules.check_shift_range(chk, "C15.shift-range", prog, eff, _O.PathCache(prog, eff), floor=2)
    chk.not_decided += ["behaviour of cbor_encode_half on floats that are NOT half-representable (rounding / flush to zero): outside the "
                        "property's domain", "exactness of libm's ldexp and of the hardware's double -> float conversion (trusted)"]
    # encode side
    for n, w in (("cbor_encode_single", 4), ("cbor_encode_double", 8), ("cbor_encode_half", 2)):
        res, np_ = ER.check_encoder(prog, eff, n)
        for rule, inst, ok, where, detail in res:
            if rule in ("bits", "bytes") and w != 2:
                chk.ob("C15.bits-encode", inst, ok, where, fn=n, detail=detail)
            elif rule == "nan":
                chk.ob("C15.nan", inst, ok, where, fn=n, detail=detail)
            elif w == 2 and rule in ("guard", "offset", "bytes"):
                chk.ob("C15.half-total", inst, ok, where, fn=n, detail=detail)
    # decode side
    check_bits_decode(chk, "C15.bits-decode", prog, cache)
    # no conversion instructions
    for n in MOVERS:
        f = prog.fn(n)
        bad = [i for i in f.all_insts() if i.op in FP_CONV]
        chk.ob("C15.no-conversion", n, not bad, "%s:%d" % (f.file, f.line), fn=n,
               detail="" if not bad else "%s at %s" % (bad[0].op, bad[0].loc()))
    chk.floor("C15.no-conversion", "float-moving functions", len(MOVERS), 18)
    # identity moves
    off = rules.item_offsets(prog)
    for w in ("2", "4", "8"):
        s = prog.fn("cbor_set_float" + w)
        for pa in cache.get(s.name):
            st = [e for e in pa.events if e.kind == "store"]
            ok = len(st) == 1 and st[0].args[1] == ("arg", 1) and st[0].args[0][0] == "ld" and st[0].args[0][1] == ("arg", 0) and st[0].args[0][2] == off["data"]
            chk.ob("C15.identity-move", s.name + " stores the parameter at item->data", ok, "%s:%d" % (s.file, s.line), fn=s.name)
        g = prog.fn("cbor_float_get_float" + w)
        for pa in cache.get(g.name):
            r = pa.ret
            ok = r[0] == "ld" and r[1][0] == "ld" and r[1][1] == ("arg", 0) and r[1][2] == off["data"] and r[2] == 0
            chk.ob("C15.identity-move", g.name + " returns the value at item->data", ok, "%s:%d" % (g.file, g.line), fn=g.name)
        # builder and decoder callback: decided on the STATE of the item they produce (constructors, setters and any
        # helper they delegate to inlined): a float item of this width whose payload is the parameter, unconverted
        FWv = prog.enum("cbor_float_width")["CBOR_FLOAT_%s" % {"2": "16", "4": "32", "8": "64"}[w]]
        TFC = prog.enum("cbor_type")["CBOR_TYPE_FLOAT_CTRL"]
        fty = {"2": "float", "4": "float", "8": "double"}[w]

        def holds(d, param):
            if d is None:
                return False, "no item"
            if d["type"] != ("c", TFC) or d["meta0"] != ("c", FWv):
                return False, "type %s / width %s" % (d["type"], d["meta0"])
            if d["refcount"] != ("c", 1):
                return False, "reference count %s" % (d["refcount"],)
            pays = d.get("payload") or {}
            if pays.get(fty) != param:
                return False, "payload %s is not the parameter, unconverted" % (pays,)
            return True, ""
        b = prog.fn("cbor_build_float" + w)
        okb, detb, nb_ = True, "", 0
        for rs in tables.result_states(prog, eff, b.name):
            if rs["desc"] is None:
                continue
            nb_ += 1
            o_, d_ = holds(rs["desc"], ("arg", 0))
            okb, detb = okb and o_, detb or d_
        chk.ob("C15.identity-move", b.name + ": a float item of this width holding the value unchanged", okb and nb_ >= 1, "%s:%d" % (b.file, b.line),
               fn=b.name, detail=detb)
        cb = prog.fn("cbor_builder_float%s_callback" % w)
        okc, detc, n_ok = True, "", 0
        for rs in tables.result_states(prog, eff, cb.name, at_call="_cbor_builder_append"):
            n_ok += 1
            o_, d_ = holds(rs["desc"], ("arg", 1))
            okc, detc = okc and o_, detc or d_
        chk.ob("C15.identity-move", cb.name + ": builds a float%s holding the callback's value" % w, okc and n_ok >= 1,
               "%s:%d" % (cb.file, cb.line), fn=cb.name, detail=detc)
    cp = prog.fn("_cbor_copy_float_ctrl")
    FW = prog.enum("cbor_float_width")
    import typestate as _ts
    CS_ = _ts.CallSites(prog, eff, cache, {}, _ts.PredAlgebra(prog))
    seen = set()
    for pa in cache.get(cp.name):
        w = None
        # the helper is only called for float/ctrl items: start from that type and apply the path's width tests
        pts = {p for p in CS_.pts_all(cp, pa, ("arg", 0)) if p[0] == CS_.PA.float_type}
        ws = sorted({p[2] for p in pts})
        if ws and len(ws) < 4:
            w = ws
        if not w or len(w) != 1 or w[0] == FW["CBOR_FLOAT_0"]:
            continue
        ws = {FW["CBOR_FLOAT_16"]: "2", FW["CBOR_FLOAT_32"]: "4", FW["CBOR_FLOAT_64"]: "8"}[w[0]]
        b = pa.calls("cbor_build_float" + ws)
        g = pa.calls("cbor_float_get_float" + ws)
        ok = len(b) == 1 and len(g) == 1 and b[0].args[0] == g[0].res and g[0].args[0] == ("arg", 0) and pa.ret == b[0].res
        seen.add(ws)
        chk.ob("C15.identity-move", "_cbor_copy_float_ctrl width %s: build(get(item)) of the same width" % ws, ok, "%s:%d" % (cp.file, cp.line), fn=cp.name)
    chk.ob("C15.identity-move", "_cbor_copy_float_ctrl covers the three float widths", seen == {"2", "4", "8"}, "%s:%d" % (cp.file, cp.line), fn=cp.name)
    # wiring
    by_byte, pre, outs = tables.dispatch(prog, eff)
    names, enumv = DR.status_names(prog)
    ext = {}

    def loader_ext(name):
        if name not in ext:
            ext[name] = tables.read_extent(prog, name, 0)
        return ext[name]
    want_loader = {0xF9: ("float2", "float", 2), 0xFA: ("float4", "float", 4), 0xFB: ("float8", "double", 8)}
    for b, (field, rty, n) in want_loader.items():
        ref = tables.ref_dispatch(b)
        for k, o in enumerate(by_byte[b]):
            for rule, ok, detail in DR.check_byte(prog, b, ref, o, enumv, loader_ext):
                chk.ob("C15.wiring", "byte 0x%02X path %d (%s)" % (b, k, rule), ok, "src/cbor/streaming.c", fn="cbor_stream_decode",
                       key="%02X:%s:%d" % (b, rule, k), detail=detail)
            for cb in o["callbacks"]:
                d = cb["desc"][0]
                lf = prog.fn(d[1]) if d[0] == "loader" else None
                ok = lf is not None and lf.ret_type == rty
                chk.ob("C15.wiring", "byte 0x%02X: loader returns %s" % (b, rty), ok, "src/cbor/streaming.c", fn="cbor_stream_decode", key="%02X:rty" % b)
    load = prog.fn("cbor_load")
    g = __import__("tables").load_callbacks_global(prog)
    fields = tables.callback_fields(prog)
    for name, el in zip(fields, g["init_val"].elems):
        if name in ("float2", "float4", "float8"):
            ok = getattr(el, "name", None) == "cbor_builder_%s_callback" % name
            chk.ob("C15.wiring", "cbor_load wires field %s to the builder of that width" % name, ok, "src/cbor.c", fn="cbor_load", key="wire:" + name)
    # half totality
    h = prog.fn("cbor_encode_half")
    chk.ob("C15.half-total", "loop-free", not h.back_edges(), "%s:%d" % (h.file, h.line), fn=h.name)
    bad = [i for i in h.all_insts() if i.op in ("udiv", "sdiv", "urem", "srem", "fdiv", "frem")]
    chk.ob("C15.half-total", "no division", not bad, "%s:%d" % (h.file, h.line), fn=h.name)
    callees = {i.callee for i in h.calls() if i.callee and not i.callee.startswith("llvm.")}
    P16 = prim16(prog, h)
    ok = bool(P16) and callees <= P16
    chk.ob("C15.half-total", "only callee is the 3-byte primitive", ok, "%s:%d" % (h.file, h.line), fn=h.name, detail=str(sorted(callees)))
    rets = h.returns()
    okr = all(isinstance(r.operands[0], type(rets[0].operands[0])) for r in rets)
    from ir import Inst
    allprim = True
    for b in h.blocks:
        if b.insts and b.term.op == "ret":
            v = b.term.operands[0]
            if isinstance(v, Inst) and v.op == "phi":
                allprim = all(isinstance(x, Inst) and x.op == "call" and x.callee in P16 for x in v.operands)
            else:
                allprim = isinstance(v, Inst) and v.op == "call" and v.callee in P16
    chk.ob("C15.half-total", "every return is the primitive's result", allprim, "%s:%d" % (h.file, h.line), fn=h.name)
    chk.exhaustive = True


def check_bits_decode(chk, rule, prog, cache):
    """the 4- and 8-byte float loaders hand on the bit pattern they read: the result is the reinterpretation of the big-endian
    integer loader of the same width applied to the same pointer (however it is spelled: union, memcpy, cast through char*)"""
    for n, ity, fty, il in (("_cbor_load_float", "i32", "float", "_cbor_load_uint32"), ("_cbor_load_double", "i64", "double", "_cbor_load_uint64")):
        f = prog.fn(n)
        ps = cache.get(n)
        ok = len(ps) == 1
        det = ""
        if ok:
            r = ps[0].ret
            ok = r[0] == "reinterpret" and r[1] == fty and r[2][0] == "call" and r[2][1] == il
            if ok:
                ce = [e for e in ps[0].events if e.kind == "call" and e.res == r[2]][0]
                ok = ce.args[0] == ("arg", 0)
            det = "" if ok else "returns %r" % (r,)
        else:
            det = "%d paths: the value is computed, not moved" % len(ps)
        chk.ob(rule, n, ok, "%s:%d" % (f.file, f.line), fn=n, detail=det[:300])


def check_half_classes(chk, prog, eff, prefix="C15"):
    import termeval
    f = prog.fn("_cbor_decode_half")
    where = "%s:%d" % (f.file, f.line)
    # a normalisation loop over the 10-bit mantissa is unrolled completely (a pattern that no unrolled path serves is
    # reported as unserved, never passed)
    ps = P.Executor(prog, eff, loop_bound=11 if f.back_edges() else 1).run(f.name)
    SRC = ("arg", 0)
    # leaves: the two input bytes
    hi_t = lo_t = None
    for pa in ps:
        for e in pa.events:
            if e.kind == "load" and ptr_key(e.args[0])[0] == SRC:
                if ptr_key(e.args[0])[1] == 0:
                    hi_t = e.res
                elif ptr_key(e.args[0])[1] == 1:
                    lo_t = e.res
    if hi_t is None or lo_t is None:
        raise AnalysisBroken("_cbor_decode_half does not read halfp[0] and halfp[1]")

    def action(pa, env):
        r = pa.ret
        neg = False
        while isinstance(r, tuple) and (r[0] == "cast" or (r[0] == "op" and r[1] == "fneg")):
            if r[0] == "op":
                neg = not neg
                r = r[3]
            else:
                r = r[3]
        if isinstance(r, tuple) and r[0] == "sel":
            c = termeval.evaluate(r[1], env, {})
            r = r[2] if c else r[3]
        if isinstance(r, tuple) and r[0] == "fc":
            bits, ty = r[1], r[2]
            if ty == "float":
                e_, m_ = (bits >> 23) & 0xFF, bits & 0x7FFFFF
                full = 0xFF
            else:
                e_, m_ = (bits >> 52) & 0x7FF, bits & ((1 << 52) - 1)
                full = 0x7FF
            if e_ == full:
                return ("inf" if m_ == 0 else "nan"), neg
            return "const", neg
        if isinstance(r, tuple) and r[0] == "call" and r[1] == "ldexp":
            return "scaled", neg
        if isinstance(r, tuple) and r[0] == "reinterpret" and r[1] == "float":
            # the single-precision bit pattern is assembled with integer operations: evaluated per pattern
            try:
                bits = termeval.evaluate(r[2], env, {}) & 0xFFFFFFFF
            except AnalysisBroken:
                return "other", neg       # the bits go through floating-point arithmetic: not an integer assembly
            if neg:
                bits ^= 0x80000000
            return ("bits", bits), False
        return "other", neg
    facts = []
    for pa in ps:
        fs = [(t, truth) for t, truth, _ in pa.facts]
        for t, _ in fs:
            if t[0] not in ("icmp", "in", "notin"):
                raise AnalysisBroken("_cbor_decode_half branches on a non-integer condition: %r" % (t,))
        facts.append(fs)
    bad = []
    badval = []
    nval = 0
    counts = {}
    cfacts = [(termeval.compile_terms([t for t, _ in fs], [hi_t, lo_t]), [tr for _, tr in fs]) for fs in facts]
    cscale = {}
    for i_, pa_ in enumerate(ps):
        lc = pa_.calls("ldexp")
        if len(lc) == 1 and isinstance(lc[0].args[0], tuple) and lc[0].args[0][0] == "cast" and lc[0].args[0][1] in ("sitofp", "uitofp"):
            cscale[i_] = (termeval.compile_terms([lc[0].args[0][3], lc[0].args[1]], [hi_t, lo_t]), lc[0].args[0][1])
    for H in range(65536):
        env = {hi_t: H >> 8, lo_t: H & 0xFF}
        match = [i for i, (fn_, trs) in enumerate(cfacts) if all(bool(v) == tr for v, tr in zip(fn_(H >> 8, H & 0xFF), trs))]
        if len(match) != 1:
            bad.append("pattern %04x is served by %d paths" % (H, len(match)))
            continue
        kind, neg = action(ps[match[0]], env)
        s_, e_, m_ = H >> 15, (H >> 10) & 31, H & 1023
        if isinstance(kind, tuple) and kind[0] == "bits":
            ref = half_to_float_bits(H)
            got_b = kind[1]
            want = ("inf" if m_ == 0 else "nan") if e_ == 31 else "scaled"
            if want == "nan":
                ok = (got_b >> 23) & 0xFF == 0xFF and got_b & 0x7FFFFF != 0
            else:
                ok = got_b == ref
            counts[want] = counts.get(want, 0) + 1
            if want == "scaled":
                nval += 1
                if not ok and len(badval) < 6:
                    badval.append("pattern %04x (exponent %d, mantissa %d): assembled single-precision bits 0x%08x, IEEE-754 value is 0x%08x"
                                  % (H, e_, m_, got_b, ref))
            elif not ok and len(bad) < 6:
                bad.append("pattern %04x must be %s%s; assembled bits 0x%08x" % (H, "-" if s_ and want != "nan" else "", want, got_b))
            continue
        if e_ == 31:
            want = "inf" if m_ == 0 else "nan"
            ok = kind == want and (neg == bool(s_) or want == "nan")
        else:
            want = "scaled"
            ok = kind == "scaled" and neg == bool(s_)
        counts[want] = counts.get(want, 0) + 1
        if ok and want == "scaled":
            # the operands of the scaling call denote exactly the IEEE-754 value of the pattern:
            # significand x 2^exponent = m x 2^-24 (subnormal / zero) or (1024 + m) x 2^(e - 25)
            val_ok = False
            got = None
            if match[0] in cscale:
                fn_, kind_ = cscale[match[0]]
                sv, xv = fn_(H >> 8, H & 0xFF)
                if xv >> 31:
                    xv -= 1 << 32
                if kind_ == "sitofp" and sv >> 31:
                    sv -= 1 << 32
                # sv x 2^xv  ==  ref_sig x 2^ref_exp  (exact integer comparison after aligning the exponents)
                rs, rx = (m_, -24) if e_ == 0 else (1024 + m_, e_ - 25)
                lo_x = min(xv, rx)
                got = (sv, xv)
                val_ok = sv * (1 << (xv - lo_x)) == rs * (1 << (rx - lo_x))
            nval += 1
            if not val_ok and len(badval) < 6:
                badval.append("pattern %04x (exponent %d, mantissa %d): scaling operands denote %s" % (H, e_, m_, got))
        if not ok and len(bad) < 6:
            bad.append("pattern %04x (sign %d, exponent %d, mantissa %d) must be %s%s; the decoder takes the '%s'%s path"
                       % (H, s_, e_, m_, "-" if s_ and want != "nan" else "", want, kind, " negated" if neg else ""))
    chk.ob(prefix + ".half-classes", "all 65536 half patterns reach the action of their IEEE-754 class", not bad, where, fn=f.name, key="half-classes",
           detail="; ".join(bad))
    for k, v in sorted(counts.items()):
        chk.ob(prefix + ".half-classes", "class %s: %d patterns examined" % (k, v), True, where, fn=f.name, key="half-class:" + k, nontrivial=False)
    chk.extra["half_patterns_classified"] = sum(counts.values())
    chk.rule(prefix + ".half-value", "for every finite half pattern the operands of the decoder's scaling call (integer terms, evaluated per "
                               "pattern) denote exactly m x 2^-24 (exponent 0) or (1024 + m) x 2^(e-25); ldexp by a power of two and the "
                               "double -> float conversion of a half-representable value are exact (ISO C / IEEE-754, trusted)")
    chk.ob(prefix + ".half-value", "scaling operands of all %d finite half patterns denote the IEEE-754 value" % nval, not badval and nval >= 63488, where,
           fn=f.name, key="half-value", detail="; ".join(badval))
    chk.extra["half_patterns_value_checked"] = nval


def half_to_float_bits(H):
    """IEEE-754 binary32 bit pattern of the binary16 pattern H (reference, integer arithmetic only)"""
    s_, e_, m_ = H >> 15, (H >> 10) & 31, H & 1023
    if e_ == 31:
        return (s_ << 31) | (0xFF << 23) | (m_ << 13)
    if e_ == 0:
        if m_ == 0:
            return s_ << 31
        k = m_.bit_length() - 1            # m x 2^-24 = 1.xxx x 2^(k-24)
        return (s_ << 31) | ((k - 24 + 127) << 23) | ((m_ << (23 - k)) & 0x7FFFFF)
    return (s_ << 31) | ((e_ - 15 + 127) << 23) | (m_ << 13)


def prim16(prog, h):
    """the 3-byte head primitive as the half encoder uses it, whatever it is called: the library routine(s) it calls whose first
    parameter is a 16-bit integer and whose result is a byte count (what that routine writes is C10.bytes / C03.bytes)"""
    out = set()
    for i in h.calls():
        g = prog.funcs.get(i.callee or "")
        if g is not None and g.params and g.params[0]["type"] == "i16" and g.ret_type == "i64":
            out.add(g.name)
    return out


def check_half_encode_table(chk, prog, eff):
    """the half encoder, tabulated: for each of the 65536 half patterns the float that pattern denotes is encoded back to
    the same pattern (NaNs to the canonical 0x7e00).  The encoder's result is an integer term over the float's bits;
    it is evaluated per pattern, no floating-point evaluation takes place."""
    import termeval
    f = prog.fn("cbor_encode_half")
    where = "%s:%d" % (f.file, f.line)
    chk.rule("C15.half-encode-table", "cbor_encode_half restricted to the 65536 half-representable floats is the inverse of the half -> "
                                      "float embedding: the 16-bit value it hands to the 3-byte primitive (an integer term over the bits "
                                      "of its argument, evaluated per pattern on the one path whose conditions hold) is the original "
                                      "pattern, and 0x7e00 for every NaN")
    ps = P.Executor(prog, eff).run(f.name)
    P16_ = prim16(prog, f)
    BITS = None
    paths_ = []
    for pa in ps:
        enc = [e for e in pa.events if e.kind == "call" and e.callee in P16_]
        if len(enc) != 1:
            chk.ob("C15.half-total", "cbor_encode_half: every path ends in the 3-byte primitive (encoding is total)", False, where, fn=f.name,
                   key="half-total:nopath", detail="a path returns %s without handing a 16-bit value to the primitive: some float produces no bytes"
                   % DR15.fmt_term(pa.ret), path=pa.block_lines())
            continue
        for t in P.subterms(enc[0].args[0]):
            if isinstance(t, tuple) and t[0] == "reinterpret" and t[2] == ("arg", 0):
                BITS = t
        for t, _tr, _ in pa.facts:
            for u in P.subterms(t):
                if isinstance(u, tuple) and u[0] == "reinterpret" and u[2] == ("arg", 0):
                    BITS = u
        paths_.append(([(t, tr) for t, tr, _ in pa.facts], enc[0].args[0]))
    if BITS is None:
        raise AnalysisBroken("cbor_encode_half does not reinterpret its argument as an integer")
    bad = []
    n = 0
    UNO, ORD = ("fcmp", "uno", ("arg", 0), ("arg", 0)), ("fcmp", "ord", ("arg", 0), ("arg", 0))
    leaves = [BITS, UNO, ORD]
    compiled = []
    for fs, res in paths_:
        compiled.append((termeval.compile_terms([t for t, _ in fs] + [res], leaves), [tr for _, tr in fs]))
    for H in range(65536):
        fb = half_to_float_bits(H)
        isnan = ((fb >> 23) & 0xFF) == 0xFF and (fb & 0x7FFFFF) != 0
        match = []
        for fn_, trs in compiled:
            vals = fn_(fb, int(isnan), int(not isnan))
            if all(bool(v) == tr for v, tr in zip(vals, trs)):
                match.append(vals[-1])
        if len(match) != 1:
            bad.append("float of pattern %04x is served by %d paths" % (H, len(match)))
            continue
        got = match[0] & 0xFFFF
        want = 0x7E00 if isnan else H
        n += 1
        if got != want and len(bad) < 6:
            bad.append("the float denoted by half %04x is encoded as %04x" % (H, got))
    chk.ob("C15.half-encode-table", "all 65536 half-representable floats encode to their own pattern (NaN -> 7e00)", not bad and n == 65536, where,
           fn=f.name, key="half-encode-table", detail="; ".join(bad))
    chk.extra["half_patterns_encoded"] = n
