"""C08 - each streaming-decoder call obeys its status / read / required contract (DESIGN §4 C08)."""
from build import AnalysisBroken
import tables
import decoder_rules as DR
import paths as P


def run(ctx, chk):
    prog = ctx.prog()
    eff = ctx.effects(prog)
    chk.explanation = ("cbor_stream_decode is loop-free: ALL of its paths are enumerated (claim_bytes inlined) by the "
                       "path engine and each path's abstract outcome - status, read, required, callbacks invoked with "
                       "their argument terms, bytes claimed before every read of the buffer - is compared, for every one "
                       "of the 256 initial bytes, with a reference action table written from RFC 8949 §3/Appendix B and "
                       "libcbor's profile. Effect summaries decide 'allocates nothing, keeps no state'.")
    chk.rule("C08.coverage", "every initial byte 0..255 reaches at least one path; the status outcomes per byte are exactly "
                             "{ERROR} for reserved/unsupported bytes and {FINISHED} plus NEDATA-per-claim otherwise")
    chk.rule("C08.action", "FINISHED paths invoke exactly one callback: the field, the argument (immediate minus bias, "
                           "N-byte loader at source+1, constant, none) and the context are those of the reference table")
    chk.rule("C08.payload", "string payload pointer is source + head length and the length passed is the value claimed")
    chk.rule("C08.read", "FINISHED: read = bytes claimed = head (+payload) length, required = 0")
    chk.rule("C08.claim", "claims are exactly 1, then the argument width, then the payload length, in that order")
    chk.rule("C08.nedata", "NEDATA: no callback, read = 0, required = bytes claimed so far + the failing amount, and the "
                           "failing test is 'amount > provided - claimed' (hence required > buffer length)")
    chk.rule("C08.nedata-wrap", "when the failing amount is a decoded length, claimed + length is proved not to wrap on "
                                "the path, or the stored value is the saturated maximum on the wrapping path")
    chk.rule("C08.error-arm", "ERROR: no callback, nothing claimed beyond the initial byte, fresh zeroed result")
    chk.rule("C08.status", "status is one of the three enumerators on every path")
    chk.rule("C08.claim-before-read", "every read of the buffer (dispatch byte, loader calls of derived width) lies below "
                                      "the number of bytes successfully claimed at that point")
    chk.rule("C08.stateless", "cbor_stream_decode and its transitive callees reach no allocator call, store to no global "
                              "and own no function-static; the result is built from call-local data")
    chk.not_decided += ["numeric value decoded by the half-float loader (C15)", "behaviour of the client callbacks"]

    by_byte, pre, outs = tables.dispatch(prog, eff)
    chk.floor("C08.coverage", "paths of cbor_stream_decode", len(outs), 70)
    names, enumv = DR.status_names(prog)
    ext_cache = {}

    def loader_ext(name):
        if name not in ext_cache:
            ext_cache[name] = tables.read_extent(prog, name, 0)
        return ext_cache[name]

    f = prog.fn("cbor_stream_decode")
    where_fn = "%s:%d" % (f.file, f.line)
    # the path before the dispatch: first claim fails
    okpre = len(pre) == 1
    chk.ob("C08.nedata", "empty buffer path", okpre, where_fn, fn=f.name,
           detail="" if okpre else "%d paths leave before the dispatch" % len(pre))
    for o in pre:
        st = o["status"]
        ok = (st == ("c", enumv["CBOR_DECODER_NEDATA"]) and o["read"] == ("c", 0) and o["required"] == ("c", 1)
              and not o["callbacks"] and not o["reads"])
        chk.ob("C08.nedata", "empty buffer: NEDATA, read 0, required 1, buffer untouched", ok, where_fn, fn=f.name,
               detail="" if ok else "status=%s read=%s required=%s reads=%d" % (st, o["read"], o["required"], len(o["reads"])))

    nact = 0
    for b in range(256):
        ref = tables.ref_dispatch(b)
        os_ = by_byte[b]
        chk.ob("C08.coverage", "byte 0x%02X has a path" % b, bool(os_), where_fn, fn=f.name, key="byte:%02X" % b, nontrivial=False)
        statuses = sorted(set(o["status"][1] for o in os_ if P.is_const(o["status"])))
        if ref == ("error",):
            exp = [enumv["CBOR_DECODER_ERROR"]]
        else:
            more = ref["argbytes"] or ref.get("payload")
            exp = sorted([enumv["CBOR_DECODER_FINISHED"]] + ([enumv["CBOR_DECODER_NEDATA"]] if more else []))
        ok = statuses == exp
        chk.ob("C08.coverage", "outcomes of byte 0x%02X" % b, ok, where_fn, fn=f.name, key="outcomes:%02X" % b,
               detail="" if ok else "status outcomes %s, expected %s" % ([names.get(s, s) for s in statuses], [names[s] for s in exp]))
        for k, o in enumerate(os_):
            line = o["path"].events[-1].ins.line if o["path"].events else 0
            for ev in reversed(o["path"].events):
                if ev.kind == "call" or ev.kind == "leave":
                    line = ev.ins.line
                    break
            where = "%s:%d" % (f.file, line)
            for rule, ok, detail in DR.check_byte(prog, b, ref, o, enumv, loader_ext):
                nact += 1
                chk.ob("C08." + rule, "byte 0x%02X path %d" % (b, k), ok, where, fn=f.name,
                       key="%02X:%s:%s" % (b, rule, names.get(o["status"][1], "?") if P.is_const(o["status"]) else "?"),
                       detail=detail, path=o["path"].block_lines() if not ok else None)
            for ok, detail, ev in DR.claim_before_read(o):
                chk.ob("C08.claim-before-read", "byte 0x%02X path %d %s" % (b, k, ev.callee or "load"), ok, ev.ins.loc(), fn=f.name,
                       key="%02X:cbr:%s:%s" % (b, ev.callee or "load", k), detail="" if ok else detail,
                       path=o["path"].block_lines() if not ok else None)
    chk.floor("C08.action", "byte x path comparisons", nact, 700)

    # stateless / allocation free
    S = eff.summ["cbor_stream_decode"]
    chk.ob("C08.stateless", "no allocator call reachable", not S["allocates"] and not S["frees"], where_fn, fn=f.name)
    gw = sorted(r[1] for r in S["writes"] if r[0] == "global")
    chk.ob("C08.stateless", "no store to a global", not gw, where_fn, fn=f.name, detail=str(gw) if gw else "")
    callees = eff.transitive_callees("cbor_stream_decode") | {"cbor_stream_decode"}
    statics = [g for g in prog.globals.values() if g["unit"].startswith("src/") and not g["constant"]
               and any(g["name"].startswith(c + ".") for c in callees)]
    chk.ob("C08.stateless", "no function-static in the decoder or its callees", not statics, where_fn, fn=f.name,
           detail=str([g["name"] for g in statics]) if statics else "")
    unk = [r for r in S["writes"] if r[0] == "unknown"]
    chk.ob("C08.stateless", "no store through a pointer of unknown provenance", not unk, where_fn, fn=f.name)
    # reads of source_size only feed claim_bytes (prefix monotonicity, used by C09/C14)
    chk.count("paths", len(outs))
    chk.count("transitive callees", len(callees))
    # the argument delivered for a half-precision head (0xF9): the value the two bytes denote
    chk.rule("C08.half-classes", "the float2 callback's argument: every one of the 65536 two-byte patterns reaches the action of its IEEE-754 "
                                 "class in the half decoder (infinity / NaN / scaled value, negated iff the sign bit is set); shared with C15")
    from props.c15 import check_half_classes, check_bits_decode
    check_half_classes(chk, prog, eff, prefix="C08")
    chk.rule("C08.bits-decode", "the float4 / float8 callbacks receive exactly the encoded value: the loaders return the bit "
                                "reinterpretation of the big-endian integer of the same width (shared with C15.bits-decode)")
    import ownership as _O8
    check_bits_decode(chk, "C08.bits-decode", prog, _O8.PathCache(prog, eff))
    chk.rule("C08.stateless", "the decoder is a function of its arguments: nothing reachable from cbor_stream_decode writes an object with static storage "
             "(no memo of the previous call, no flag that survives it) - the answer for a buffer does not depend on what was decoded before "
             "(transitive write sets from the effects engine; shared with C17.no-global-write)")
    import rules as _rst
    _rst.check_stateless(chk, "C08.stateless", prog, eff, ('cbor_stream_decode',))
    chk.exhaustive = True
