"""Trace checkers over the path engine: allocation-null discipline (C06 rule 1),
reference ownership balance (C04 C / C06 rule 2 / C11), operation contracts
(C04 A), container atomicity (C06 rule 3)."""
from build import AnalysisBroken
import paths as P
from paths import ptr_key, is_const, derives


class PathCache:
    def __init__(self, prog, eff, loop_bound=1):
        self.prog, self.eff = prog, eff
        self.default = loop_bound
        self._c = {}
        derive_owned(prog)

    def get(self, fname, loop_bound=None, inline=(), inline_static=False):
        loop_bound = self.default if loop_bound is None else loop_bound
        if inline_static:
            inline = set(inline) | static_callees(self.prog, self.eff, fname)
        fw = forward_targets(self.prog, self.eff, fname)
        if fw:
            inline = set(inline) | fw
        key = (fname, loop_bound, tuple(sorted(inline)))
        if key not in self._c:
            self._c[key] = P.Executor(self.prog, self.eff, inline=inline, loop_bound=loop_bound).run(fname)
        return self._c[key]


static_callees = P.static_callees

_FW = {}


def forward_targets(prog, eff, fname):
    """A public operation written as a forwarder: it returns what an internal routine of the library (the repository's own
    naming convention: a leading underscore, never part of the documented API) returns, having handed it its own parameters.  Such a
    routine is the operation's body in another place - two siblings sharing one implementation - and is analysed in place, with
    its own unit-internal helpers."""
    key = (id(prog), fname)
    if key in _FW:
        return _FW[key]
    _FW[key] = set()
    f = prog.funcs.get(fname)
    out = set()
    if f is not None and f.blocks and not fname.startswith("_"):
        from ir import Inst, Arg, strip_casts
        for r in f.all_insts():
            if r.op != "ret" or not r.operands:
                continue
            vals, seen = [r.operands[0]], set()
            while vals:
                v = strip_casts(vals.pop(), ("bitcast", "zext", "trunc"))
                if not isinstance(v, Inst) or v.id in seen:
                    continue
                seen.add(v.id)
                if v.op == "phi":
                    vals.extend(v.operands)
                elif v.op == "call" and v.callee and v.callee.startswith("_") and v.callee in prog.funcs and prog.funcs[v.callee].blocks:
                    g = v.callee
                    nparam = sum(1 for a in v.operands if isinstance(strip_casts(a), Arg))
                    if nparam >= 1 and g not in eff.transitive_callees(g) and not g.startswith(("_cbor_malloc", "_cbor_realloc", "_cbor_free")) and \
                            g not in P.OPAQUE and g not in TAKES_REF:
                        out.add(g)
                        out |= static_callees(prog, eff, g)
    _FW[key] = out
    return out


def base_of(t):
    return ptr_key(t)[0] if isinstance(t, tuple) else t


# ---------------------------------------------------------------------------
# nullness

class Nullness:
    """may_return_alloc_null(f) and may_deref_unchecked(f, j), both by fixpoint over path traces"""

    def __init__(self, prog, eff, cache):
        self.prog, self.eff, self.cache = prog, eff, cache
        self.identity = {}   # fn -> param index it returns unchanged
        self.mrn = set()
        self.mdu = {}        # fn -> set of param indices
        self.funcs = [f for f in prog.funcs.values()]
        self._identity()
        self._solve()

    def _identity(self):
        for f in self.funcs:
            if not f.ret_type.endswith("*"):
                continue
            ps = self.cache.get(f.name)
            rets = {pa.ret for pa in ps}
            if len(rets) == 1:
                r = next(iter(rets))
                if isinstance(r, tuple) and r[0] == "arg":
                    self.identity[f.name] = r[1]

    def sources(self, pa):
        """{term: origin event} of possibly-NULL allocation results on a path, with identity aliases resolved"""
        src = {}
        alias = {}
        for e in pa.events:
            if e.kind != "call":
                continue
            if e.ckind == "alloc" and e.callee in ("_cbor_malloc", "_cbor_realloc"):
                src[e.res] = e
            elif e.ckind == "lib":
                if e.callee in self.identity:
                    a = e.args[self.identity[e.callee]]
                    a = alias.get(a, a)
                    alias[e.res] = a
                elif e.callee in self.mrn:
                    src[e.res] = e
        return src, alias

    def _solve(self):
        changed = True
        rounds = 0
        while changed:
            rounds += 1
            if rounds > 20:
                raise AnalysisBroken("nullness fixpoint did not converge")
            changed = False
            for f in self.funcs:
                ps = self.cache.get(f.name)
                if f.ret_type.endswith("*") and f.name not in self.mrn and f.name not in self.identity:
                    for pa in ps:
                        src, alias = self.sources(pa)
                        r = alias.get(pa.ret, pa.ret)
                        if r in src and not pa.st.known_nonnull(r):
                            self.mrn.add(f.name)
                            changed = True
                            break
                        if r == ("c", 0) and any(pa.st.known_null(s) for s in src):
                            self.mrn.add(f.name)
                            changed = True
                            break
                for j, p in enumerate(f.params):
                    if not p["type"].endswith("*") or j in self.mdu.get(f.name, ()):
                        continue
                    A = ("arg", j)
                    hit = False
                    for pa in ps:
                        for e in pa.events:
                            if self._derefs(e, A, {}) and not pa.st.known_nonnull(A, upto=e.nfacts):
                                hit = True
                                break
                        if hit:
                            break
                    if hit:
                        self.mdu.setdefault(f.name, set()).add(j)
                        changed = True

    def _derefs(self, e, t, alias):
        """does event e dereference term t (or hand it to code that does, unchecked)?"""
        if e.kind in ("load", "store"):
            p = e.args[0]
            b = base_of(p)
            return alias.get(b, b) == t
        if e.kind in ("memcpy", "memset"):
            for a in e.args[:2 if e.kind == "memcpy" else 1]:
                b = base_of(a)
                if alias.get(b, b) == t:
                    return True
            return False
        if e.kind == "call":
            for k, a in enumerate(e.args):
                b = base_of(a) if isinstance(a, tuple) else a
                if alias.get(b, b) != t:
                    continue
                if e.ckind == "lib":
                    if k in self.mdu.get(e.callee, ()):
                        return True
                elif e.ckind == "ext":
                    if e.callee in ("memcpy", "memmove", "memset", "strlen", "fwrite", "fprintf") and k in (0, 1):
                        return True
                elif e.ckind in ("callback", "unknown"):
                    pass
            return False
        return False

    def check_function(self, f):
        """yields (ok, kind, source event, use event, detail, path)"""
        ps = self.cache.get(f.name)
        seen = {}
        for pa in ps:
            src, alias = self.sources(pa)
            if not src:
                continue
            # the failed result itself may have been replaced by a literal NULL on its way (an inlined builder that returns NULL
            # when its constructor did): NULL handed to a routine that dereferences that parameter unchecked
            for s, origin in src.items():
                if not pa.st.known_null(s):
                    continue
                for e in pa.events:
                    if e.kind == "call" and e.ckind == "lib" and e is not origin and e.nfacts >= origin.nfacts:
                        for k_, a_ in enumerate(e.args):
                            if a_ == ("c", 0) and k_ in self.mdu.get(e.callee, ()) and \
                                    k_ < len(self.cache.prog.funcs[e.callee].params) and self.cache.prog.funcs[e.callee].params[k_]["type"].endswith("*"):
                                key = (origin.ins.id, e.ins.id)
                                seen[key] = (False, "deref", origin, e,
                                             "result of %s (%s) may be NULL when it reaches %s at %s" % (origin.callee, origin.ins.loc(), e.callee, e.ins.loc()), pa)
            for s, origin in src.items():
                for e in pa.events:
                    if e is origin:
                        continue
                    if self._derefs(e, s, alias):
                        ok = pa.st.known_nonnull(s, upto=e.nfacts)
                        use = e.callee if e.kind == "call" else e.kind
                        key = (origin.ins.id, e.ins.id)
                        if key not in seen or (seen[key][0] and not ok):
                            seen[key] = (ok, "deref", origin, e,
                                         "result of %s (%s) may be NULL when it reaches %s at %s" % (origin.callee, origin.ins.loc(), use, e.ins.loc()),
                                         pa)
                # stored into memory that is handed back on a success path
                if pa.ret != ("c", 0) and not pa.st.known_nonnull(s) and not pa.st.known_null(s):
                    for (b, off), v in pa.st.store.items():
                        if v == s and b[0] != "alloca":
                            key = (origin.ins.id, "ret", b, off)
                            if key not in seen:
                                seen[key] = (False, "stored", origin, origin,
                                             "possibly-NULL result of %s (%s) is left in a structure that is returned (never tested)" %
                                             (origin.callee, origin.ins.loc()), pa)
                elif pa.ret != ("c", 0):
                    key = (origin.ins.id, "ret-ok")
                    seen.setdefault(key, (True, "stored", origin, origin, "", pa))
        return list(seen.values())


# ---------------------------------------------------------------------------
# reference ownership

OWN_RETURN_PREFIX = ("cbor_new_", "cbor_build_")
OWN_RETURN = {"cbor_copy", "cbor_load", "cbor_array_get", "cbor_tag_item", "_cbor_copy_int", "_cbor_copy_float_ctrl"}
# callee -> argument positions that receive +1 on success (and nothing on failure); value: how success is known
TAKES_REF = {
    "cbor_array_push": {1: "bool"}, "cbor_array_set": {2: "bool"}, "cbor_array_replace": {2: "bool"},
    "_cbor_map_add_key": {1: "bool"}, "_cbor_map_add_value": {1: "bool"},
    "cbor_map_add": {1: "bool", 2: "bool"},
    "cbor_bytestring_add_chunk": {1: "bool"}, "cbor_string_add_chunk": {1: "bool"},
    "cbor_tag_set_item": {1: "always"}, "cbor_build_tag": {1: "nonnull"},
}
CONSUMES = {"_cbor_builder_append": [0]}


_DERIVED_OWN = set()


def returns_owned(name):
    return name in OWN_RETURN or name.startswith(OWN_RETURN_PREFIX) or name in _DERIVED_OWN


def derive_owned(prog):
    """unit-internal helpers that hand out an owned reference: every value they return is NULL or the result of a
    function that returns an owned reference (greatest fixpoint, so helpers may be mutually recursive)"""
    from ir import Inst, Null, strip_casts
    cand = {f.name for f in prog.lib_funcs() if f.internal and f.ret_type == "%struct.cbor_item_t*"}

    def sources(f, v, seen):
        v = strip_casts(v)
        if isinstance(v, Inst) and v.op in ("phi", "select"):
            if v.id in seen:
                return []
            out = []
            for o in (v.operands if v.op == "phi" else v.operands[1:]):
                out += sources(f, o, seen | {v.id})
            return out
        if isinstance(v, Inst) and v.op == "load":
            from ir import apath
            root, steps = apath(v.operands[0])
            if root[0] == "inst" and f.insts[root[1]].op == "alloca" and not steps and v.id not in seen:
                # a local whose address is taken (e.g. for cbor_decref(&res)): whatever is stored into it
                out = []
                for s_ in f.all_insts():
                    if s_.op == "store" and apath(s_.operands[1]) == (root, steps):
                        out += sources(f, s_.operands[0], seen | {v.id})
                return out or [v]
        return [v]
    changed = True
    while changed:
        changed = False
        for name in sorted(cand):
            f = prog.funcs[name]
            ok = True
            for r in f.returns():
                if not r.operands:
                    continue
                for v in sources(f, r.operands[0], frozenset()):
                    if isinstance(v, Null):
                        continue
                    if isinstance(v, Inst) and v.op == "call" and v.callee and \
                            (v.callee in OWN_RETURN or v.callee.startswith(OWN_RETURN_PREFIX) or v.callee in cand):
                        continue
                    ok = False
            if not ok:
                cand.discard(name)
                changed = True
    _DERIVED_OWN.clear()
    _DERIVED_OWN.update(cand)


def refcount_delta(rc_off, e):
    """+1 / -1 if store event e is `x->refcount = x->refcount +- 1`, else None"""
    if e.kind != "store":
        return None
    b, off = ptr_key(e.args[0])
    if off != rc_off:
        return None
    v = e.args[1]
    if isinstance(v, tuple) and v[0] == "op" and v[1] == "add":
        x, y = v[3], v[4]
        c = x if is_const(x) else (y if is_const(y) else None)
        o = y if c is x else x
        if c is not None and isinstance(o, tuple) and o[0] == "ld" and o[1] == b and o[2] == rc_off:
            if c[1] == 1:
                return 1
            if c[1] == (1 << 64) - 1:
                return -1
    if isinstance(v, tuple) and v[0] == "op" and v[1] == "sub":
        o, c = v[3], v[4]
        if is_const(c) and isinstance(o, tuple) and o[0] == "ld" and o[1] == b and o[2] == rc_off:
            if c[1] == 1:
                return -1
            if c[1] == (1 << 64) - 1:
                return 1
    return None


class Balance:
    """Per-path reference balance of every item term this function owns.
    +1 when acquired (owned return, consumed parameter, frame popped), -1 when
    released / transferred (decref, move, intermediate_decref, consuming callee,
    successful stack push, returned, stored as root).  At the end of the path
    every acquired, non-NULL term must be at 0."""

    def __init__(self, prog, eff, cache, nullness):
        self.prog, self.eff, self.cache, self.nullness = prog, eff, cache, nullness
        self.root_off = prog.field_offset("_cbor_decoder_context", "root")
        self.rc_off = prog.field_offset("cbor_item_t", "refcount")
        self.item_off = prog.field_offset("_cbor_stack_record", "item")
        self.top_off = prog.field_offset("_cbor_stack", "top")

    def analyse(self, f, pa, owned_params=()):
        """returns list of (term, balance, history, acquired_event) for acquired terms"""
        st = pa.st
        bal = {}
        hist = {}
        acq = {}
        alias = {}
        shared = set()   # terms some container took its own reference on
        dead = {}        # term -> event at which our last reference was dropped by cbor_decref
        self.uaf = []
        self.lost = []   # (term, move event, callee event): moved reference handed to an inserting callee that may fail
        moved = {}

        def res(t):
            return alias.get(t, t)

        def bump(t, d, why, e):
            t = res(t)
            if t not in bal:
                return
            bal[t] += d
            hist[t].append((d, why, e))

        def acquire(t, why, e):
            if t in bal:
                bal[t] += 1
                hist[t].append((1, why, e))
            else:
                bal[t] = 1
                hist[t] = [(1, why, e)]
                acq[t] = e
        for j in owned_params:
            acquire(("arg", j), "consumed parameter", None)
        last_top = {}         # stack pointer term -> most recently loaded top record term
        for e in pa.events:
            if dead and e.kind in ("load", "store", "call"):
                for a in (e.args[:1] if e.kind != "call" else e.args):
                    bt = res(base_of(a)) if isinstance(a, tuple) else a
                    if bt in dead and not (e.kind == "call" and e.callee in ("cbor_decref",) and False):
                        self.uaf.append((bt, dead[bt], e))
            if e.kind == "load":
                b, off = ptr_key(e.args[0])
                syn = e.extra == "synthetic"    # a read made by a callee whose result is "the field as it was" (paths.entry_field_result)
                if off == self.top_off and e.ins is not None and (syn or e.ins.type.endswith("_cbor_stack_record*")):
                    last_top[b] = e.res
                if off == self.item_off and isinstance(b, tuple) and e.ins is not None and (syn or e.ins.type == "%struct.cbor_item_t*") \
                        and b in last_top.values():
                    alias[e.res] = ("frameitem", b)
            elif e.kind == "store":
                b, off = ptr_key(e.args[0])
                v = res(e.args[1])
                if v in bal and off == self.root_off and isinstance(b, tuple) and b[0] == "arg":
                    bump(v, -1, "stored as context root", e)
                # an inlined incref / move: item->refcount = item->refcount +- 1
                d_ = refcount_delta(self.rc_off, e)
                if d_ is not None:
                    bump(b, d_, "refcount %+d (inlined)" % d_, e)
            elif e.kind == "call" and e.ckind == "lib":
                c = e.callee
                if c in self.nullness.identity and c not in ("cbor_move", "cbor_incref"):
                    alias[e.res] = res(e.args[self.nullness.identity[c]])
                if c == "cbor_incref":
                    alias[e.res] = res(e.args[0])
                    bump(e.args[0], +1, "cbor_incref", e)
                elif c == "cbor_move":
                    alias[e.res] = res(e.args[0])
                    if res(e.args[0]) in bal and bal[res(e.args[0])] > 0:
                        moved[res(e.args[0])] = e
                    if res(e.args[0]) not in bal:
                        # giving up a reference this function never held (an element read straight out of a container's storage):
                        # the holder's reference is gone without the holder knowing - recorded as a debt
                        t = res(e.args[0])
                        bal[t] = 0
                        hist[t] = []
                        acq[t] = e
                    bump(e.args[0], -1, "cbor_move of a reference not acquired here" if not hist[res(e.args[0])] else "cbor_move", e)
                elif c == "cbor_intermediate_decref":
                    bump(e.args[0], -1, "cbor_intermediate_decref", e)
                elif c == "cbor_decref":
                    held = e.extra["pointee"][0] if e.extra else None
                    if held is None:
                        # decref of a slot in memory (&stack.top->item, &handle[i]): the slot's current content
                        b, off = ptr_key(e.args[0])
                        if off == self.item_off and b in last_top.values():
                            held = ("frameitem", b)
                        else:
                            held = ("slot", e.args[0])
                    bump(held, -1, "cbor_decref", e)
                    hr = res(held)
                    if hr in bal and bal[hr] == 0 and hr not in shared and acq.get(hr) is not None and acq[hr].kind == "call" \
                            and (acq[hr].callee or "").startswith(("cbor_new_", "cbor_build_", "cbor_copy")):
                        dead[hr] = e
                    if res(held) not in bal:
                        # releasing a reference this function does not own: record as a debt
                        t = res(held)
                        bal[t] = -1
                        hist[t] = [(-1, "cbor_decref of a reference not acquired here", e)]
                        acq[t] = e
                elif c == "_cbor_stack_pop":
                    # the popped frame's reference moves to whoever read top->item before
                    sb = base_of(e.args[0])
                    R = last_top.get(sb)
                    if R is not None:
                        acquire(("frameitem", R), "frame popped (its reference is now ours)", e)
                        last_top.pop(sb, None)
                elif c == "_cbor_stack_push":
                    if st.known_nonnull(e.res):
                        bump(e.args[1], -1, "pushed on the decoding stack (frame owns it)", e)
                elif c in CONSUMES:
                    for k in CONSUMES[c]:
                        bump(e.args[k], -1, "%s consumes it" % c, e)
                elif c in TAKES_REF:
                    # the container takes its own +1; the caller's reference is unaffected
                    for k, how in TAKES_REF[c].items():
                        if k < len(e.args):
                            t_ = res(e.args[k])
                            shared.add(t_)
                            if t_ in moved and bal.get(t_) == 0 and how != "always":
                                # our only reference was given up by cbor_move: if the callee fails nobody owns the item
                                succ = st.truth.get(e.res) is True if how == "bool" else st.known_nonnull(e.res)
                                if not succ:
                                    self.lost.append((t_, moved[t_], e))
                if returns_owned(c) and e.res != ("void",):
                    acquire(e.res, "returned by %s" % c, e)
            elif e.kind == "ret" and e.depth == 0:
                r = res(e.res) if e.res is not None else None
                if r in bal:
                    bump(r, -1, "returned to the caller", e)
        out = []
        for t, b in bal.items():
            out.append((t, b, hist[t], acq.get(t)))
        return out
